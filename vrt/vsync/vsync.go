// Package sync (import path verif/vrt/vsync) replaces "sync" in instrumented files.
package sync

import (
	"sync"

	"verif/vrt"
)

type (
	Mutex     = vrt.Mutex
	RWMutex   = vrt.RWMutex
	WaitGroup = vrt.WaitGroup
	Once      = vrt.Once
	Map       = sync.Map
	Pool      = sync.Pool
	Locker    = sync.Locker
)
