// Package sync (import path verif/vrt/vsync) replaces "sync" in instrumented files.
package sync

import (
	"sync"

	"verif/vrt"
)

type (
	Mutex     = vrt.Mutex
	RWMutex   = vrt.RWMutex
	WaitGroup = vrt.WaitGroup
	Once      = vrt.Once
	Cond      = vrt.Cond
	Map       = sync.Map
	Pool      = sync.Pool
	Locker    = sync.Locker
)

func NewCond(l Locker) *Cond { return vrt.NewCond(l) }

// OnceFunc / OnceValue (Go 1.21)
func OnceFunc(f func()) func() {
	var o vrt.Once
	return func() { o.Do(f) }
}

func OnceValue[T any](f func() T) func() T {
	var o vrt.Once
	var v T
	return func() T {
		o.Do(func() { v = f() })
		return v
	}
}
