package vrt

import (
	"crypto/sha1"
	"encoding/hex"
	"fmt"
	"strings"
	"time"
)

// Scenario is one closed system: Main is executed under the scheduler once per explored schedule.
type Scenario struct {
	Name       string
	Main       func()
	Bound      int  // deviation bound (non-free, non-default choices)
	FreeSwitch bool // CHESS-style: switches at blocking points are free (default: every non-default choice costs 1)
	MaxSteps   int
	NoTimerAlt bool
	// Classify is called after every execution; it returns violation messages (beyond Failf ones).
	Classify func(r *Result) []string
	// FreeChoices: the scenario contains free (cost 0) choice points.
	FreeChoices bool
	// AllowDeadlock etc.: by default deadlock / crash / steplimit are reported through Classify only.
}

// Violation is one failing execution.
type Violation struct {
	Scenario string   `json:"scenario"`
	Choices  []int    `json:"choices"`
	Messages []string `json:"messages"`
	Status   string   `json:"status"`
	Crash    *Crash   `json:"crash,omitempty"`
	Blocked  []string `json:"blocked,omitempty"`
	Log      []string `json:"log,omitempty"`
	Key      string   `json:"key"` // fingerprint
}

// Stats aggregates an exploration.
type Stats struct {
	Executions  int64            `json:"executions"`
	Points      int64            `json:"points"`
	Steps       int64            `json:"steps"`
	MaxDepth    int              `json:"max_depth"`
	MaxPoints   int              `json:"max_points"`
	Outcomes    map[string]int64 `json:"outcomes"`
	StatusCount map[string]int64 `json:"status_count"`
	Exhaustive  bool             `json:"exhaustive"`
	CapHit      string           `json:"cap_hit,omitempty"`
	Violations  []Violation      `json:"violations,omitempty"`
	ViolCount   int64            `json:"violation_count"`
	Samples     []Sample         `json:"samples,omitempty"`
}

// Sample is one explored execution written out.
type Sample struct {
	Choices []int    `json:"choices"`
	Status  string   `json:"status"`
	Outcome string   `json:"outcome"`
	Log     []string `json:"log,omitempty"`
}

func NewStats() *Stats {
	return &Stats{Outcomes: map[string]int64{}, StatusCount: map[string]int64{}, Exhaustive: true}
}

// addViolation keeps one representative per fingerprint (all messages, digits dropped), so that a rare kind
// of failure is never crowded out by a frequent one. Returns true if v was added.
func (s *Stats) addViolation(v Violation) bool {
	for _, x := range s.Violations {
		if x.Key == v.Key {
			return false
		}
	}
	if len(s.Violations) >= 300 {
		return false
	}
	s.Violations = append(s.Violations, v)
	return true
}

// Merge adds o into s.
func (s *Stats) Merge(o *Stats) {
	s.Executions += o.Executions
	s.Points += o.Points
	s.Steps += o.Steps
	if o.MaxDepth > s.MaxDepth {
		s.MaxDepth = o.MaxDepth
	}
	if o.MaxPoints > s.MaxPoints {
		s.MaxPoints = o.MaxPoints
	}
	for k, v := range o.Outcomes {
		s.Outcomes[k] += v
	}
	for k, v := range o.StatusCount {
		s.StatusCount[k] += v
	}
	if !o.Exhaustive {
		s.Exhaustive = false
		if s.CapHit == "" {
			s.CapHit = o.CapHit
		}
	}
	s.ViolCount += o.ViolCount
	for _, v := range o.Violations {
		s.addViolation(v)
	}
	for _, v := range o.Samples {
		if len(s.Samples) < 6 {
			s.Samples = append(s.Samples, v)
		}
	}
}

// Explorer enumerates all executions of a scenario within its deviation bound.
type Explorer struct {
	Sc          *Scenario
	Shard       int // this worker
	Shards      int // number of workers (0/1: everything)
	Deadline    time.Time
	MaxExec     int64
	Stats       *Stats
	stop        bool
	maxOutcomes int
}

func hashStr(s string) string {
	h := sha1.Sum([]byte(s))
	return hex.EncodeToString(h[:8])
}

// RunOnce executes the scenario with the given choice prefix.
func (e *Explorer) RunOnce(prefix []int, labels bool) *Result {
	sc := e.Sc
	return Run(Options{Prefix: prefix, MaxSteps: sc.MaxSteps, FreeSwitch: sc.FreeSwitch, Labels: labels, NoTimerAlt: sc.NoTimerAlt}, sc.Main)
}

// Check evaluates the oracle of one result.
func (e *Explorer) Check(r *Result) []string {
	var msgs []string
	if e.Sc.Classify != nil {
		// Classify may rewrite r.Failures (e.g. to name the state in which they happened)
		cm := e.Sc.Classify(r)
		msgs = append(msgs, r.Failures...)
		msgs = append(msgs, cm...)
		return msgs
	}
	msgs = append(msgs, r.Failures...)
	if r.Status != StatusOK {
		// a scenario that does not expect it treats process death, hang and livelock as violations
		m := "execution ended with status " + r.Status.String()
		if r.Crash != nil {
			m += ": panic in " + r.Crash.Thread + ": " + r.Crash.Value
		}
		if len(r.Blocked) > 0 {
			m += "; blocked: " + strings.Join(r.Blocked, " | ")
		}
		msgs = append(msgs, m)
	}
	return msgs
}

func (e *Explorer) account(r *Result, choices []int, owned bool) {
	if !owned {
		return
	}
	st := e.Stats
	st.Executions++
	st.Points += int64(len(r.Trace))
	st.Steps += int64(r.Steps)
	if len(r.Trace) > st.MaxPoints {
		st.MaxPoints = len(r.Trace)
	}
	st.StatusCount[r.Status.String()]++
	if len(st.Outcomes) < 200000 {
		st.Outcomes[hashStr(r.Status.String()+"|"+r.Outcome)]++
	}
	if len(st.Samples) < 3 || (len(st.Samples) < 6 && st.Executions%997 == 0) {
		lg := r.Log
		if len(lg) > 40 {
			lg = lg[:40]
		}
		st.Samples = append(st.Samples, Sample{Choices: append([]int{}, choices...), Status: r.Status.String(), Outcome: r.Outcome, Log: lg})
	}
	if r.Status == StatusDiverged {
		panic("vrt: replay diverged: " + r.Diverge)
	}
	if msgs := e.Check(r); len(msgs) > 0 {
		st.ViolCount++
		v := Violation{Scenario: e.Sc.Name, Choices: append([]int{}, choices...), Messages: msgs, Status: r.Status.String(), Crash: r.Crash, Blocked: r.Blocked}
		v.Key = Fingerprint(&v)
		if st.addViolation(v) {
			st.Violations[len(st.Violations)-1].Log = r.Log
		}
	}
}

// Fingerprint identifies the kind of failure (first message with digits dropped + crash site).
func Fingerprint(v *Violation) string {
	var b strings.Builder
	b.WriteString(v.Status)
	for _, m := range v.Messages {
		b.WriteString("|")
		b.WriteString(stripDigits(m))
	}
	if v.Crash != nil {
		b.WriteString("|")
		b.WriteString(stripDigits(v.Crash.Value))
	}
	return b.String()
}

func stripDigits(s string) string {
	var b strings.Builder
	for _, r := range s {
		if r >= '0' && r <= '9' {
			continue
		}
		b.WriteRune(r)
	}
	return b.String()
}

func (e *Explorer) expired() bool {
	if e.stop {
		return true
	}
	if !e.Deadline.IsZero() && time.Now().After(e.Deadline) {
		e.stop = true
		e.Stats.Exhaustive = false
		e.Stats.CapHit = "time limit"
		return true
	}
	if e.MaxExec > 0 && e.Stats.Executions >= e.MaxExec {
		e.stop = true
		e.Stats.Exhaustive = false
		e.Stats.CapHit = fmt.Sprintf("execution cap %d", e.MaxExec)
		return true
	}
	return false
}

// Explore runs the whole (sharded) search.
func (e *Explorer) Explore() *Stats {
	if e.Stats == nil {
		e.Stats = NewStats()
	}
	if e.Shards <= 1 {
		e.Shards, e.Shard = 1, 0
	}
	e.explore(nil, 0, 0, 0)
	return e.Stats
}

// explore: prefix = choices so far, used = deviation cost of prefix, level = number of non-default
// choices in prefix, slot = running index used for sharding.
func (e *Explorer) explore(prefix []int, used int, level int, slot int) {
	if e.expired() {
		return
	}
	owned := true
	if e.Shards > 1 {
		switch {
		case level == 0:
			owned = e.Shard == 0
		case level == 1:
			owned = slot%e.Shards == e.Shard
		}
	}
	if !owned && level == 1 && used >= e.Sc.Bound && !e.Sc.FreeChoices && !e.Sc.FreeSwitch {
		return // cannot have children within the bound; its owner runs it
	}
	r := e.RunOnce(prefix, false)
	if level > e.Stats.MaxDepth {
		e.Stats.MaxDepth = level
	}
	choices := make([]int, len(r.Trace))
	for i, p := range r.Trace {
		choices[i] = p.Chosen
	}
	e.account(r, choices, owned)
	// cost already used by the points of the prefix is `used`; later points were default (cost 0)
	child := 0
	for i := len(prefix); i < len(r.Trace); i++ {
		p := r.Trace[i]
		cost := 1
		if p.Free {
			cost = 0
		}
		if used+cost > e.Sc.Bound {
			continue
		}
		for alt := 1; alt < p.N; alt++ {
			c := child
			child++
			if e.Shards > 1 {
				// level-2 subtrees are dealt round-robin; level-1 executions are re-run by every
				// worker (cheap) but only accounted by their owner.
				if level == 1 && (slot+c)%e.Shards != e.Shard {
					continue
				}
			}
			np := make([]int, i+1)
			copy(np, choices[:i])
			np[i] = alt
			e.explore(np, used+cost, level+1, c)
			if e.stop {
				return
			}
		}
	}
}
