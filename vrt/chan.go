package vrt

import (
	"fmt"
	"reflect"
	"runtime"
)

// Channels: under a scheduler every channel operation of instrumented code goes through a virtual
// channel keyed by the identity of the native channel (which is only used for its identity, element
// type and capacity).  A blocked operation is a *disabled* thread, never a native block.

type vchan struct {
	keep   any // keeps the native channel alive so the address cannot be reused
	cap    int
	q      []any
	closed bool
	// unbuffered rendezvous: number of receivers currently parked on this channel
	recvWaiting int
	// handoff slots filled by a sender for a specific waiting receiver
	handoff []any
}

func (s *Sched) vc(ch any) *vchan {
	v := reflect.ValueOf(ch)
	if v.Kind() != reflect.Chan {
		panic(fmt.Sprintf("vrt: not a channel: %T", ch))
	}
	if v.IsNil() {
		return nil
	}
	p := v.Pointer()
	c, ok := s.chans[p]
	if !ok {
		c = &vchan{keep: ch, cap: v.Cap()}
		s.chans[p] = c
	}
	return c
}

func (c *vchan) canSend() bool {
	if c == nil {
		return false
	}
	if c.closed {
		return true // will panic, like the real thing
	}
	if c.cap > 0 {
		return len(c.q) < c.cap
	}
	return c.recvWaiting > len(c.handoff)
}

func (c *vchan) canRecv() bool {
	if c == nil {
		return false
	}
	if c.cap > 0 {
		return len(c.q) > 0 || c.closed
	}
	return len(c.handoff) > 0 || c.closed
}

func (c *vchan) doSend(v any) {
	if c.closed {
		panic("send on closed channel")
	}
	if c.cap > 0 {
		c.q = append(c.q, v)
	} else {
		c.handoff = append(c.handoff, v)
	}
}

func (c *vchan) doRecv() (any, bool) {
	if c.cap > 0 {
		if len(c.q) > 0 {
			v := c.q[0]
			c.q = c.q[1:]
			return v, true
		}
		return nil, false
	}
	if len(c.handoff) > 0 {
		v := c.handoff[0]
		c.handoff = c.handoff[1:]
		return v, true
	}
	return nil, false
}

// SendF returns the send function of ch; written so that the element type is inferred from the
// channel alone (vrt.SendF(ch)(v) accepts any v assignable to the element type).
func SendF[T any](ch chan<- T) func(T) {
	return func(v T) { Send(ch, v) }
}

// Send is ch <- v.
func Send[T any](ch chan<- T, v T) {
	s := cur
	if s == nil {
		ch <- v
		return
	}
	if s.dead {
		runtime.Goexit()
	}
	Yield(-5)
	c := s.vc(ch)
	s.park(&pendingOp{ready: c.canSend, desc: fmt.Sprintf("send %T", ch)})
	c.doSend(v)
}

// Recv is <-ch.
func Recv[T any](ch <-chan T) T {
	v, _ := Recv2(ch)
	return v
}

// Recv2 is v, ok := <-ch.
func Recv2[T any](ch <-chan T) (T, bool) {
	s := cur
	if s == nil {
		v, ok := <-ch
		return v, ok
	}
	if s.dead {
		runtime.Goexit()
	}
	Yield(-5) // between whatever was checked before and becoming a registered receiver
	c := s.vc(ch)
	if c != nil {
		c.recvWaiting++
	}
	s.park(&pendingOp{ready: c.canRecv, desc: fmt.Sprintf("recv %T", ch)})
	c.recvWaiting--
	return takeT[T](c)
}

func takeT[T any](c *vchan) (T, bool) {
	v, ok := c.doRecv()
	var zero T
	if !ok {
		return zero, false
	}
	if v == nil {
		return zero, true
	}
	return v.(T), true
}

// Close is close(ch).
func Close[T any](ch chan<- T) {
	s := cur
	if s == nil {
		close(ch)
		return
	}
	if s.dead {
		return
	}
	c := s.vc(ch)
	if c == nil {
		panic("close of nil channel")
	}
	if c.closed {
		panic("close of closed channel")
	}
	c.closed = true
}

// CloseAny closes a channel given as interface (used by the context shim).
func CloseAny(ch any) {
	s := cur
	if s == nil || s.dead {
		return
	}
	c := s.vc(ch)
	if c != nil && !c.closed {
		c.closed = true
	}
}

// Len is len(ch) for a virtual channel.
func Len[T any](ch chan T) int {
	s := cur
	if s == nil {
		return len(ch)
	}
	c := s.vc(ch)
	if c == nil {
		return 0
	}
	return len(c.q)
}

// TrySend is a non-blocking send (select with default).
func TrySend[T any](ch chan<- T, v T) bool {
	s := cur
	if s == nil {
		select {
		case ch <- v:
			return true
		default:
			return false
		}
	}
	if s.dead {
		return false
	}
	c := s.vc(ch)
	if c.canSend() {
		c.doSend(v)
		return true
	}
	return false
}

// Case is one arm of a select.
type Case struct {
	c    *vchan
	send bool
	ch   any
}

// RecvCase builds a receive arm.
func RecvCase[T any](ch <-chan T) Case {
	if cur == nil {
		return Case{ch: ch}
	}
	return Case{c: cur.vc(ch), ch: ch}
}

// SendCase builds a send arm (the value is sent with SendNow after Select chose the arm).
func SendCase[T any](ch chan<- T) Case {
	if cur == nil {
		return Case{ch: ch, send: true}
	}
	return Case{c: cur.vc(ch), send: true, ch: ch}
}

// Select blocks until one arm is ready and returns its index; with hasDefault it returns -1 when none
// is ready.  Which of several ready arms is taken is a recorded (costed) choice.  The caller then
// completes the operation with RecvNow / SendNow, which cannot block.
func Select(hasDefault bool, cases ...Case) int {
	s := cur
	if s == nil {
		return nativeSelect(hasDefault, cases)
	}
	if s.dead {
		runtime.Goexit()
	}
	readyIdx := func() []int {
		var r []int
		for i, cs := range cases {
			if cs.c == nil {
				continue
			}
			if cs.send && cs.c.canSend() || !cs.send && cs.c.canRecv() {
				r = append(r, i)
			}
		}
		return r
	}
	Yield(-5)
	if hasDefault {
		r := readyIdx()
		if len(r) == 0 {
			return -1
		}
		return r[s.pick(len(r), false, 'a', func() string { return "select-arm" })]
	}
	for _, cs := range cases {
		if cs.c != nil && !cs.send {
			cs.c.recvWaiting++
		}
	}
	s.park(&pendingOp{ready: func() bool { return len(readyIdx()) > 0 }, desc: fmt.Sprintf("select/%d", len(cases))})
	for _, cs := range cases {
		if cs.c != nil && !cs.send {
			cs.c.recvWaiting--
		}
	}
	r := readyIdx()
	return r[s.pick(len(r), false, 'a', func() string { return "select-arm" })]
}

// RecvNow completes a receive arm chosen by Select.
func RecvNow[T any](ch <-chan T) (T, bool) {
	s := cur
	if s == nil {
		v, ok := <-ch
		return v, ok
	}
	if s.dead {
		runtime.Goexit()
	}
	return takeT[T](s.vc(ch))
}

// SendNow completes a send arm chosen by Select.
func SendNow[T any](ch chan<- T, v T) {
	s := cur
	if s == nil {
		ch <- v
		return
	}
	if s.dead {
		runtime.Goexit()
	}
	s.vc(ch).doSend(v)
}

func nativeSelect(hasDefault bool, cases []Case) int {
	// Outside a scheduler: only readiness is decided here; RecvNow/SendNow then perform the native
	// operation.  reflect.Select would consume the value, so poll instead.
	for {
		for i, cs := range cases {
			v := reflect.ValueOf(cs.ch)
			if v.IsNil() {
				continue
			}
			if cs.send {
				if v.Len() < v.Cap() {
					return i
				}
			} else if v.Len() > 0 {
				return i
			}
		}
		if hasDefault {
			return -1
		}
		runtime.Gosched()
	}
}

// LenAny is len(ch) for any channel type.
func LenAny(ch any) int {
	s := cur
	if s == nil {
		return reflect.ValueOf(ch).Len()
	}
	c := s.vc(ch)
	if c == nil {
		return 0
	}
	return len(c.q)
}
