package vrt

import (
	"runtime"
	"sync"
	"sync/atomic"
)

// Mutex replaces sync.Mutex in instrumented code (unlock from another thread is allowed).
type Mutex struct {
	locked bool
	native sync.Mutex
}

func (m *Mutex) Lock() {
	s := cur
	if s == nil {
		m.native.Lock()
		return
	}
	if s.dead {
		runtime.Goexit()
	}
	s.park(&pendingOp{ready: func() bool { return !m.locked }, desc: "lock"})
	m.locked = true
}

func (m *Mutex) TryLock() bool {
	s := cur
	if s == nil {
		return m.native.TryLock()
	}
	if s.dead {
		return false
	}
	if m.locked {
		return false
	}
	m.locked = true
	return true
}

func (m *Mutex) Unlock() {
	s := cur
	if s == nil {
		m.native.Unlock()
		return
	}
	if s.dead {
		return
	}
	if !m.locked {
		panic("sync: unlock of unlocked mutex")
	}
	m.locked = false
}

// RWMutex replaces sync.RWMutex.
type RWMutex struct {
	writer  bool
	readers int
	native  sync.RWMutex
}

func (m *RWMutex) Lock() {
	s := cur
	if s == nil {
		m.native.Lock()
		return
	}
	if s.dead {
		runtime.Goexit()
	}
	s.park(&pendingOp{ready: func() bool { return !m.writer && m.readers == 0 }, desc: "wlock"})
	m.writer = true
}

func (m *RWMutex) Unlock() {
	s := cur
	if s == nil {
		m.native.Unlock()
		return
	}
	if s.dead {
		return
	}
	if !m.writer {
		panic("sync: Unlock of unlocked RWMutex")
	}
	m.writer = false
}

func (m *RWMutex) RLock() {
	s := cur
	if s == nil {
		m.native.RLock()
		return
	}
	if s.dead {
		runtime.Goexit()
	}
	s.park(&pendingOp{ready: func() bool { return !m.writer }, desc: "rlock"})
	m.readers++
}

func (m *RWMutex) RUnlock() {
	s := cur
	if s == nil {
		m.native.RUnlock()
		return
	}
	if s.dead {
		return
	}
	if m.readers <= 0 {
		panic("sync: RUnlock of unlocked RWMutex")
	}
	m.readers--
}

// WaitGroup replaces sync.WaitGroup.
type WaitGroup struct {
	n      int
	native sync.WaitGroup
}

func (w *WaitGroup) Add(d int) {
	s := cur
	if s == nil {
		w.native.Add(d)
		return
	}
	if s.dead {
		return
	}
	w.n += d
	if w.n < 0 {
		panic("sync: negative WaitGroup counter")
	}
}

func (w *WaitGroup) Done() { w.Add(-1) }

func (w *WaitGroup) Wait() {
	s := cur
	if s == nil {
		w.native.Wait()
		return
	}
	if s.dead {
		runtime.Goexit()
	}
	s.park(&pendingOp{ready: func() bool { return w.n == 0 }, desc: "wg.Wait"})
}

// Once replaces sync.Once.
type Once struct {
	state  int // 0 new, 1 running, 2 done
	native sync.Once
}

func (o *Once) Do(f func()) {
	s := cur
	if s == nil {
		o.native.Do(f)
		return
	}
	if s.dead {
		runtime.Goexit()
	}
	if o.state == 2 {
		return
	}
	if o.state == 1 {
		s.park(&pendingOp{ready: func() bool { return o.state == 2 }, desc: "once.Do"})
		return
	}
	o.state = 1
	defer func() { o.state = 2 }()
	f()
}

// Int32 replaces atomic.Int32 (every access is a scheduling point).
type Int32 struct{ v atomic.Int32 }

func (a *Int32) Load() int32        { Yield(-1); return a.v.Load() }
func (a *Int32) Store(x int32)      { Yield(-1); a.v.Store(x) }
func (a *Int32) Add(d int32) int32  { Yield(-1); return a.v.Add(d) }
func (a *Int32) Swap(x int32) int32 { Yield(-1); return a.v.Swap(x) }
func (a *Int32) CompareAndSwap(o, n int32) bool {
	Yield(-1)
	return a.v.CompareAndSwap(o, n)
}

// Uint32 replaces atomic.Uint32.
type Uint32 struct{ v atomic.Uint32 }

func (a *Uint32) Load() uint32         { Yield(-1); return a.v.Load() }
func (a *Uint32) Store(x uint32)       { Yield(-1); a.v.Store(x) }
func (a *Uint32) Add(d uint32) uint32  { Yield(-1); return a.v.Add(d) }
func (a *Uint32) Swap(x uint32) uint32 { Yield(-1); return a.v.Swap(x) }

// Int64 / Bool for completeness.
type Int64 struct{ v atomic.Int64 }

func (a *Int64) Load() int64        { Yield(-1); return a.v.Load() }
func (a *Int64) Store(x int64)      { Yield(-1); a.v.Store(x) }
func (a *Int64) Add(d int64) int64  { Yield(-1); return a.v.Add(d) }
func (a *Int64) Swap(x int64) int64 { Yield(-1); return a.v.Swap(x) }

type Bool struct{ v atomic.Bool }

func (a *Bool) Load() bool       { Yield(-1); return a.v.Load() }
func (a *Bool) Store(x bool)     { Yield(-1); a.v.Store(x) }
func (a *Bool) Swap(x bool) bool { Yield(-1); return a.v.Swap(x) }

// Cond replaces sync.Cond.
type Cond struct {
	L       sync.Locker
	waiters int
	signals int
}

func NewCond(l sync.Locker) *Cond { return &Cond{L: l} }

func (c *Cond) Wait() {
	s := cur
	if s == nil {
		panic("vrt.Cond outside a scheduler is not supported")
	}
	if s.dead {
		runtime.Goexit()
	}
	c.waiters++
	c.L.Unlock()
	s.park(&pendingOp{ready: func() bool { return c.signals > 0 }, desc: "cond.Wait"})
	c.signals--
	c.waiters--
	c.L.Lock()
}

func (c *Cond) Signal() {
	if Dead() {
		return
	}
	if c.waiters > c.signals {
		c.signals++
	}
}

func (c *Cond) Broadcast() {
	if Dead() {
		return
	}
	c.signals = c.waiters
}

// Uint64 / Pointer / Value
type Uint64 struct{ v atomic.Uint64 }

func (a *Uint64) Load() uint64         { Yield(-1); return a.v.Load() }
func (a *Uint64) Store(x uint64)       { Yield(-1); a.v.Store(x) }
func (a *Uint64) Add(d uint64) uint64  { Yield(-1); return a.v.Add(d) }
func (a *Uint64) Swap(x uint64) uint64 { Yield(-1); return a.v.Swap(x) }
func (a *Uint64) CompareAndSwap(o, n uint64) bool {
	Yield(-1)
	return a.v.CompareAndSwap(o, n)
}

func (a *Int64) CompareAndSwap(o, n int64) bool { Yield(-1); return a.v.CompareAndSwap(o, n) }
func (a *Uint32) CompareAndSwap(o, n uint32) bool {
	Yield(-1)
	return a.v.CompareAndSwap(o, n)
}
func (a *Bool) CompareAndSwap(o, n bool) bool { Yield(-1); return a.v.CompareAndSwap(o, n) }

type Value struct{ v atomic.Value }

func (a *Value) Load() any      { Yield(-1); return a.v.Load() }
func (a *Value) Store(x any)    { Yield(-1); a.v.Store(x) }
func (a *Value) Swap(x any) any { Yield(-1); return a.v.Swap(x) }
func (a *Value) CompareAndSwap(o, n any) bool {
	Yield(-1)
	return a.v.CompareAndSwap(o, n)
}

type Pointer[T any] struct{ v atomic.Pointer[T] }

func (a *Pointer[T]) Load() *T     { Yield(-1); return a.v.Load() }
func (a *Pointer[T]) Store(x *T)   { Yield(-1); a.v.Store(x) }
func (a *Pointer[T]) Swap(x *T) *T { Yield(-1); return a.v.Swap(x) }
func (a *Pointer[T]) CompareAndSwap(o, n *T) bool {
	Yield(-1)
	return a.v.CompareAndSwap(o, n)
}
