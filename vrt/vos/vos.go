// Package vos replaces "os" in the one library file that reads the host name (the stateful-set membership
// takes its member number from the pod's host name): the harness decides the answer.
package vos

import "os"

// HostnameFn, when set, answers Hostname().
var HostnameFn func() (string, error)

func Hostname() (string, error) {
	if HostnameFn != nil {
		return HostnameFn()
	}
	return os.Hostname()
}
