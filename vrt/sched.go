// Package vrt is a cooperative, deterministic scheduler for real Go code.
//
// Exactly one controlled thread (a real goroutine) runs at any time.  Every
// blocking-capable operation (lock, channel operation, select, wait, sleep,
// shared-field yield) is a *point*: the thread publishes a pending operation
// and the scheduler picks the next thread.  The sequence of picks is the
// schedule; it is recorded and can be replayed from a prefix, which is what the
// DFS explorer (explore.go) uses to enumerate all schedules within a deviation
// bound.  Time is virtual.
package vrt

import (
	"fmt"
	"runtime"
	"runtime/debug"
	"sort"
	"strings"
	"sync"
)

// Status of a finished execution.
type Status int

const (
	StatusOK        Status = iota // main returned
	StatusDeadlock                // no enabled thread, no timer, main not finished
	StatusCrash                   // a controlled thread panicked (process would have died)
	StatusStepLimit               // horizon hit
	StatusDiverged                // replay prefix did not fit (engine error)
)

func (s Status) String() string {
	return [...]string{"ok", "deadlock", "crash", "steplimit", "diverged"}[s]
}

// Point is one recorded branching point (only points with more than one alternative are recorded).
type Point struct {
	N      int    // number of alternatives
	Chosen int    // alternative taken
	Free   bool   // alternatives cost 0 (alphabet choice) instead of 1
	Kind   byte   // 's' schedule, 'c' environment choice
	Label  string // only filled when tracing
}

// Crash describes a captured panic.
type Crash struct {
	Thread string
	Value  string
	Stack  string
}

type opKind int

type pendingOp struct {
	ready    func() bool // nil: always ready (subject to deadline)
	deadline int64       // if timed: ready only when now >= deadline
	timed    bool
	desc     string
}

// T is a controlled thread.
type T struct {
	id     int
	name   string
	wake   chan struct{}
	op     *pendingOp
	done   bool
	daemon bool
	s      *Sched
	points int // scheduling points passed by this thread (parks and fast-pathed yields)
	paused *T  // held back until this (injected) thread blocks or finishes
}

type timer struct {
	id       int
	deadline int64
	f        func()
	name     string
	stopped  bool
	fired    bool
}

// Sched is the per-execution scheduler state.
type Sched struct {
	threads  []*T
	running  *T
	now      int64
	timers   []*timer
	timerSeq int

	chans map[uintptr]*vchan

	prefix []int
	trace  []Point
	window bool
	// FreeSwitch: switching when the running thread is blocked costs nothing.
	freeSwitch bool
	labels     bool

	steps    int
	maxSteps int

	dead     bool
	status   Status
	crash    *Crash
	diverge  string
	blocked  []string // descriptions of blocked threads at deadlock
	finished chan struct{}
	finOnce  sync.Once
	wg       sync.WaitGroup

	// harness-owned observation log and failures
	Log      []string
	Failures []string
	Outcome  string

	noTimerAlt bool
	vals       map[string]any
	inj        *injection
	holds      []hold
}

type hold struct {
	name    string
	release func() bool
}

// matchAll: every '|'-separated part of pattern occurs in name (a part starting with '$' must be a suffix).
func matchAll(name, pattern string) bool {
	for _, part := range strings.Split(pattern, "|") {
		if strings.HasPrefix(part, "$") {
			if !strings.HasSuffix(name, part[1:]) {
				return false
			}
		} else if !strings.Contains(name, part) {
			return false
		}
	}
	return true
}

// Hold keeps every thread whose name contains nameSubstr disabled until release() reports true: an
// adversarial delay of that thread (threads may be delayed arbitrarily long by a real scheduler).
func Hold(nameSubstr string, release func() bool) {
	if s := cur; s != nil {
		s.holds = append(s.holds, hold{nameSubstr, release})
	}
}

// injection: run f on a fresh thread exactly when the target thread reaches its k-th scheduling point,
// and hold the target there until the injected thread blocks or finishes ("inject at every point").
type injection struct {
	target  string
	at      int
	f       func()
	started bool
	th      *T
	// fireAtEnd: run f when the target finishes without having reached the point
	fireAtEnd bool
	// untilDone: the target stays paused until the injected thread has finished (not only until it blocks)
	untilDone bool
}

// InjectAtomic is InjectAt with the target held until f has run to completion: f happens "between two
// statements" of the target thread, whatever blocking f does internally.
func InjectAtomic(target string, k int, f func()) {
	InjectAt(target, k, f)
	if s := cur; s != nil && s.inj != nil {
		s.inj.untilDone = true
	}
}

// InjectAt arms an injection: when the thread named target passes k more scheduling points, f is started
// on a new thread and runs before the target continues. If the target finishes earlier, f runs then.
func InjectAt(target string, k int, f func()) {
	s := cur
	if s == nil {
		return
	}
	base := 0
	for _, t := range s.threads {
		if !t.done && strings.Contains(t.name, target) {
			base = t.points
		}
	}
	s.inj = &injection{target: target, at: base + k, f: f, fireAtEnd: true}
}

// Injected reports whether the armed injection has started.
func Injected() bool {
	s := cur
	return s != nil && s.inj != nil && s.inj.started
}

// notePoint counts a scheduling point of t and fires the injection when due. Returns true if it fired.
func (s *Sched) notePoint(t *T) bool {
	t.points++
	in := s.inj
	if in == nil || in.started || !strings.Contains(t.name, in.target) || t.points < in.at {
		return false
	}
	in.started = true
	in.th = s.newThread("injected", in.f)
	t.paused = in.th
	return true
}

var cur *Sched

// Active reports whether a scheduler controls the calling code.
func Active() bool { return cur != nil && !cur.dead }

// Cur returns the current scheduler (nil outside an execution).
func Cur() *Sched { return cur }

// Options for one execution.
type Options struct {
	Prefix     []int
	MaxSteps   int
	FreeSwitch bool
	Labels     bool
	NoTimerAlt bool // do not offer "fire the next timer early" as an alternative
}

// Result of one execution.
type Result struct {
	Status   Status
	Trace    []Point
	Crash    *Crash
	Diverge  string
	Blocked  []string
	Log      []string
	Failures []string
	Outcome  string
	Steps    int
	Now      int64
}

// Run executes main under a fresh scheduler and returns what happened.
func Run(opt Options, main func()) *Result {
	if opt.MaxSteps == 0 {
		opt.MaxSteps = 200000
	}
	s := &Sched{
		chans:      map[uintptr]*vchan{},
		prefix:     opt.Prefix,
		maxSteps:   opt.MaxSteps,
		freeSwitch: opt.FreeSwitch,
		labels:     opt.Labels,
		noTimerAlt: opt.NoTimerAlt,
		finished:   make(chan struct{}),
		now:        1_700_000_000_000_000_000, // arbitrary fixed epoch (ns)
		vals:       map[string]any{},
	}
	cur = s
	t0 := s.newThread("main", main)
	s.running = t0
	t0.wake <- struct{}{}
	<-s.finished
	s.wg.Wait()
	cur = nil
	return &Result{
		Status: s.status, Trace: s.trace, Crash: s.crash, Diverge: s.diverge, Blocked: s.blocked,
		Log: s.Log, Failures: s.Failures, Outcome: s.Outcome, Steps: s.steps, Now: s.now,
	}
}

func (s *Sched) newThread(name string, f func()) *T {
	t := &T{id: len(s.threads), name: name, wake: make(chan struct{}, 1), s: s}
	s.threads = append(s.threads, t)
	s.wg.Add(1)
	go func() {
		defer s.wg.Done()
		<-t.wake
		if s.dead {
			return
		}
		defer func() {
			if r := recover(); r != nil {
				if s.dead {
					return
				}
				s.crash = &Crash{Thread: t.name, Value: fmt.Sprint(r), Stack: trimStack(string(debug.Stack()))}
				s.endNoExit(StatusCrash)
				return
			}
		}()
		f()
		if s.dead {
			return
		}
		t.done = true
		if in := s.inj; in != nil && !in.started && in.fireAtEnd && strings.Contains(t.name, in.target) {
			in.started = true
			in.th = s.newThread("injected", in.f)
		}
		if t.id == 0 {
			s.endNoExit(StatusOK)
			return
		}
		s.dispatch(t)
	}()
	return t
}

func trimStack(st string) string {
	lines := strings.Split(st, "\n")
	var out []string
	for i := 0; i < len(lines); i++ {
		l := lines[i]
		if strings.Contains(l, "runtime/debug") || strings.Contains(l, "runtime/panic") || strings.Contains(l, "verif/vrt.") {
			i++
			continue
		}
		out = append(out, l)
		if len(out) > 24 {
			break
		}
	}
	return strings.Join(out, "\n")
}

// Go starts a controlled thread.
func Go(f func()) { GoNamed("", f) }

// GoNamed starts a controlled thread with a name (for diagnostics).
func GoNamed(name string, f func()) {
	s := cur
	if s == nil {
		go f()
		return
	}
	if s.dead {
		return
	}
	if name == "" {
		name = callerName(2)
		// threads started from the same go statement are numbered in creation order
		n := 0
		for _, t := range s.threads {
			if strings.HasPrefix(t.name, name+"#") {
				n++
			}
		}
		name = fmt.Sprintf("%s#%d", name, n+1)
	}
	s.newThread(name, f)
}

func callerName(skip int) string {
	pc, _, line, ok := runtime.Caller(skip + 1)
	if !ok {
		return "?"
	}
	fn := runtime.FuncForPC(pc)
	n := "?"
	if fn != nil {
		n = fn.Name()
		if i := strings.LastIndex(n, "/"); i >= 0 {
			n = n[i+1:]
		}
	}
	return fmt.Sprintf("%s:%d", n, line)
}

// endNoExit terminates the execution; the caller returns (its goroutine ends) afterwards.
func (s *Sched) endNoExit(st Status) {
	if s.dead {
		return
	}
	s.dead = true
	s.status = st
	if st == StatusDeadlock || st == StatusStepLimit {
		for _, t := range s.threads {
			if !t.done && t.op != nil {
				s.blocked = append(s.blocked, t.name+": "+t.op.desc)
			}
		}
	}
	for _, t := range s.threads {
		if !t.done && t != s.running {
			select {
			case t.wake <- struct{}{}:
			default:
			}
		}
	}
	s.finOnce.Do(func() { close(s.finished) })
}

func (s *Sched) end(st Status) {
	s.endNoExit(st)
	runtime.Goexit()
}

// park publishes op for the calling thread and lets the scheduler pick who runs next.
func (s *Sched) park(op *pendingOp) {
	if s.dead {
		runtime.Goexit()
	}
	t := s.running
	s.notePoint(t)
	t.op = op
	s.dispatch(t)
	t.op = nil
}

func (t *T) enabled(s *Sched) bool {
	if t.done {
		return false
	}
	for _, h := range s.holds {
		if matchAll(t.name, h.name) && !h.release() {
			return false
		}
	}
	if p := t.paused; p != nil {
		hold := s.inj != nil && s.inj.th == p && s.inj.untilDone
		if p.done || (!hold && p.op != nil && !p.enabled(s)) {
			t.paused = nil
		} else {
			return false
		}
	}
	op := t.op
	if op == nil {
		return true // freshly created, not yet started
	}
	if op.timed && s.now < op.deadline {
		return false
	}
	return op.ready == nil || op.ready()
}

// nextDeadline returns the earliest future deadline among timers and timed waiters.
func (s *Sched) nextDeadline() (int64, bool) {
	var best int64
	ok := false
	for _, tm := range s.timers {
		if !tm.stopped && !tm.fired {
			if !ok || tm.deadline < best {
				best, ok = tm.deadline, true
			}
		}
	}
	for _, t := range s.threads {
		if !t.done && t.op != nil && t.op.timed && t.op.deadline > s.now {
			// only if it would become ready by time alone
			if t.op.ready == nil || t.op.ready() {
				if !ok || t.op.deadline < best {
					best, ok = t.op.deadline, true
				}
			}
		}
	}
	return best, ok
}

// fireDue turns every due timer into a runnable thread. Returns the first thread created.
func (s *Sched) fireDue() *T {
	var first *T
	// stable order: by deadline then id
	due := []*timer{}
	for _, tm := range s.timers {
		if !tm.stopped && !tm.fired && tm.deadline <= s.now {
			due = append(due, tm)
		}
	}
	if len(due) == 0 {
		return nil
	}
	sort.SliceStable(due, func(i, j int) bool {
		if due[i].deadline != due[j].deadline {
			return due[i].deadline < due[j].deadline
		}
		return due[i].id < due[j].id
	})
	for _, tm := range due {
		tm.fired = true
		t := s.newThread("timer:"+tm.name, tm.f)
		if first == nil {
			first = t
		}
	}
	// compact
	keep := s.timers[:0]
	for _, tm := range s.timers {
		if !tm.fired && !tm.stopped {
			keep = append(keep, tm)
		}
	}
	s.timers = keep
	return first
}

// dispatch is executed by the thread that just parked (or finished); it selects the next thread.
func (s *Sched) dispatch(self *T) {
	for {
		if s.dead {
			if self.done {
				return
			}
			runtime.Goexit()
		}
		s.steps++
		if s.steps > s.maxSteps {
			if self.done {
				s.endNoExit(StatusStepLimit)
				return
			}
			s.end(StatusStepLimit)
		}
		s.fireDue()
		var enabled []*T
		selfEnabled := false
		if !self.done && self.enabled(s) {
			enabled = append(enabled, self)
			selfEnabled = true
		}
		for _, t := range s.threads {
			if t != self && t.enabled(s) {
				enabled = append(enabled, t)
			}
		}
		dl, haveDL := s.nextDeadline()
		if len(enabled) == 0 {
			if !haveDL {
				if self.done {
					s.endNoExit(StatusDeadlock)
					return
				}
				s.end(StatusDeadlock)
			}
			s.now = dl
			continue
		}
		n := len(enabled)
		timerAlt := haveDL && s.window && !s.noTimerAlt
		if timerAlt {
			n++
		}
		free := s.freeSwitch && !selfEnabled
		idx := s.pick(n, free, 's', func() string {
			var b strings.Builder
			for _, t := range enabled {
				d := "start"
				if t.op != nil {
					d = t.op.desc
				}
				fmt.Fprintf(&b, "[%s %s]", t.name, d)
			}
			if timerAlt {
				b.WriteString("[advance-clock]")
			}
			return b.String()
		})
		var chosen *T
		if idx == len(enabled) {
			// fire the next timer early: advance the clock and run whoever that deadline wakes
			s.now = dl
			if t := s.fireDue(); t != nil {
				chosen = t
			} else {
				for _, t := range s.threads {
					if !t.done && t.op != nil && t.op.timed && t.op.deadline <= s.now && t.enabled(s) {
						// choose the lowest id whose deadline just passed and was not enabled before
						was := false
						for _, e := range enabled {
							if e == t {
								was = true
							}
						}
						if !was {
							chosen = t
							break
						}
					}
				}
			}
			if chosen == nil {
				continue
			}
		} else {
			chosen = enabled[idx]
		}
		if chosen == self {
			return
		}
		s.running = chosen
		chosen.wake <- struct{}{}
		if self.done {
			return
		}
		<-self.wake
		if s.dead {
			runtime.Goexit()
		}
		return
	}
}

// pick records a branching point and returns the alternative to take.
func (s *Sched) pick(n int, free bool, kind byte, label func() string) int {
	if n <= 1 || (!s.window && kind != 'c') {
		return 0
	}
	i := len(s.trace)
	c := 0
	if i < len(s.prefix) {
		c = s.prefix[i]
		if c >= n || c < 0 {
			s.diverge = fmt.Sprintf("point %d: prefix choice %d out of range (n=%d)", i, c, n)
			s.end(StatusDiverged)
		}
	}
	p := Point{N: n, Chosen: c, Free: free, Kind: kind}
	if s.labels && label != nil {
		p.Label = label()
	}
	s.trace = append(s.trace, p)
	return c
}

// Window switches branching on or off (outside the window the default alternative is always taken).
func Window(on bool) {
	if cur != nil {
		cur.window = on
	}
}

// Atomically runs f without any scheduling point inside it (for harness observation hooks that call
// instrumented accessors).
func Atomically(f func()) {
	s := cur
	if s == nil {
		f()
		return
	}
	w := s.window
	s.window = false
	f()
	s.window = w
}

// Choose is an environment / alphabet choice with n alternatives (0 is the default).
// free alternatives do not count against the deviation bound.
func Choose(n int, free bool, label string) int {
	s := cur
	if s == nil || s.dead {
		return 0
	}
	return s.pick(n, free, 'c', func() string { return label })
}

// Yield is a scheduling point in front of an access to shared state.
func Yield(id int) {
	s := cur
	if s == nil {
		return
	}
	if s.dead {
		return
	}
	if !s.window {
		return
	}
	// fast path: nobody else could run
	self := s.running
	if s.inj != nil && !s.inj.started && strings.Contains(self.name, s.inj.target) && self.points+1 >= s.inj.at {
		s.park(&pendingOp{desc: yieldDesc(id)})
		return
	}
	other := false
	for _, t := range s.threads {
		if t != self && t.enabled(s) {
			other = true
			break
		}
	}
	if !other {
		if _, ok := s.nextDeadline(); !ok || s.noTimerAlt {
			self.points++
			return
		}
	}
	s.park(&pendingOp{desc: yieldDesc(id)})
}

// Y yields and returns true (for use in loop conditions).
func Y(id int) bool { Yield(id); return true }

var yieldNames = map[int]string{}

// RegisterYield gives a yield id a readable name.
func RegisterYield(id int, name string) { yieldNames[id] = name }

func yieldDesc(id int) string {
	if n, ok := yieldNames[id]; ok {
		return "yield " + n
	}
	return fmt.Sprintf("yield #%d", id)
}

// Block parks the calling thread until ready() holds.
func Block(desc string, ready func() bool) {
	s := cur
	if s == nil {
		panic("vrt.Block outside an execution")
	}
	if s.dead {
		runtime.Goexit()
	}
	s.park(&pendingOp{ready: ready, desc: desc})
}

// Quiesce parks the caller until no other thread can run without the clock advancing (every other
// thread is blocked, finished or sleeping).
func Quiesce() {
	s := cur
	if s == nil {
		return
	}
	self := s.running
	Block("quiesce", func() bool {
		for _, t := range s.threads {
			if t != self && t.enabled(s) {
				return false
			}
		}
		return true
	})
}

// BlockedThreads describes every thread that is currently parked on an operation that is not ready.
func BlockedThreads() []string {
	s := cur
	if s == nil {
		return nil
	}
	var out []string
	for _, t := range s.threads {
		if !t.done && t != s.running && t.op != nil && !t.enabled(s) && !t.op.timed {
			out = append(out, t.name+": "+t.op.desc)
		}
	}
	return out
}

// ThreadPoints returns, per live thread (name -> scheduling points passed so far), a figure that grows only while
// the thread makes progress: two samples some virtual time apart tell an active loop from a thread that is
// blocked for good.
func ThreadPoints() map[string]int {
	s := cur
	out := map[string]int{}
	if s == nil {
		return out
	}
	for _, t := range s.threads {
		if !t.done && t != s.running {
			out[fmt.Sprintf("%s~%d", t.name, t.id)] = t.points
		}
	}
	return out
}

// LiveThreads lists every controlled thread that has not finished (running, runnable, sleeping or blocked).
func LiveThreads() []string {
	s := cur
	if s == nil {
		return nil
	}
	var out []string
	for _, t := range s.threads {
		if !t.done && t != s.running {
			d := "runnable"
			if t.op != nil {
				d = t.op.desc
			}
			out = append(out, t.name+": "+d)
		}
	}
	return out
}

// Closed reports whether a (virtual) channel has been closed.
func Closed(ch any) bool {
	s := cur
	if s == nil {
		return false
	}
	c := s.vc(ch)
	return c != nil && c.closed
}

// Logf appends to the execution's observation log.
func Logf(format string, a ...any) {
	if s := cur; s != nil {
		s.Log = append(s.Log, fmt.Sprintf(format, a...))
	}
}

// Failf records an oracle failure for the current execution.
func Failf(format string, a ...any) {
	if s := cur; s != nil {
		s.Failures = append(s.Failures, fmt.Sprintf(format, a...))
	}
}

// SetOutcome stores a canonical description of what the execution observed.
func SetOutcome(o string) {
	if s := cur; s != nil {
		s.Outcome = o
	}
}

// SetVal / GetVal: per-execution key-value store for harness/sim globals.
func SetVal(k string, v any) {
	if s := cur; s != nil {
		s.vals[k] = v
	}
}

func GetVal(k string) any {
	if s := cur; s != nil {
		return s.vals[k]
	}
	return nil
}

// ThreadName returns the name of the running thread.
func ThreadName() string {
	if s := cur; s != nil && s.running != nil {
		return s.running.name
	}
	return ""
}

// ThreadID returns the id of the running thread.
func ThreadID() int {
	if s := cur; s != nil && s.running != nil {
		return s.running.id
	}
	return -1
}

// Steps returns the number of scheduling steps so far (a logical clock for harness oracles).
func Steps() int {
	if s := cur; s != nil {
		return s.steps
	}
	return 0
}

// Dead reports whether the execution has ended (used by shims to become no-ops).
func Dead() bool { return cur == nil || cur.dead }
