// Package vrpc stands in for net/rpc in instrumented code: connections and calls are in-memory, every call
// is a scheduling point, and a connection is bound to the server INCARNATION it was dialled to (a process
// that died and was restarted under the same address is a different incarnation: calls over the old
// connection fail, as they do over a broken TCP connection).
package vrpc

import (
	"errors"
	"fmt"
	"io"
	"reflect"
	"strings"

	"verif/vrt"
)

var ErrShutdown = errors.New("connection is shut down")

type incarnation struct {
	handler any
	alive   bool
	reset   int  // connections dialled before the latest reset of this server's connections are broken
	refuse  bool // new connections are refused (the listener is unreachable); established ones keep working
	hang    bool // the process has stopped answering without closing its connections: calls never return
	failN   int  // the next failN calls are answered with an error (the connection stays up)
}

var registry = map[string]*incarnation{}

// Reset forgets every server (start of an execution).
func Reset() { registry = map[string]*incarnation{}; epoch = 0 }

// Serve makes handler (a pointer whose exported methods have the net/rpc shape) reachable at addr.
func Serve(addr string, handler any) {
	if old := registry[addr]; old != nil {
		old.alive = false
	}
	registry[addr] = &incarnation{handler: handler, alive: true}
}

// Kill ends the incarnation serving addr: its connections break, dialling is refused.
func Kill(addr string) {
	if in := registry[addr]; in != nil {
		in.alive = false
	}
	delete(registry, addr)
}

type Client struct {
	in     *incarnation
	closed bool
	epoch  int // connections of an older epoch were reset by the network
	reset  int
}

// FailCalls makes the next n calls to the server at addr fail with an error (a handler that is busy or a
// request that is lost); connections stay up and later calls succeed.
func FailCalls(addr string, n int) {
	if in := registry[addr]; in != nil {
		in.failN = n
	}
}

// Hang makes the server at addr stop answering (its connections stay up): a call to it does not return for a
// virtual hour - net/rpc calls have no deadline.
func Hang(addr string, on bool) {
	if in := registry[addr]; in != nil {
		in.hang = on
	}
}

// ResetTo breaks every established connection TO addr (the server stays up, new dials succeed).
func ResetTo(addr string) {
	if in := registry[addr]; in != nil {
		in.reset++
	}
}

// Refuse makes addr refuse new connections (on) or accept them again; established connections are unaffected.
func Refuse(addr string, on bool) {
	if in := registry[addr]; in != nil {
		in.refuse = on
	}
}

var epoch int

// Blip resets every established connection (a network interruption): the servers stay up, calls over the old
// connections fail, new dials succeed.
func Blip() { epoch++ }

func Dial(network, address string) (*Client, error) {
	vrt.Yield(-6)
	in := registry[address]
	if in == nil || !in.alive || in.refuse {
		return nil, fmt.Errorf("dial %s %s: connection refused", network, address)
	}
	return &Client{in: in, epoch: epoch, reset: in.reset}, nil
}

func (c *Client) Close() error {
	if c.closed {
		return ErrShutdown
	}
	c.closed = true
	return nil
}

// Call invokes "Type.Method" on the handler of the incarnation this connection was dialled to.
func (c *Client) Call(serviceMethod string, args any, reply any) error {
	vrt.Yield(-6)
	if c.closed || c.in == nil || !c.in.alive || c.epoch != epoch || c.reset != c.in.reset {
		return ErrShutdown
	}
	if c.in.hang {
		vrt.Sleep(3600e9)
		return ErrShutdown
	}
	if c.in.failN > 0 {
		c.in.failN--
		return errors.New("rpc: call failed (transient)")
	}
	name := serviceMethod
	if i := strings.LastIndex(name, "."); i >= 0 {
		name = name[i+1:]
	}
	m := reflect.ValueOf(c.in.handler).MethodByName(name)
	if !m.IsValid() {
		return fmt.Errorf("rpc: can't find method %s", serviceMethod)
	}
	out := m.Call([]reflect.Value{reflect.ValueOf(args), reflect.ValueOf(reply)})
	if e, ok := out[0].Interface().(error); ok && e != nil {
		return e
	}
	return nil
}

// Server is only here so that rpc_server.go compiles; the harness serves handlers through Serve.
type Server struct{ handlers []any }

func NewServer() *Server                            { return &Server{} }
func (s *Server) Register(rcvr any) error           { s.handlers = append(s.handlers, rcvr); return nil }
func (s *Server) ServeConn(conn io.ReadWriteCloser) { _ = conn.Close() }
