// Package atomic (import path verif/vrt/vatomic) replaces "sync/atomic" in instrumented files.
package atomic

import (
	"sync/atomic"

	"verif/vrt"
)

type (
	Int32  = vrt.Int32
	Uint32 = vrt.Uint32
	Int64  = vrt.Int64
	Uint64 = vrt.Uint64
	Bool   = vrt.Bool
	Value  = vrt.Value
)

type Pointer[T any] struct{ vrt.Pointer[T] }

// function-style operations: each is a scheduling point followed by the native atomic
func AddInt32(p *int32, d int32) int32     { vrt.Yield(-1); return atomic.AddInt32(p, d) }
func AddInt64(p *int64, d int64) int64     { vrt.Yield(-1); return atomic.AddInt64(p, d) }
func AddUint32(p *uint32, d uint32) uint32 { vrt.Yield(-1); return atomic.AddUint32(p, d) }
func AddUint64(p *uint64, d uint64) uint64 { vrt.Yield(-1); return atomic.AddUint64(p, d) }
func LoadInt32(p *int32) int32             { vrt.Yield(-1); return atomic.LoadInt32(p) }
func LoadInt64(p *int64) int64             { vrt.Yield(-1); return atomic.LoadInt64(p) }
func LoadUint32(p *uint32) uint32          { vrt.Yield(-1); return atomic.LoadUint32(p) }
func LoadUint64(p *uint64) uint64          { vrt.Yield(-1); return atomic.LoadUint64(p) }
func StoreInt32(p *int32, v int32)         { vrt.Yield(-1); atomic.StoreInt32(p, v) }
func StoreInt64(p *int64, v int64)         { vrt.Yield(-1); atomic.StoreInt64(p, v) }
func StoreUint32(p *uint32, v uint32)      { vrt.Yield(-1); atomic.StoreUint32(p, v) }
func StoreUint64(p *uint64, v uint64)      { vrt.Yield(-1); atomic.StoreUint64(p, v) }
func SwapInt32(p *int32, v int32) int32    { vrt.Yield(-1); return atomic.SwapInt32(p, v) }
func SwapInt64(p *int64, v int64) int64    { vrt.Yield(-1); return atomic.SwapInt64(p, v) }
func SwapUint32(p *uint32, v uint32) uint32 {
	vrt.Yield(-1)
	return atomic.SwapUint32(p, v)
}
func CompareAndSwapInt32(p *int32, o, n int32) bool { vrt.Yield(-1); return atomic.CompareAndSwapInt32(p, o, n) }
func CompareAndSwapInt64(p *int64, o, n int64) bool { vrt.Yield(-1); return atomic.CompareAndSwapInt64(p, o, n) }
func CompareAndSwapUint32(p *uint32, o, n uint32) bool {
	vrt.Yield(-1)
	return atomic.CompareAndSwapUint32(p, o, n)
}
func CompareAndSwapUint64(p *uint64, o, n uint64) bool {
	vrt.Yield(-1)
	return atomic.CompareAndSwapUint64(p, o, n)
}
