// Package atomic (import path verif/vrt/vatomic) replaces "sync/atomic" in instrumented files.
package atomic

import "verif/vrt"

type (
	Int32  = vrt.Int32
	Uint32 = vrt.Uint32
	Int64  = vrt.Int64
	Bool   = vrt.Bool
)
