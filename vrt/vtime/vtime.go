// Package time (import path verif/vrt/vtime) replaces "time" in instrumented files.
package time

import (
	"time"

	"verif/vrt"
)

type (
	Time     = time.Time
	Duration = time.Duration
	Month    = time.Month
	Location = time.Location
	Weekday  = time.Weekday
	Timer    = vrt.Timer
	Ticker   = vrt.Ticker
)

const (
	Nanosecond  = time.Nanosecond
	Microsecond = time.Microsecond
	Millisecond = time.Millisecond
	Second      = time.Second
	Minute      = time.Minute
	Hour        = time.Hour
	RFC3339     = time.RFC3339
	RFC3339Nano = time.RFC3339Nano
	RFC1123     = time.RFC1123
	DateTime    = time.DateTime
)

var (
	UTC   = time.UTC
	Local = time.Local
)

func Tick(d Duration) <-chan Time { return vrt.NewTicker(d).C }
func UnixMicro(us int64) Time     { return time.UnixMicro(us) }

func Now() Time                                  { return vrt.Now() }
func Since(t Time) Duration                      { return vrt.Since(t) }
func Until(t Time) Duration                      { return vrt.Until(t) }
func Sleep(d Duration)                           { vrt.Sleep(d) }
func After(d Duration) <-chan Time               { return vrt.After(d) }
func AfterFunc(d Duration, f func()) *Timer      { return vrt.AfterFunc(d, f) }
func NewTimer(d Duration) *Timer                 { return vrt.NewTimer(d) }
func NewTicker(d Duration) *Ticker               { return vrt.NewTicker(d) }
func Unix(sec int64, nsec int64) Time            { return time.Unix(sec, nsec) }
func UnixMilli(ms int64) Time                    { return time.UnixMilli(ms) }
func ParseDuration(s string) (Duration, error)   { return time.ParseDuration(s) }
func Parse(layout, value string) (Time, error)   { return time.Parse(layout, value) }
func Date(y int, m Month, d, h, mi, s, ns int, l *Location) Time {
	return time.Date(y, m, d, h, mi, s, ns, l)
}
