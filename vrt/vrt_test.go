package vrt

import (
	"testing"
	"time"
)

func TestLostUpdate(t *testing.T) {
	sc := &Scenario{Name: "lost", Bound: 1, Main: func() {
		Window(true)
		x := 0
		var wg WaitGroup
		wg.Add(2)
		for i := 0; i < 2; i++ {
			Go(func() {
				Yield(1)
				v := x
				Yield(2)
				x = v + 1
				wg.Done()
			})
		}
		wg.Wait()
		if x != 2 {
			Failf("lost update x=%d", x)
		}
		SetOutcome(string(rune('0' + x)))
	}}
	e := &Explorer{Sc: sc}
	st := e.Explore()
	t.Logf("exec=%d viol=%d outcomes=%d", st.Executions, st.ViolCount, len(st.Outcomes))
	if st.ViolCount == 0 {
		t.Fatal("expected lost update")
	}
	// replay determinism
	v := st.Violations[0]
	for i := 0; i < 5; i++ {
		r := e.RunOnce(v.Choices, true)
		if len(r.Failures) == 0 {
			t.Fatal("replay did not reproduce")
		}
	}
	sc.Bound = 0
	e = &Explorer{Sc: sc}
	st = e.Explore()
	if st.ViolCount != 0 || st.Executions != 1 {
		t.Fatalf("bound 0: %+v", st)
	}
}

func TestDeadlockAndTime(t *testing.T) {
	sc := &Scenario{Name: "dl", Bound: 0, Main: func() {
		ch := make(chan int)
		Go(func() { Sleep(time.Second); Send(ch, 1) })
		v := Recv(ch)
		t0 := Now()
		tm := AfterFunc(5*time.Second, func() { Logf("fired") })
		Sleep(2 * time.Second)
		if !tm.Stop() {
			Failf("stop")
		}
		ctx, cancel := WithTimeout(Background(), time.Second)
		defer cancel()
		Recv(ctx.Done())
		if ctx.Err() == nil {
			Failf("ctx")
		}
		if Since(t0) < 3*time.Second {
			Failf("time %v", Since(t0))
		}
		Logf("v=%d", v)
		var m Mutex
		m.Lock()
		m.Lock()
	}}
	r := Run(Options{}, sc.Main)
	if r.Status != StatusDeadlock || len(r.Failures) > 0 {
		t.Fatalf("%v %v %v", r.Status, r.Failures, r.Log)
	}
	t.Log(r.Blocked, r.Log)
}

func TestCrashAndSelect(t *testing.T) {
	r := Run(Options{}, func() {
		a := make(chan int, 1)
		b := make(chan struct{})
		Go(func() { Send(a, 7) })
		switch Select(false, RecvCase(a), RecvCase(b)) {
		case 0:
			v, _ := RecvNow(a)
			Logf("a=%d", v)
		case 1:
			Logf("b")
		}
		Go(func() { panic("boom") })
		Sleep(time.Second)
		Logf("not reached")
	})
	if r.Status != StatusCrash || r.Crash.Value != "boom" || len(r.Log) != 1 {
		t.Fatalf("%v %+v %v", r.Status, r.Crash, r.Log)
	}
}

func BenchmarkExec(b *testing.B) {
	for i := 0; i < b.N; i++ {
		Run(Options{}, func() {
			Window(true)
			var wg WaitGroup
			wg.Add(3)
			for j := 0; j < 3; j++ {
				Go(func() {
					for k := 0; k < 10; k++ {
						Yield(1)
					}
					wg.Done()
				})
			}
			wg.Wait()
		})
	}
}
