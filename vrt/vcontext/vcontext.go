// Package context (import path verif/vrt/vcontext) replaces "context" in instrumented files.
package context

import (
	"context"
	"time"

	"verif/vrt"
)

type (
	Context    = context.Context
	CancelFunc = context.CancelFunc
)

var (
	Canceled         = context.Canceled
	DeadlineExceeded = context.DeadlineExceeded
)

func Background() Context { return vrt.Background() }
func TODO() Context       { return vrt.Background() }
func WithCancel(p Context) (Context, CancelFunc) { return vrt.WithCancel(p) }
func WithTimeout(p Context, d time.Duration) (Context, CancelFunc) {
	return vrt.WithTimeout(p, d)
}
func WithDeadline(p Context, d time.Time) (Context, CancelFunc) { return vrt.WithDeadline(p, d) }
func WithValue(p Context, k, v any) Context                    { return context.WithValue(p, k, v) }
