// Package context (import path verif/vrt/vcontext) replaces "context" in instrumented files.
package context

import (
	"context"
	"time"

	"verif/vrt"
)

type (
	Context         = context.Context
	CancelFunc      = context.CancelFunc
	CancelCauseFunc = context.CancelCauseFunc
)

func Cause(c Context) error { return c.Err() }

func WithCancelCause(p Context) (Context, CancelCauseFunc) {
	c, cancel := vrt.WithCancel(p)
	return c, func(error) { cancel() }
}

func WithoutCancel(p Context) Context { return vrt.Background() }

func AfterFunc(ctx Context, f func()) (stop func() bool) {
	stopped := false
	vrt.Go(func() {
		vrt.Recv(ctx.Done())
		if !stopped {
			f()
		}
	})
	return func() bool { was := !stopped; stopped = true; return was }
}

var (
	Canceled         = context.Canceled
	DeadlineExceeded = context.DeadlineExceeded
)

func Background() Context { return vrt.Background() }
func TODO() Context       { return vrt.Background() }
func WithCancel(p Context) (Context, CancelFunc) { return vrt.WithCancel(p) }
func WithTimeout(p Context, d time.Duration) (Context, CancelFunc) {
	return vrt.WithTimeout(p, d)
}
func WithDeadline(p Context, d time.Time) (Context, CancelFunc) { return vrt.WithDeadline(p, d) }
func WithValue(p Context, k, v any) Context                    { return context.WithValue(p, k, v) }
