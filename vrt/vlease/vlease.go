// Package leaderelection (import path verif/vrt/vlease) replaces k8s.io/client-go/tools/leaderelection in
// kubernetes/leader_elector.go: the lease election itself lives outside the repository, its CALLBACKS (the
// library's glue: labels, "is the reported holder me?", OnBecomeLeader / OnBecomeFollower) are the code under
// test. RunOrDie registers the participant with a lease model that the harness drives:
//
//   - the lease records the identity string of its holder;
//   - a participant is told about a holder it has not been told about yet through OnNewLeader (the holder
//     itself included), in the order the harness chooses;
//   - the participant whose identity string equals the holder gets OnStartedLeading on its own thread;
//   - a holder that loses the lease gets OnStoppedLeading and leaves the election (RunOrDie returns).
package leaderelection

import (
	"context"
	"time"

	"k8s.io/client-go/tools/leaderelection/resourcelock"

	"verif/vrt"
)

type LeaderCallbacks struct {
	OnStartedLeading func(context.Context)
	OnStoppedLeading func()
	OnNewLeader      func(identity string)
}

type LeaderElectionConfig struct {
	Lock            resourcelock.Interface
	LeaseDuration   time.Duration
	RenewDeadline   time.Duration
	RetryPeriod     time.Duration
	Callbacks       LeaderCallbacks
	WatchDog        any
	ReleaseOnCancel bool
	Name            string
	Coordinated     bool
}

// Participant is one RunOrDie call.
type Participant struct {
	Identity string
	Cfg      LeaderElectionConfig
	Ctx      context.Context
	told     string
	Leading  bool
	Gone     bool
}

// Lease is the single lease object of the simulated API server.
var (
	Holder       string
	Participants []*Participant
)

func Reset() { Holder, Participants = "", nil }

func RunOrDie(ctx context.Context, cfg LeaderElectionConfig) {
	if cfg.LeaseDuration <= cfg.RenewDeadline || cfg.RenewDeadline <= time.Duration(1.2*float64(cfg.RetryPeriod)) || cfg.Lock == nil {
		panic("leaderelection: invalid configuration (leaseDuration > renewDeadline > 1.2 * retryPeriod required)")
	}
	p := &Participant{Identity: cfg.Lock.Identity(), Cfg: cfg, Ctx: ctx}
	Participants = append(Participants, p)
	// (client-go blocks here until the lease is lost or ctx is cancelled; the model's events are driven by the
	// harness, the thread just ends)
}

// Find returns the live participant with this identity string.
func Find(identity string) *Participant {
	for i := len(Participants) - 1; i >= 0; i-- {
		if p := Participants[i]; p.Identity == identity && !p.Gone {
			return p
		}
	}
	return nil
}

// Observe tells p about the current holder if it has not been told yet (synchronously, on the caller's thread,
// as client-go's observer loop does).
func (p *Participant) Observe() {
	if p.Gone || Holder == "" || p.told == Holder {
		return
	}
	p.told = Holder
	if p.Cfg.Callbacks.OnNewLeader != nil {
		p.Cfg.Callbacks.OnNewLeader(Holder)
	}
}

// Acquire makes p the holder: OnStartedLeading runs on its own thread (as in client-go); p observes itself.
func (p *Participant) Acquire() {
	Holder = p.Identity
	p.Leading = true
	vrt.GoNamed("OnStartedLeading", func() { p.Cfg.Callbacks.OnStartedLeading(p.Ctx) })
}

// Lose takes the lease away from p (renewal failed): OnStoppedLeading, and p leaves the election.
func (p *Participant) Lose() {
	if !p.Leading {
		return
	}
	p.Leading = false
	p.Gone = true
	if Holder == p.Identity {
		Holder = ""
	}
	p.Cfg.Callbacks.OnStoppedLeading()
}

// Kill removes p without any callback (the process died).
func (p *Participant) Kill() { p.Gone = true; p.Leading = false }
