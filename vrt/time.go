package vrt

import (
	"context"
	"errors"
	"fmt"
	"runtime"
	"time"
)

// NowNanos returns the virtual clock without advancing it.
func NowNanos() int64 {
	if s := cur; s != nil {
		return s.now
	}
	return time.Now().UnixNano()
}

// Now is time.Now on the virtual clock; strictly increasing (each call advances by 1 ns).
func Now() time.Time {
	s := cur
	if s == nil {
		return time.Now()
	}
	s.now++
	return time.Unix(0, s.now)
}

func Since(t time.Time) time.Duration { return Now().Sub(t) }
func Until(t time.Time) time.Duration { return t.Sub(Now()) }

// Sleep blocks the calling thread on the virtual clock. It is never woken early and may be woken late.
func Sleep(d time.Duration) {
	s := cur
	if s == nil {
		time.Sleep(d)
		return
	}
	if s.dead {
		runtime.Goexit()
	}
	if d < 0 {
		d = 0
	}
	s.park(&pendingOp{timed: true, deadline: s.now + int64(d), desc: fmt.Sprintf("sleep %v", d)})
}

func (s *Sched) addTimer(d time.Duration, name string, f func()) *timer {
	if d < 0 {
		d = 0
	}
	s.timerSeq++
	tm := &timer{id: s.timerSeq, deadline: s.now + int64(d), f: f, name: name}
	s.timers = append(s.timers, tm)
	return tm
}

// Timer replaces time.Timer.
type Timer struct {
	C    <-chan time.Time
	c    chan time.Time
	tm   *timer
	f    func()
	nat  *time.Timer
	name string
}

func (t *Timer) arm(d time.Duration) {
	s := cur
	if t.f != nil {
		t.tm = s.addTimer(d, t.name, t.f)
		return
	}
	t.tm = s.addTimer(d, t.name, func() { TrySend(t.c, time.Unix(0, NowNanos())) })
}

// Stop prevents the timer from firing; true if the call stopped it.
func (t *Timer) Stop() bool {
	s := cur
	if s == nil {
		return t.nat.Stop()
	}
	if s.dead {
		return false
	}
	if t.tm == nil || t.tm.fired || t.tm.stopped {
		return false
	}
	t.tm.stopped = true
	return true
}

// Reset re-arms the timer; returns whether it had been active.
func (t *Timer) Reset(d time.Duration) bool {
	s := cur
	if s == nil {
		return t.nat.Reset(d)
	}
	if s.dead {
		return false
	}
	active := t.Stop()
	t.arm(d)
	return active
}

func NewTimer(d time.Duration) *Timer {
	s := cur
	if s == nil {
		n := time.NewTimer(d)
		return &Timer{C: n.C, nat: n}
	}
	c := make(chan time.Time, 1)
	t := &Timer{C: c, c: c, name: "timer"}
	if !s.dead {
		t.arm(d)
	}
	return t
}

func AfterFunc(d time.Duration, f func()) *Timer {
	s := cur
	if s == nil {
		return &Timer{nat: time.AfterFunc(d, f)}
	}
	t := &Timer{f: f, name: "afterfunc@" + callerName(1)}
	if !s.dead {
		t.arm(d)
	}
	return t
}

func After(d time.Duration) <-chan time.Time {
	if cur == nil {
		return time.After(d)
	}
	return NewTimer(d).C
}

// Ticker replaces time.Ticker.
type Ticker struct {
	C       <-chan time.Time
	c       chan time.Time
	d       time.Duration
	tm      *timer
	stopped bool
	nat     *time.Ticker
}

func NewTicker(d time.Duration) *Ticker {
	s := cur
	if s == nil {
		n := time.NewTicker(d)
		return &Ticker{C: n.C, nat: n}
	}
	if d <= 0 {
		panic("non-positive interval for NewTicker")
	}
	c := make(chan time.Time, 1)
	t := &Ticker{C: c, c: c, d: d}
	if !s.dead {
		t.arm()
	}
	return t
}

func (t *Ticker) arm() {
	s := cur
	t.tm = s.addTimer(t.d, "ticker", func() {
		if t.stopped {
			return
		}
		TrySend(t.c, time.Unix(0, NowNanos()))
		if !Dead() && !t.stopped {
			t.arm()
		}
	})
}

func (t *Ticker) Stop() {
	s := cur
	if s == nil {
		t.nat.Stop()
		return
	}
	if s.dead {
		return
	}
	t.stopped = true
	if t.tm != nil {
		t.tm.stopped = true
	}
}

func (t *Ticker) Reset(d time.Duration) {
	s := cur
	if s == nil {
		t.nat.Reset(d)
		return
	}
	if s.dead {
		return
	}
	if t.tm != nil {
		t.tm.stopped = true
	}
	t.d = d
	t.stopped = false
	t.arm()
}

// ---- contexts -------------------------------------------------------------------------------

type vctx struct {
	parent   context.Context
	done     chan struct{}
	err      error
	deadline time.Time
	hasDL    bool
	tm       *timer
	children []*vctx
}

func (c *vctx) Deadline() (time.Time, bool) {
	if c.hasDL {
		return c.deadline, true
	}
	if c.parent != nil {
		return c.parent.Deadline()
	}
	return time.Time{}, false
}
func (c *vctx) Done() <-chan struct{} { return c.done }
func (c *vctx) Err() error {
	Yield(-2)
	return c.err
}
func (c *vctx) Value(k any) any {
	if c.parent != nil {
		return c.parent.Value(k)
	}
	return nil
}

func (c *vctx) cancel(err error) {
	if c.err != nil {
		return
	}
	c.err = err
	CloseAny(c.done)
	if c.tm != nil {
		c.tm.stopped = true
	}
	for _, ch := range c.children {
		ch.cancel(err)
	}
}

func newCtx(parent context.Context) *vctx {
	c := &vctx{parent: parent, done: make(chan struct{})}
	if p, ok := parent.(*vctx); ok {
		if p.err != nil {
			c.err = p.err
			CloseAny(c.done)
		} else {
			p.children = append(p.children, c)
		}
	}
	return c
}

// Background returns an uncancellable context.
func Background() context.Context {
	if cur == nil {
		return context.Background()
	}
	return bg
}

var bg = &bgCtx{}

type bgCtx struct{}

func (*bgCtx) Deadline() (time.Time, bool) { return time.Time{}, false }
func (*bgCtx) Done() <-chan struct{}       { return nil }
func (*bgCtx) Err() error                  { return nil }
func (*bgCtx) Value(any) any               { return nil }

func WithCancel(parent context.Context) (context.Context, context.CancelFunc) {
	if cur == nil {
		return context.WithCancel(parent)
	}
	c := newCtx(parent)
	return c, func() {
		if Dead() {
			return
		}
		c.cancel(context.Canceled)
	}
}

func WithDeadline(parent context.Context, d time.Time) (context.Context, context.CancelFunc) {
	s := cur
	if s == nil {
		return context.WithDeadline(parent, d)
	}
	c := newCtx(parent)
	if pd, ok := parent.Deadline(); ok && pd.Before(d) {
		d = pd
	}
	c.deadline, c.hasDL = d, true
	if !s.dead && c.err == nil {
		c.tm = s.addTimer(time.Duration(d.UnixNano()-s.now), "ctx-deadline", func() { c.cancel(context.DeadlineExceeded) })
	}
	return c, func() {
		if Dead() {
			return
		}
		c.cancel(context.Canceled)
	}
}

func WithTimeout(parent context.Context, d time.Duration) (context.Context, context.CancelFunc) {
	if cur == nil {
		return context.WithTimeout(parent, d)
	}
	return WithDeadline(parent, time.Unix(0, cur.now+int64(d)))
}

var ErrGroupCancelled = errors.New("errgroup: cancelled")

// ErrGroup replaces errgroup.Group.
type ErrGroup struct {
	wg     WaitGroup
	err    error
	cancel func()
	limit  int // 0 = unlimited (SetLimit)
	active int
}

// SetLimit limits the number of active goroutines of the group (x/sync semantics; negative = no limit).
func (g *ErrGroup) SetLimit(n int) {
	if n < 0 {
		n = 0
	}
	g.limit = n
}

// TryGo starts f only if the limit allows it and reports whether it did.
func (g *ErrGroup) TryGo(f func() error) bool {
	if g.limit > 0 && g.active >= g.limit {
		return false
	}
	g.Go(f)
	return true
}

func ErrGroupWithContext(ctx context.Context) (*ErrGroup, context.Context) {
	c, cancel := WithCancel(ctx)
	return &ErrGroup{cancel: cancel}, c
}

func (g *ErrGroup) Go(f func() error) {
	if g.limit > 0 && g.active >= g.limit {
		// x/sync blocks here until a slot is free
		Block("errgroup limit", func() bool { return g.active < g.limit })
	}
	g.active++
	g.wg.Add(1)
	GoNamed("errgroup@"+callerName(1), func() {
		defer g.wg.Done()
		defer func() { g.active-- }()
		if err := f(); err != nil {
			if g.err == nil {
				g.err = err
				if g.cancel != nil {
					g.cancel()
				}
			}
		}
	})
}

func (g *ErrGroup) Wait() error {
	g.wg.Wait()
	if g.cancel != nil {
		g.cancel()
	}
	return g.err
}
