// Package errgroup (import path verif/vrt/verrgroup) replaces golang.org/x/sync/errgroup.
package errgroup

import (
	"context"

	"verif/vrt"
)

type Group = vrt.ErrGroup

func WithContext(ctx context.Context) (*Group, context.Context) { return vrt.ErrGroupWithContext(ctx) }
