package vrt

import (
	"fmt"
	"sort"
)

// SortedKeys returns the keys of m in a deterministic order (Go randomises map iteration, which
// would make thread creation order differ between a run and its replay).
// ZeroValOf returns the zero value of a map's value type (vinst declares the value variable of a rewritten
// map range with it, in front of the loop).
func ZeroValOf[K comparable, V any](m map[K]V) V {
	var z V
	return z
}

func SortedKeys[K comparable, V any](m map[K]V) []K {
	keys := make([]K, 0, len(m))
	for k := range m {
		keys = append(keys, k)
	}
	sort.Slice(keys, func(i, j int) bool { return lessAny(keys[i], keys[j]) })
	return keys
}

func lessAny(a, b any) bool {
	switch x := a.(type) {
	case int:
		return x < b.(int)
	case int32:
		return x < b.(int32)
	case int64:
		return x < b.(int64)
	case uint:
		return x < b.(uint)
	case uint16:
		return x < b.(uint16)
	case uint32:
		return x < b.(uint32)
	case uint64:
		return x < b.(uint64)
	case string:
		return x < b.(string)
	}
	return fmt.Sprintf("%v", a) < fmt.Sprintf("%v", b)
}

// SendNowF: curried SendNow so that the element type is inferred from the channel alone.
func SendNowF[T any](ch chan<- T) func(T) {
	return func(v T) { SendNow(ch, v) }
}
