module verif

go 1.21

toolchain go1.23.5

require github.com/Trendyol/go-dcp v0.0.0

replace github.com/Trendyol/go-dcp => /repo

replace github.com/couchbase/gocbcore/v10 => ./sim/gocbcore
