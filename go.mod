module verif

go 1.21

toolchain go1.23.5

require (
	github.com/Trendyol/go-dcp v0.0.0
	github.com/asaskevich/EventBus v0.0.0-20200907212545-49d423059eef
	github.com/bytedance/sonic v1.12.8
	github.com/couchbase/gocbcore/v10 v10.5.2
	github.com/google/uuid v1.6.0
	github.com/prometheus/client_golang v1.20.5
	github.com/prometheus/client_model v0.6.1
	k8s.io/client-go v0.29.4
)

require (
	github.com/andybalholm/brotli v1.1.1 // indirect
	github.com/ansrivas/fiberprometheus/v2 v2.7.0 // indirect
	github.com/beorn7/perks v1.0.1 // indirect
	github.com/bytedance/sonic/loader v0.2.2 // indirect
	github.com/cespare/xxhash/v2 v2.3.0 // indirect
	github.com/cloudwego/base64x v0.1.5 // indirect
	github.com/davecgh/go-spew v1.1.1 // indirect
	github.com/emicklei/go-restful/v3 v3.11.0 // indirect
	github.com/go-logr/logr v1.4.1 // indirect
	github.com/go-openapi/jsonpointer v0.19.6 // indirect
	github.com/go-openapi/jsonreference v0.20.2 // indirect
	github.com/go-openapi/swag v0.22.3 // indirect
	github.com/gofiber/fiber/v2 v2.52.5 // indirect
	github.com/gogo/protobuf v1.3.2 // indirect
	github.com/golang/protobuf v1.5.4 // indirect
	github.com/google/gnostic-models v0.6.8 // indirect
	github.com/google/gofuzz v1.2.0 // indirect
	github.com/josharian/intern v1.0.0 // indirect
	github.com/json-iterator/go v1.1.12 // indirect
	github.com/klauspost/compress v1.17.11 // indirect
	github.com/klauspost/cpuid/v2 v2.0.9 // indirect
	github.com/mailru/easyjson v0.7.7 // indirect
	github.com/mattn/go-colorable v0.1.13 // indirect
	github.com/mattn/go-isatty v0.0.20 // indirect
	github.com/mattn/go-runewidth v0.0.15 // indirect
	github.com/mhmtszr/concurrent-swiss-map v1.0.8 // indirect
	github.com/modern-go/concurrent v0.0.0-20180306012644-bacd9c7ef1dd // indirect
	github.com/modern-go/reflect2 v1.0.2 // indirect
	github.com/munnerz/goautoneg v0.0.0-20191010083416-a7dc8b61c822 // indirect
	github.com/prometheus/common v0.58.0 // indirect
	github.com/prometheus/procfs v0.15.1 // indirect
	github.com/rivo/uniseg v0.4.7 // indirect
	github.com/sirupsen/logrus v1.9.3 // indirect
	github.com/twitchyliquid64/golang-asm v0.15.1 // indirect
	github.com/valyala/bytebufferpool v1.0.0 // indirect
	github.com/valyala/fasthttp v1.57.0 // indirect
	github.com/valyala/tcplisten v1.0.0 // indirect
	golang.org/x/arch v0.0.0-20210923205945-b76863e36670 // indirect
	golang.org/x/net v0.33.0 // indirect
	golang.org/x/oauth2 v0.22.0 // indirect
	golang.org/x/sys v0.28.0 // indirect
	golang.org/x/term v0.27.0 // indirect
	golang.org/x/text v0.21.0 // indirect
	golang.org/x/time v0.3.0 // indirect
	google.golang.org/protobuf v1.36.4 // indirect
	gopkg.in/inf.v0 v0.9.1 // indirect
	gopkg.in/yaml.v2 v2.4.0 // indirect
	gopkg.in/yaml.v3 v3.0.1 // indirect
	k8s.io/api v0.29.4 // indirect
	k8s.io/apimachinery v0.29.4 // indirect
	k8s.io/klog/v2 v2.110.1 // indirect
	k8s.io/kube-openapi v0.0.0-20231010175941-2dd684a91f00 // indirect
	k8s.io/utils v0.0.0-20230726121419-3b25d923346b // indirect
	sigs.k8s.io/json v0.0.0-20221116044647-bc3834ca7abd // indirect
	sigs.k8s.io/structured-merge-diff/v4 v4.4.1 // indirect
	sigs.k8s.io/yaml v1.3.0 // indirect
)

replace github.com/Trendyol/go-dcp => /repo

replace github.com/couchbase/gocbcore/v10 => ./sim/gocbcore

replace github.com/asaskevich/EventBus => ./sim/eventbus
