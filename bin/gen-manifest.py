#!/usr/bin/env python3
"""Writes /verif/MANIFEST.json from the table below (kept in one place so it stays valid)."""
import json, subprocess
props = [json.loads(l) for l in open('/verif/properties.jsonl')]
claimed = {
 "C05": dict(
   text="Exhaustive exploration (deviation-bounded DFS, bound 2 quick / 3 thorough, all completed) of every interleaving of two settling threads, one or two savers and the KV reader thread over the REAL stream/checkpoint/cbMetadata/client code on the simulated cluster, with injected checkpoint-write failures and drops; oracle: per successful save, closing save stores every settled position, stored never ahead, idle save writes nothing. A bounded-exhaustive statement about these harnesses, not a proof for all histories.",
   note="Trusted: instrumentation (yield points at mutable shared fields, sync/chan/map ops), sequential consistency, simulated gocbcore (DESIGN.md section 3). One genuine defect is listed in known_findings.json (dump..unmark race), one was fixed (f42a52a).",
   tech="stateless model checking of the implementation: controlled scheduler + deviation-bounded DFS over interleavings and save faults",
   ref="DESIGN.md section 4 C05"),
}
try:
    exec(open('/verif/bin/manifest_table.py').read())
except FileNotFoundError:
    pass
checks = []
na = []
for p in props:
    i = p['id']
    if i in claimed:
        c = claimed[i]
        checks.append({
            "property_id": i,
            "quick_cmd": f"/verif/bin/check {i} quick",
            "thorough_cmd": f"/verif/bin/check {i} thorough",
            "evidence_file": f"/verif/evidence/{i}.json",
            "replay_cmd_template": "/verif/bin/check replay {path}",
            "engine": "vrt",
            "level_claimed": {"category": "model_checking", "text": c['text'], "design_ref": c['ref']},
            "level_note": c['note'],
            "technique": c['tech'],
        })
    else:
        na.append({"property_id": i, "reason": "check not built yet in this session (no claim made); see DESIGN.md section 4 for the planned decision procedure"})
m = {
 "version": 1,
 "setup_cmd": "/verif/bin/setup",
 "hooks": {
   "guard": "none-in-repo (instrumentation is applied by /verif/bin/vinst through `go build -overlay`; /repo contains no hook code)",
   "enable": "/verif/bin/check rebuilds: vinst rewrites the current /repo sources into /verif/.cache/build-<hash>/inst and the harness is built with -overlay and replace gocbcore => /verif/sim/gocbcore",
   "baseline_off_cmd": "cd /repo && GOFLAGS=-mod=mod GOPROXY=off GOSUMDB=off go test -vet=off -count=1 ./...",
   "source_commits": [],
   "add_only": True
 },
 "engines": [
   {"name": "vrt", "path": "/verif/vrt", "serves_properties": sorted(claimed), "kind_free_text": "cooperative deterministic scheduler for real Go code (virtual time, virtual channels, sync shims) + deviation-bounded stateless DFS explorer, sharded over worker processes"},
   {"name": "vinst", "path": "/verif/vinst", "serves_properties": sorted(claimed), "kind_free_text": "type-aware source instrumenter (go/packages) producing a go build overlay"},
   {"name": "sim-gocbcore", "path": "/verif/sim/gocbcore", "serves_properties": sorted(claimed), "kind_free_text": "simulated Couchbase cluster behind the gocbcore API (environment model)"}
 ],
 "checks": checks,
 "not_applicable": na,
 "notes": "All checks explore the real go-dcp code; see DESIGN.md. Known genuine defects: /verif/known_findings.json."
}
json.dump(m, open('/verif/MANIFEST.json','w'), indent=1)
print("claimed", len(checks), "not claimed", len(na))
