package main

import (
	"encoding/json"
	"fmt"
	"math"
	"os"
	"os/exec"
	"path/filepath"
	"strings"
	"time"

	"github.com/Trendyol/go-dcp/config"
	"github.com/Trendyol/go-dcp/metadata"
	"github.com/Trendyol/go-dcp/models"
	"github.com/Trendyol/go-dcp/wrapper"
	"github.com/bytedance/sonic"
	"github.com/couchbase/gocbcore/v10"

	"verif/vrt"
)

// C02 — a session resumes exactly where the persisted checkpoint says.

// memMeta is a custom metadata.Metadata (one document per vBucket, in memory).
type memMeta struct {
	docs   map[uint16]*models.CheckpointDocument
	writes int
	saves  int
}

func (m *memMeta) Save(state map[uint16]*models.CheckpointDocument, dirty map[uint16]bool, _ string) error {
	m.saves++
	for vb, d := range state {
		if dirty[vb] {
			b, _ := sonic.Marshal(d)
			var cp models.CheckpointDocument
			_ = sonic.Unmarshal(b, &cp)
			m.docs[vb] = &cp
			m.writes++
		}
	}
	return nil
}

func (m *memMeta) Load(vbIds []uint16, uuid string) (*wrapper.ConcurrentSwissMap[uint16, *models.CheckpointDocument], bool, error) {
	st := wrapper.CreateConcurrentSwissMap[uint16, *models.CheckpointDocument](8)
	exist := false
	for _, vb := range vbIds {
		if d, ok := m.docs[vb]; ok {
			st.Store(vb, d)
			exist = true
		} else {
			st.Store(vb, models.NewEmptyCheckpointDocument(uuid))
		}
	}
	return st, exist, nil
}

func (m *memMeta) Clear([]uint16) error { m.docs = map[uint16]*models.CheckpointDocument{}; return nil }

var _ metadata.Metadata = (*memMeta)(nil)

var c02Backends = []string{"couchbase", "file", "ro-couchbase", "ro-file", "custom"}
var c02Highs = []uint64{0, 7, 1 << 63, math.MaxUint64}

type ResumeParams struct {
	Backend string `json:"backend"`
}

var boundaryV = []uint64{0, 1, 1<<32 - 1, 1 << 32, 1<<53 - 1, 1 << 53, 1<<53 + 1, 1<<63 - 1, 1 << 63, math.MaxUint64}

func init() {
	scenarios["c02_resume"] = func(raw json.RawMessage) *vrt.Scenario {
		var p ResumeParams
		_ = json.Unmarshal(raw, &p)
		return &vrt.Scenario{Name: "c02_resume", Main: func() { resumeMain(p) }, FreeChoices: true}
	}
	scenarios["c02_roundtrip"] = func(raw json.RawMessage) *vrt.Scenario {
		var p ResumeParams
		_ = json.Unmarshal(raw, &p)
		return &vrt.Scenario{Name: "c02_roundtrip", Main: func() { roundTripMain(p) }, FreeChoices: true}
	}
	register(&Property{
		ID:        "C02",
		Technique: "exhaustive enumeration of the finite product auto-reset x mode x backend x checkpointed-subset x high-seqno vectors, and of the save/restart round trip over a boundary alphabet of 64-bit values, observed at the arguments of the (simulated) DCPAgent.OpenStream, i.e. what gocbcore would put on the wire",
		Rule:      "resume: {earliest,latest} x {infinite,finite} x 5 backends x all 8 subsets of 3 vBuckets x high seqnos {0,7,2^63,2^64-1}^3; round trip: (vbUUID, seqNo, snapStart, snapEnd) over V^4 restricted to snapStart<=seqNo<=snapEnd with V = representation boundaries, through event -> Ack -> Save -> store -> crash -> Load -> OpenStream; non-trivial = distinct request tuples",
		Assume:    []string{"values outside the boundary alphabet V are not enumerated", "scheduled build uses the deterministic stand-in for wrapper.ConcurrentSwissMap"},
		Pure: func(tier string) *PureResult {
			// the REAL wrapper.ConcurrentSwissMap (binary built without the overlay) against a plain map
			res := &PureResult{Exhaustive: true}
			self, _ := os.Executable()
			out, err := exec.Command(filepath.Join(filepath.Dir(self), "wrapcheck"), tier).Output()
			if err != nil {
				res.Violations = append(res.Violations, pureViolation("C02", "wrapcheck could not run: "+err.Error()))
				return res
			}
			var wr struct {
				Evaluations int64    `json:"evaluations"`
				Sequences   int64    `json:"sequences"`
				Violations  []string `json:"violations"`
			}
			if err := json.Unmarshal(out, &wr); err != nil {
				res.Violations = append(res.Violations, pureViolation("C02", "wrapcheck output: "+err.Error()))
				return res
			}
			res.Evaluations, res.Distinct, res.States, res.Transitions = wr.Evaluations, wr.Sequences, wr.Sequences, wr.Evaluations
			for _, v := range wr.Violations {
				res.Violations = append(res.Violations, pureViolation("C02", "wrapper.ConcurrentSwissMap differs from a plain map: "+v))
			}
			res.Samples = []any{"store(1,10) storeif-lower(1,15) delete(2) json-roundtrip"}
			res.Notes = []string{"real wrapper.ConcurrentSwissMap vs plain map: every operation sequence up to length 5 (6 thorough) over 2 keys"}
			// the real file backend: every sequence of <= 3 saves of three states into ONE file (a later state may
			// be shorter than the one it replaces), re-loaded after every save; plus every byte prefix of each file
			tf := tornFilePure("C02")(tier)
			res.Evaluations += tf.Evaluations
			res.Distinct += tf.Distinct
			res.States += tf.States
			res.Transitions += tf.Transitions
			res.Violations = append(res.Violations, tf.Violations...)
			res.Notes = append(res.Notes, tf.Notes...)
			return res
		},
		Instances: func(tier string) []Instance {
			var out []Instance
			for _, b := range c02Backends {
				out = append(out, Instance{Scenario: "c02_resume", Params: mustJSON(ResumeParams{Backend: b}), Bound: 0, Shards: 2})
			}
			out = append(out, Instance{Scenario: "c02_readonly_dcp", Params: mustJSON(struct{}{}), Bound: 0, Note: "read-only mode through the real Dcp.Start(), also for a backend handed in with SetMetadata"})
			out = append(out, Instance{Scenario: "c05_windowcommit", Params: mustJSON(struct{}{}), Bound: 0, Note: "acknowledgements and commits inside a rebalance window: the re-opened session requests each vBucket from exactly what the store holds then"})
			out = append(out, Instance{Scenario: "c02_manyvb", Params: mustJSON(struct{}{}), Bound: 0, Shards: 3, Note: "assignments of 129 / 300 / 173..174 / 130 vBuckets: every assigned vBucket is requested exactly once"})
			out = append(out, Instance{Scenario: "c02_finitecoll", Params: mustJSON(struct{}{}), Bound: 0, Note: "finite mode with a collection filter: end (and the 'latest' start) are the VBUCKET's high seqno, not the streamed collection's"})
			out = append(out, Instance{Scenario: "c02_twogroups", Params: mustJSON(struct{}{}), Bound: 0, Note: "two consumer groups in one process on one bucket: each resumes from what is persisted for IT"})
			out = append(out, Instance{Scenario: "c15_start", Params: mustJSON(StartParams{Reset: "latest", Mode: "infinite"}), Bound: 1, Shards: 4, Note: "autoReset=latest under single start-up faults: a session that starts has requested every vBucket without a checkpoint at its current high seqno (or the start-up terminated)"})
			out = append(out, Instance{Scenario: "c12_ends", Params: mustJSON(EndsParams{Depth: 2}), Bound: 0, Shards: 4, Note: "the stream requests a running session issues when it re-opens a vBucket (after document / marker-only / seqno-advanced events): tracked position, the original end (unbounded in infinite mode)"})
			out = append(out, Instance{Scenario: "c02_sessions", Params: mustJSON(SessionsParams{}), Bound: 0, Shards: 2, Note: "three sessions of one process with the store moving in between: events acknowledged and saved by each session (couchbase backend)"})
			out = append(out, Instance{Scenario: "c02_sessions", Params: mustJSON(SessionsParams{Backend: "file"}), Bound: 0, Shards: 2, Note: "the same on the file backend, which rewrites its whole file on every save: what a session with a larger assignment stored for the other vBuckets survives the saves of a smaller one"})
			out = append(out, Instance{Scenario: "c02_sessions", Params: mustJSON(SessionsParams{ReadOnly: true}), Bound: 0, Shards: 2, Note: "read-only mode: the checkpoints are advanced by their owners between the sessions; every load is a fresh read, for vBuckets that stay and for vBuckets that are gained"})
			out = append(out, Instance{Scenario: "c02_rebalance", Params: mustJSON(struct{}{}), Bound: 0, Shards: 4, Note: "second and third session of one process after real rebalances that shrink / grow / shift the assignment"})
			out = append(out, Instance{Scenario: "c02_loadfault", Params: mustJSON(struct{}{}), Bound: 0, Note: "a checkpoint lookup answered with an error other than key-not-found: fail fast or resume exactly, never from zero"})
			for _, b := range []string{"couchbase", "file", "custom"} {
				out = append(out, Instance{Scenario: "c02_roundtrip", Params: mustJSON(ResumeParams{Backend: b}), Bound: 0, Shards: 4})
			}
			return out
		},
	})
}

type c02Tuple struct{ uuid, seq, s0, s1 uint64 }

func resumeMain(p ResumeParams) {
	resetGlobals()
	reset := []string{"earliest", "latest"}[vrt.Choose(2, true, "auto-reset")]
	mode := []config.DcpMode{config.DcpModeInfinite, config.DcpModeFinite}[vrt.Choose(2, true, "mode")]
	subset := vrt.Choose(8, true, "checkpointed-subset")
	var highs [3]uint64
	for i := range highs {
		highs[i] = c02Highs[vrt.Choose(len(c02Highs), true, "high")]
	}
	isFile := p.Backend == "file" || p.Backend == "ro-file"
	if isFile && subset != 0 && subset != 7 {
		// the file backend stores one document for all vBuckets: only "none" and "all" exist
		vrt.SetOutcome("n/a")
		return
	}
	o := EnvOpts{Vbs: 3, CheckpointType: "manual", AutoReset: reset, Mode: mode, WrapMeta: true}
	o.defaults()
	var file string
	mem := &memMeta{docs: map[uint16]*models.CheckpointDocument{}}
	switch p.Backend {
	case "file", "ro-file":
		f, _ := os.CreateTemp("", "c02*.json")
		file = f.Name()
		f.Close()
		os.Remove(file)
		defer os.Remove(file)
		o.Metadata, o.FileName = "file", file
	case "custom":
		o.CustomMeta = mem
	}
	o.ReadOnly = p.Backend == "ro-couchbase" || p.Backend == "ro-file"
	c := NewCluster(&o)
	stored := map[uint16]c02Tuple{}
	fileState := map[uint16]*models.CheckpointDocument{}
	for vb := uint16(0); vb < 3; vb++ {
		c.Vb[vb].High = highs[vb]
		// a vBucket that has been failed over: the newest entry names the current history branch
		c.Vb[vb].Failover = []gocbcore.FailoverEntry{{VbUUID: gocbcore.VbUUID(7000 + uint64(vb)), SeqNo: 0}}
		if vb >= 1 {
			c.Vb[vb].Failover = append(c.Vb[vb].Failover, gocbcore.FailoverEntry{VbUUID: gocbcore.VbUUID(6000 + uint64(vb)), SeqNo: 0})
		}
		if vb >= 2 {
			c.Vb[vb].Failover = append(c.Vb[vb].Failover, gocbcore.FailoverEntry{VbUUID: gocbcore.VbUUID(5000 + uint64(vb)), SeqNo: 0})
		}
		if subset&(1<<vb) == 0 {
			continue
		}
		seq := highs[vb] // equal to the high seqno is legal (C15 only refuses beyond it)
		if seq > 5 {
			seq = highs[vb] - 3
		}
		s0 := seq
		if s0 > 2 {
			s0 = seq - 2
		}
		s1 := seq
		if s1 < math.MaxUint64-2 {
			s1 = seq + 2
		}
		t := c02Tuple{uuid: 1<<60 + uint64(vb), seq: seq, s0: s0, s1: s1}
		stored[vb] = t
		doc := &models.CheckpointDocument{Checkpoint: &models.CheckpointDocumentCheckpoint{VbUUID: t.uuid, SeqNo: t.seq, Snapshot: &models.CheckpointDocumentSnapshot{StartSeqNo: t.s0, EndSeqNo: t.s1}}, BucketUUID: "uuid-src"}
		switch {
		case isFile:
			fileState[vb] = doc
		case p.Backend == "custom":
			mem.docs[vb] = doc
		default:
			seedCheckpoint(c, srcBucket, "g", vb, t.uuid, t.seq, t.s0, t.s1)
		}
	}
	if isFile && subset == 7 {
		b, _ := sonic.MarshalIndent(fileState, "", "  ")
		_ = os.WriteFile(file, b, 0o644)
	}
	writesBefore := len(c.Writes)
	e := NewEnv(c, o)
	e.Stream.Open()
	c.WaitIdle()
	desc := fmt.Sprintf("backend=%s reset=%s mode=%s subset=%03b highs=%v", p.Backend, reset, mode, subset, highs)
	reqs := c.RequestsOf("openstream")
	if len(reqs) != 3 {
		vrt.Failf("%s: %d stream requests, want 3", desc, len(reqs))
		return
	}
	var sig string
	for _, r := range reqs {
		vb := r.Vb
		got := c02Tuple{uuid: r.Args[1], seq: r.Args[2], s0: r.Args[4], s1: r.Args[5]}
		end := r.Args[3]
		wantEnd := uint64(math.MaxUint64)
		if mode == config.DcpModeFinite {
			wantEnd = highs[vb]
		}
		if end != wantEnd {
			vrt.Failf("%s: vb%d requested with end %d, want %d", desc, vb, end, wantEnd)
		}
		if r.Args[0] != 0x80 {
			vrt.Failf("%s: vb%d requested with flags %#x", desc, vb, r.Args[0])
		}
		if t, ok := stored[vb]; ok {
			if got != t {
				vrt.Failf("%s: vb%d requested from %+v, persisted checkpoint is %+v", desc, vb, got, t)
			}
		} else if reset == "earliest" {
			if got != (c02Tuple{}) {
				vrt.Failf("%s: vb%d has no checkpoint and auto-reset is earliest, but was requested from %+v", desc, vb, got)
			}
		} else if subset == 0 {
			want := c02Tuple{uuid: 7000 + uint64(vb), seq: highs[vb], s0: highs[vb], s1: highs[vb]}
			if got != want {
				vrt.Failf("%s: vb%d (no checkpoint anywhere, auto-reset latest) requested from %+v, want %+v", desc, vb, got, want)
			}
		}
		sig += fmt.Sprintf("%v/%d;", got, end)
	}
	// a second session in the same process (re-open after a rebalance) loads the store again: change the
	// store behind the library's back and check that the new requests name the new contents
	if subset != 0 && !(highs[0] == 0 && highs[1] == 0 && highs[2] == 0) {
		changed := map[uint16]c02Tuple{}
		for vb, t := range stored {
			if t.seq == 0 {
				changed[vb] = t
				continue
			}
			nt := c02Tuple{uuid: t.uuid + 16, seq: t.seq - 1, s0: t.s0, s1: t.s1}
			if nt.s0 > nt.seq {
				nt.s0 = nt.seq
			}
			changed[vb] = nt
			doc := &models.CheckpointDocument{Checkpoint: &models.CheckpointDocumentCheckpoint{VbUUID: nt.uuid, SeqNo: nt.seq, Snapshot: &models.CheckpointDocumentSnapshot{StartSeqNo: nt.s0, EndSeqNo: nt.s1}}, BucketUUID: "uuid-src"}
			switch {
			case isFile:
				fileState[vb] = doc
			case p.Backend == "custom":
				mem.docs[vb] = doc
			default:
				seedCheckpoint(c, srcBucket, "g", vb, nt.uuid, nt.seq, nt.s0, nt.s1)
			}
		}
		if isFile {
			b, _ := sonic.MarshalIndent(fileState, "", "  ")
			_ = os.WriteFile(file, b, 0o644)
		}
		writesBefore = len(c.Writes)
		n := len(c.Requests)
		e.Stream.Rebalance()
		vrt.Sleep(o.RebalanceDelay + 1e9)
		c.WaitIdle()
		seen := 0
		for _, r := range c.Requests[n:] {
			if r.Kind != "openstream" {
				continue
			}
			seen++
			got := c02Tuple{uuid: r.Args[1], seq: r.Args[2], s0: r.Args[4], s1: r.Args[5]}
			if t, ok := changed[r.Vb]; ok && got != t {
				vrt.Failf("%s: re-open requested vb%d from %+v, the store now holds %+v (load is not a fresh read of the store)", desc, r.Vb, got, t)
			}
		}
		if seen != 3 {
			vrt.Failf("%s: re-open issued %d stream requests, want 3", desc, seen)
		}
	}
	// read-only mode: nothing is ever written, whatever the consumer settles
	if o.ReadOnly {
		for vb := uint16(0); vb < 3; vb++ {
			if highs[vb] < math.MaxUint64 {
				s := highs[vb] + 1
				c.Append(vb, marker(s, s), symbolPacket("M", s))
			}
		}
		c.WaitIdle()
		for _, d := range e.Cons.Events {
			d.Ctx.Ack()
		}
		e.Stream.Save()
		if len(c.Writes) != writesBefore {
			vrt.Failf("%s: read-only metadata mode performed %d KV writes", desc, len(c.Writes)-writesBefore)
		}
		if isFile {
			if b, err := os.ReadFile(file); (subset == 0 && err == nil) || (subset == 7 && (err != nil || len(b) == 0)) {
				vrt.Failf("%s: read-only metadata mode changed the checkpoint file", desc)
			}
		}
	}
	vrt.SetOutcome(sig)
}

// roundTripMain: event -> Ack -> Save -> store -> crash -> Load -> OpenStream for boundary values.
func roundTripMain(p ResumeParams) {
	resetGlobals()
	V := boundaryV
	uuid := V[vrt.Choose(len(V), true, "vbuuid")]
	seq := V[vrt.Choose(len(V), true, "seq")]
	s0 := V[vrt.Choose(len(V), true, "snapStart")]
	s1 := V[vrt.Choose(len(V), true, "snapEnd")]
	if !(s0 <= seq && seq <= s1) || seq == 0 {
		vrt.SetOutcome("n/a")
		return
	}
	o := EnvOpts{Vbs: 2, CheckpointType: "manual", WrapMeta: true}
	var file string
	mem := &memMeta{docs: map[uint16]*models.CheckpointDocument{}}
	switch p.Backend {
	case "file":
		f, _ := os.CreateTemp("", "c02rt*.json")
		file = f.Name()
		f.Close()
		os.Remove(file)
		defer os.Remove(file)
		o.Metadata, o.FileName = "file", file
	case "custom":
		o.CustomMeta = mem
	}
	c := NewCluster(&o)
	c.Vb[0].Failover = []gocbcore.FailoverEntry{{VbUUID: gocbcore.VbUUID(uuid), SeqNo: 0}}
	e := NewEnv(c, o)
	e.Stream.Open()
	c.WaitIdle()
	c.Append(0, marker(s0, s1), symbolPacket("M", seq))
	c.WaitIdle()
	if len(e.Cons.Events) != 1 {
		vrt.Failf("harness: event not delivered (%d)", len(e.Cons.Events))
		return
	}
	e.Cons.Events[0].Ctx.Ack()
	e.Stream.Save()
	// save / reload / save chain: a second session re-saves what it loaded after a further event
	e.Cons.Disabled = true
	c.KillAgents()
	n := len(c.Requests)
	e2 := NewEnv(c, o)
	e2.Stream.Open()
	c.WaitIdle()
	want := c02Tuple{uuid, seq, s0, s1}
	found := false
	for _, r := range c.Requests[n:] {
		if r.Kind == "openstream" && r.Vb == 0 {
			found = true
			got := c02Tuple{r.Args[1], r.Args[2], r.Args[4], r.Args[5]}
			if got != want {
				vrt.Failf("backend %s: saved %+v, restart requested %+v (round trip is lossy)", p.Backend, want, got)
			}
		}
	}
	if !found {
		vrt.Failf("backend %s: no stream request for vb0 after restart", p.Backend)
	}
	// vb1 never had progress: requested from zero
	for _, r := range c.Requests[n:] {
		if r.Kind == "openstream" && r.Vb == 1 && (r.Args[1] != 0 || r.Args[2] != 0 || r.Args[4] != 0 || r.Args[5] != 0) {
			vrt.Failf("backend %s: vb1 without progress requested from %v", p.Backend, r.Args[:6])
		}
	}
	vrt.SetOutcome(fmt.Sprintf("%+v", want))
}

// tornFilePure runs the non-overlay wrapcheck binary in tornfile mode (real file backend + real wrapper map).
func tornFilePure(prop string) func(tier string) *PureResult {
	return func(tier string) *PureResult {
		res := &PureResult{Exhaustive: true}
		self, _ := os.Executable()
		out, err := exec.Command(filepath.Join(filepath.Dir(self), "wrapcheck"), "tornfile").Output()
		if err != nil {
			res.Violations = append(res.Violations, pureViolation(prop, "wrapcheck tornfile could not run: "+err.Error()))
			return res
		}
		var wr struct {
			Evaluations int64    `json:"evaluations"`
			Sequences   int64    `json:"sequences"`
			Violations  []string `json:"violations"`
		}
		if err := json.Unmarshal(out, &wr); err != nil {
			res.Violations = append(res.Violations, pureViolation(prop, "wrapcheck output: "+err.Error()))
			return res
		}
		res.Evaluations, res.Distinct, res.States, res.Transitions = wr.Evaluations, wr.Sequences, wr.Sequences, wr.Evaluations
		for _, v := range wr.Violations {
			res.Violations = append(res.Violations, pureViolation(prop, "file metadata backend (real code, real map): "+v))
		}
		res.Samples = []any{"3 saved states x every byte prefix of the file, real metadata.fileMetadata.Load on the real wrapper.ConcurrentSwissMap"}
		res.Notes = []string{"non-overlay binary: real file backend and real sharded map; every byte prefix of three checkpoint files"}
		return res
	}
}

// c02_loadfault: one checkpoint lookup of the session's Load is answered with an error that is NOT "key not
// found" (temporary failure, internal error, no answer until the timeout). The session either fails fast
// (C15) or requests every vBucket exactly as persisted - a vBucket with an intact stored checkpoint is never
// silently requested from zero / from the current end.
func init() {
	scenarios["c02_loadfault"] = func(raw json.RawMessage) *vrt.Scenario {
		return &vrt.Scenario{Name: "c02_loadfault", Main: loadFaultMain, FreeChoices: true, NoTimerAlt: true,
			Classify: func(r *vrt.Result) []string {
				if r.Status == vrt.StatusCrash && strings.Contains(r.Outcome, "no such xattr") {
					return []string{"a vBucket whose document exists without a checkpoint xattr (no checkpoint) crashed the start-up: " + r.Crash.Value + " (" + r.Outcome + ")"}
				}
				if r.Status == vrt.StatusCrash || r.Status == vrt.StatusOK {
					return nil // failing fast is fine; a session that starts is checked by the scenario itself
				}
				return []string{"execution ended with status " + r.Status.String() + "; blocked: " + strings.Join(r.Blocked, " | ")}
			}}
	}
}

func loadFaultMain() {
	resetGlobals()
	reset := []string{"earliest", "latest"}[vrt.Choose(2, true, "auto-reset")]
	subset := 1 + vrt.Choose(7, true, "checkpointed-subset")
	faultVb := uint16(vrt.Choose(3, true, "faulted-lookup"))
	kind := vrt.Choose(4, true, "fault") // 3: no fault, but the document exists WITHOUT the checkpoint xattr
	o := EnvOpts{Vbs: 3, CheckpointType: "manual", AutoReset: reset, WrapMeta: true}
	c := NewCluster(&o)
	stored := map[uint16]c02Tuple{}
	for vb := uint16(0); vb < 3; vb++ {
		c.Vb[vb].High = 20
		if subset&(1<<vb) == 0 {
			continue
		}
		t := c02Tuple{uuid: 9000 + uint64(vb), seq: 7 + uint64(vb), s0: 5, s1: 12}
		stored[vb] = t
		seedCheckpoint(c, srcBucket, "g", vb, t.uuid, t.seq, t.s0, t.s1)
	}
	if kind == 3 {
		// the state a first save leaves behind when it is interrupted between creating the document and writing
		// the xattr: the vBucket has NO checkpoint
		delete(stored, faultVb)
		b := c.Bucket(srcBucket)
		// (a document seeded above for this vBucket is replaced by a bare one)
		b.PutDoc(ckptKey("g", faultVb), []byte("{}"))
		b.DropXattrs(ckptKey("g", faultVb))
	}
	armed := kind != 3
	c.Fault = func(r *gocbcore.SimRequest) gocbcore.SimAnswer {
		if armed && r.Kind == "lookupin" && r.Key == ckptKey("g", faultVb) {
			armed = false
			switch kind {
			case 0:
				return gocbcore.SimAnswer{Kind: "err", Err: &gocbcore.KeyValueError{InnerError: gocbcore.ErrTemporaryFailure, StatusCode: 0x86}}
			case 1:
				return gocbcore.SimAnswer{Kind: "err", Err: &gocbcore.KeyValueError{InnerError: gocbcore.ErrInternalServerFailure, StatusCode: 0x84}}
			default:
				return gocbcore.SimAnswer{Kind: "drop"}
			}
		}
		return gocbcore.SimAnswer{}
	}
	desc := fmt.Sprintf("reset=%s subset=%03b lookup of vb%d answered with %s", reset, subset, faultVb, []string{"temporary failure", "internal error", "silence", "'no such xattr' (the document exists without a checkpoint)"}[kind])
	vrt.SetOutcome(desc)
	e := NewEnv(c, o)
	e.Stream.Open()
	c.WaitIdle()
	if kind == 3 {
		// not a fault: the vBucket simply has no checkpoint; the session must start
		if len(c.RequestsOf("openstream")) != 3 {
			vrt.Failf("%s: %d of 3 vBuckets were requested", desc, len(c.RequestsOf("openstream")))
		}
		anyStored := len(stored) > 0
		for _, r := range c.RequestsOf("openstream") {
			if r.Vb == faultVb && (reset == "earliest" || anyStored) && (r.Args[1] != 0 || r.Args[2] != 0 || r.Args[4] != 0 || r.Args[5] != 0) {
				vrt.Failf("%s: vb%d has no checkpoint but was requested from (vbuuid %d, seq %d, snapshot [%d,%d])", desc, r.Vb, r.Args[1], r.Args[2], r.Args[4], r.Args[5])
			}
		}
	}
	// the session started: every request must name what is persisted
	for _, r := range c.RequestsOf("openstream") {
		got := c02Tuple{uuid: r.Args[1], seq: r.Args[2], s0: r.Args[4], s1: r.Args[5]}
		if want, ok := stored[r.Vb]; ok && got != want {
			vrt.Failf("%s: the session started and vb%d was requested from %+v, its persisted checkpoint is %+v", desc, r.Vb, got, want)
		}
	}
	vrt.SetOutcome(desc + " started")
}

// c02_rebalance: "each assigned vBucket is requested with exactly what is persisted for it" in the SECOND and
// third session of one process: real Rebalance() calls that shrink, grow and shift the assignment (dynamic
// membership), with checkpoints persisted for every vBucket of the bucket (some by this member's own saves,
// the others by former owners).
func init() {
	scenarios["c02_rebalance"] = func(raw json.RawMessage) *vrt.Scenario {
		return &vrt.Scenario{Name: "c02_rebalance", FreeChoices: true, NoTimerAlt: true, MaxSteps: 400000, Main: func() {
			resetGlobals()
			const nvb = 4
			o := EnvOpts{Vbs: nvb, CheckpointType: "manual", MembershipType: "dynamic", WrapMeta: true}
			c := NewCluster(&o)
			stored := map[uint16]c02Tuple{}
			for vb := uint16(0); vb < nvb; vb++ {
				c.Vb[vb].High = 50
				t := c02Tuple{uuid: 9000 + uint64(vb), seq: 10 + uint64(vb), s0: 8, s1: 20}
				stored[vb] = t
				seedCheckpoint(c, srcBucket, "g", vb, t.uuid, t.seq, t.s0, t.s1)
			}
			e := NewEnv(c, o)
			nums := [][2]int{{1, 2}, {2, 2}, {1, 1}, {1, 4}, {3, 4}}
			cur := nums[vrt.Choose(len(nums), true, "first-numbering")]
			publishInfo(e, cur[0], cur[1])
			e.Bus.WaitAsync()
			e.Stream.Open()
			c.WaitIdle()
			var hist []string
			check := func() {
				want := chunkOf(nvb, cur)
				in := map[uint16]bool{}
				for _, v := range want {
					in[v] = true
				}
				// the stream requests of the latest session
				last := map[uint16]*gocbcore.SimRequest{}
				var t0 int64
				for _, r := range c.Requests {
					if r.Kind == "openstream" && r.Issued >= t0 {
						last[r.Vb] = r
					}
				}
				for vb := uint16(0); vb < nvb; vb++ {
					if in[vb] != c.StreamOpen(vb) {
						vrt.Failf("after %v (member %d/%d): vb%d streamed=%v, assigned=%v", hist, cur[0], cur[1], vb, c.StreamOpen(vb), in[vb])
					}
					if !in[vb] {
						continue
					}
					r := last[vb]
					if r == nil {
						vrt.Failf("after %v: assigned vb%d was never requested", hist, vb)
						continue
					}
					got := c02Tuple{uuid: r.Args[1], seq: r.Args[2], s0: r.Args[4], s1: r.Args[5]}
					if got != stored[vb] {
						vrt.Failf("after %v (member %d/%d): vb%d requested from %+v, persisted is %+v", hist, cur[0], cur[1], vb, got, stored[vb])
					}
				}
			}
			hist = append(hist, fmt.Sprintf("open(%d/%d)", cur[0], cur[1]))
			check()
			for i := 0; i < 2; i++ {
				cur = nums[vrt.Choose(len(nums), true, "next-numbering")]
				publishInfo(e, cur[0], cur[1])
				e.Bus.WaitAsync()
				e.Stream.Rebalance()
				vrt.Sleep(2 * time.Second)
				vrt.Quiesce()
				c.WaitIdle()
				hist = append(hist, fmt.Sprintf("rebalance(%d/%d)", cur[0], cur[1]))
				check()
			}
			vrt.SetOutcome(fmt.Sprint(hist))
		}}
	}
}

// c02_readonly_dcp: read-only metadata mode through the real Dcp.Start() for every way a backend can be
// installed (configured couchbase / file, or handed in with SetMetadata): loads are what the backend holds,
// and nothing is ever written - neither by Commit(), nor by the periodic save, nor by Close().
func init() {
	scenarios["c02_readonly_dcp"] = func(raw json.RawMessage) *vrt.Scenario {
		return &vrt.Scenario{Name: "c02_readonly_dcp", FreeChoices: true, NoTimerAlt: true, MaxSteps: 2_000_000, Main: func() {
			resetGlobals()
			backend := []string{"couchbase", "custom"}[vrt.Choose(2, true, "backend")]
			cp := []string{"auto", "manual"}[vrt.Choose(2, true, "checkpoint-type")]
			o := DcpOpts{}
			o.Vbs = 2
			o.CheckpointType = cp
			o.AutoAck = true
			o.ReadOnly = true
			o.CheckpointInterval = 5 * time.Second
			c := NewCluster(&o.EnvOpts)
			c.Append(0, marker(1, 2), mut(1, "a1"), mut(2, "a2"))
			c.Append(1, marker(1, 1), mut(1, "b1"))
			mem := &memMeta{docs: map[uint16]*models.CheckpointDocument{}}
			e := NewDcpEnv(c, o)
			if e.Err != nil {
				vrt.Failf("newDcp: %v", e.Err)
				return
			}
			if backend == "custom" {
				e.D.SetMetadata(mem)
			}
			w0 := len(c.Writes)
			e.Start()
			vrt.Quiesce()
			c.WaitIdle()
			e.D.Commit()
			vrt.Sleep(12 * time.Second) // two periodic saves in auto mode
			c.WaitIdle()
			e.D.Close()
			vrt.Block("dcp closed", func() bool { return e.Done })
			desc := fmt.Sprintf("read-only metadata mode, backend=%s checkpoint=%s, %d events acknowledged", backend, cp, len(e.Cons.Events))
			if len(e.Cons.Events) != 3 {
				vrt.Failf("harness: %s", desc)
			}
			var ck []string
			for _, w := range c.Writes[w0:] {
				if strings.Contains(w.Key, ":checkpoint:") {
					ck = append(ck, w.Key)
				}
			}
			if len(ck) > 0 {
				vrt.Failf("%s: checkpoint documents were written: %v", desc, ck)
			}
			if mem.saves > 0 {
				vrt.Failf("%s: %d Save call(s) reached the custom backend", desc, mem.saves)
			}
			vrt.SetOutcome(desc)
		}}
	}
}

// c02_sessions: "each assigned vBucket is requested with exactly what is persisted for it" in the second and
// third session of ONE process (real Rebalance() calls between them, dynamic membership) while the store
// MOVES between the sessions:
//   - writable couchbase / file backend: every session delivers one more event per assigned vBucket, the
//     consumer acknowledges, Save() - the reference follows; the file backend rewrites its whole file on every
//     save, so what earlier sessions (larger assignment) stored for the other vBuckets must survive;
//   - read-only mode: the checkpoints are advanced behind the library's back (by their owners) between the
//     sessions - loads are fresh reads of the backend, for vBuckets that stay and for vBuckets that are gained.
type SessionsParams struct {
	Backend  string `json:"backend"` // "" (couchbase) | file | append (custom backend that appends to the id list it is handed)
	ReadOnly bool   `json:"read_only"`
	// Flushed (read-only): before the first rebalance the store shows, for one chosen vBucket, a checkpoint BEYOND
	// the vBucket's high seqno (bucket flushed / recreated): the session that is assigned this vBucket terminates
	Flushed bool `json:"flushed"`
}

func init() {
	scenarios["c02_sessions"] = func(raw json.RawMessage) *vrt.Scenario {
		var p SessionsParams
		_ = json.Unmarshal(raw, &p)
		return &vrt.Scenario{Name: "c02_sessions", FreeChoices: true, NoTimerAlt: true, MaxSteps: 400000, Main: func() { sessionsMain(p) },
			Classify: func(r *vrt.Result) []string {
				expect := strings.Contains(r.Outcome, "MUST-TERMINATE")
				if r.Status == vrt.StatusCrash && expect {
					r.Failures = nil
					return nil
				}
				if r.Status != vrt.StatusOK {
					m := "execution ended with status " + r.Status.String()
					if r.Crash != nil {
						m += ": panic in " + r.Crash.Thread + ": " + r.Crash.Value
					}
					return []string{m}
				}
				if expect {
					return []string{"the stored checkpoint of an assigned vBucket lies beyond its high seqno, but the session ran: " + r.Outcome}
				}
				return nil
			}}
	}
}

func sessionsMain(p SessionsParams) {
	resetGlobals()
	const nvb = 4
	o := EnvOpts{Vbs: nvb, CheckpointType: "manual", MembershipType: "dynamic", AutoAck: true, ReadOnly: p.ReadOnly}
	if p.Backend == "file" {
		f, _ := os.CreateTemp("", "ckpt*.json")
		o.Metadata, o.FileName = "file", f.Name()
		f.Close()
		defer os.Remove(o.FileName)
	}
	var am *appendMeta
	if p.Backend == "append" {
		am = &appendMeta{memMeta{docs: map[uint16]*models.CheckpointDocument{}}}
		o.CustomMeta = am
	}
	c := NewCluster(&o)
	stored := map[uint16]c02Tuple{}
	next := map[uint16]uint64{}
	writeFile := func() {
		m := map[uint16]*models.CheckpointDocument{}
		for vb, t := range stored {
			m[vb] = &models.CheckpointDocument{Checkpoint: &models.CheckpointDocumentCheckpoint{VbUUID: t.uuid, SeqNo: t.seq, Snapshot: &models.CheckpointDocumentSnapshot{StartSeqNo: t.s0, EndSeqNo: t.s1}}, BucketUUID: "uuid-" + srcBucket}
		}
		b, _ := json.Marshal(m)
		_ = os.WriteFile(o.FileName, b, 0o644)
	}
	seed := func(vb uint16) {
		t := stored[vb]
		if am != nil {
			am.docs[vb] = &models.CheckpointDocument{Checkpoint: &models.CheckpointDocumentCheckpoint{VbUUID: t.uuid, SeqNo: t.seq, Snapshot: &models.CheckpointDocumentSnapshot{StartSeqNo: t.s0, EndSeqNo: t.s1}}, BucketUUID: "uuid-" + srcBucket}
			return
		}
		if p.Backend != "file" {
			seedCheckpoint(c, srcBucket, "g", vb, t.uuid, t.seq, t.s0, t.s1)
		}
	}
	for vb := uint16(0); vb < nvb; vb++ {
		uuid := uint64(c.Vb[vb].Failover[0].VbUUID)
		c.Append(vb, marker(1, 10+uint64(vb)))
		for s := uint64(1); s <= 10+uint64(vb); s++ {
			c.Append(vb, mut(s, fmt.Sprintf("k%d-%d", vb, s)))
		}
		stored[vb] = c02Tuple{uuid: uuid, seq: 10 + uint64(vb), s0: 1, s1: 10 + uint64(vb)}
		next[vb] = 11 + uint64(vb)
		seed(vb)
	}
	if p.Backend == "file" {
		writeFile()
	}
	e := NewEnv(c, o)
	nums := [][2]int{{1, 1}, {1, 2}, {2, 2}, {3, 4}}
	cur := nums[vrt.Choose(len(nums), true, "first-numbering")]
	publishInfo(e, cur[0], cur[1])
	e.Bus.WaitAsync()
	e.Stream.Open()
	c.WaitIdle()
	var hist []string
	var t0 int64
	flushed := -1
	check := func() {
		want := chunkOf(nvb, cur)
		in := map[uint16]bool{}
		for _, v := range want {
			in[v] = true
		}
		last := map[uint16]*gocbcore.SimRequest{}
		for _, r := range c.Requests {
			if r.Kind == "openstream" && r.Issued >= t0 {
				last[r.Vb] = r
			}
		}
		// the member streams exactly its chunk: contiguous, ascending, nothing outside it
		var reqd []int
		for _, r := range c.Requests {
			if r.Kind == "openstream" && r.Issued >= t0 {
				if int(r.Vb) >= nvb || !in[r.Vb] {
					vrt.Failf("after %v (member %d/%d): a stream was requested for vb%d, which is not in this member's set %v", hist, cur[0], cur[1], r.Vb, want)
				}
				reqd = append(reqd, int(r.Vb))
			}
		}
		for vb := uint16(0); vb < nvb; vb++ {
			if !in[vb] && c.StreamOpen(vb) {
				vrt.Failf("after %v (member %d/%d): vb%d is streamed although it is not in this member's set %v", hist, cur[0], cur[1], vb, want)
			}
		}
		for vb := uint16(0); vb < nvb; vb++ {
			if !in[vb] {
				continue
			}
			r := last[vb]
			if r == nil {
				vrt.Failf("after %v: assigned vb%d was not requested in this session", hist, vb)
				continue
			}
			got := c02Tuple{uuid: r.Args[1], seq: r.Args[2], s0: r.Args[4], s1: r.Args[5]}
			if got != stored[vb] {
				vrt.Failf("after %v (member %d/%d): vb%d requested from %+v, persisted is %+v", hist, cur[0], cur[1], vb, got, stored[vb])
			}
		}
	}
	hist = append(hist, fmt.Sprintf("open(%d/%d)", cur[0], cur[1]))
	check()
	for i := 0; i < 2; i++ {
		if p.ReadOnly {
			// the owners of the vBuckets moved on meanwhile
			for vb := uint16(0); vb < nvb; vb++ {
				if int(vb) == flushed {
					continue // nobody owns / advances it any more
				}
				t := stored[vb]
				t.seq, t.s0, t.s1 = next[vb], next[vb], next[vb]
				stored[vb] = t
				c.Append(vb, marker(next[vb], next[vb]), mut(next[vb], fmt.Sprintf("k%d-%d", vb, next[vb])))
				next[vb]++
				seed(vb)
			}
			c.WaitIdle()
			hist = append(hist, "store advanced by the owners")
			if p.Flushed && i == 0 {
				fvb := uint16(vrt.Choose(nvb, true, "flushed-vbucket"))
				t := stored[fvb]
				t.seq, t.s0, t.s1 = next[fvb]+50, next[fvb]+50, next[fvb]+50
				stored[fvb] = t
				seed(fvb)
				flushed = int(fvb)
				hist = append(hist, fmt.Sprintf("vb%d: stored checkpoint %d beyond its high seqno %d", fvb, t.seq, next[fvb]-1))
			}
		} else {
			for _, vb := range chunkOf(nvb, cur) {
				s := next[vb]
				next[vb]++
				c.Append(vb, marker(s, s), mut(s, fmt.Sprintf("k%d-%d", vb, s)))
				t := stored[vb]
				t.seq, t.s0, t.s1 = s, s, s
				stored[vb] = t
			}
			c.WaitIdle()
			vrt.Quiesce()
			e.Stream.Save()
			hist = append(hist, "event+ack+save")
		}
		cur = nums[vrt.Choose(len(nums), true, "next-numbering")]
		if flushed >= 0 {
			for _, v := range chunkOf(nvb, cur) {
				if int(v) == flushed {
					vrt.SetOutcome(fmt.Sprintf("%v then rebalance(%d/%d) MUST-TERMINATE", hist, cur[0], cur[1]))
				}
			}
		}
		publishInfo(e, cur[0], cur[1])
		e.Bus.WaitAsync()
		t0 = vrt.NowNanos()
		e.Stream.Rebalance()
		vrt.Sleep(2 * time.Second)
		vrt.Quiesce()
		c.WaitIdle()
		hist = append(hist, fmt.Sprintf("rebalance(%d/%d)", cur[0], cur[1]))
		check()
	}
	if flushed >= 0 {
		for _, v := range chunkOf(nvb, cur) {
			if int(v) == flushed {
				return // outcome already says MUST-TERMINATE: the session ran although it had to terminate
			}
		}
	}
	vrt.SetOutcome(fmt.Sprint(hist))
}

// appendMeta: a custom backend that uses the id list it is handed as scratch space (legal Go: the argument is
// its own slice header; appending writes behind the caller's length, into whatever the caller's array holds there)
type appendMeta struct{ memMeta }

func (m *appendMeta) Load(vbIds []uint16, uuid string) (*wrapper.ConcurrentSwissMap[uint16, *models.CheckpointDocument], bool, error) {
	st, ex, err := m.memMeta.Load(vbIds, uuid)
	_ = append(vbIds, 65535)
	return st, ex, err
}

// c02_twogroups: TWO consumer groups in one process on the same bucket (two sessions with different
// dcp.group.name, couchbase metadata): each group resumes from what was persisted FOR IT - the second group,
// which has no checkpoint, starts from zero although the first one has saved; its saves leave the first
// group's checkpoints alone; a restart of either resumes from its own position.
func init() {
	scenarios["c02_twogroups"] = func(raw json.RawMessage) *vrt.Scenario {
		return &vrt.Scenario{Name: "c02_twogroups", FreeChoices: true, NoTimerAlt: true, MaxSteps: 400000, Main: func() {
			resetGlobals()
			names := [][2]string{{"orders", "payments"}, {"g", "g2"}, {"a:b", "a"}}[vrt.Choose(3, true, "group-names")]
			ackA := uint64(1 + vrt.Choose(3, true, "acknowledged-by-the-first-group"))
			ackB := uint64(1 + vrt.Choose(3, true, "acknowledged-by-the-second-group"))
			oA := EnvOpts{Vbs: 2, CheckpointType: "manual", Group: names[0]}
			c := NewCluster(&oA)
			for vb := uint16(0); vb < 2; vb++ {
				c.Append(vb, marker(1, 3), mut(1, "k1"), mut(2, "k2"), mut(3, "k3"))
			}
			a := NewEnv(c, oA)
			a.Stream.Open()
			c.WaitIdle()
			ackUpTo := func(e *Env, n uint64) {
				for _, d := range e.Cons.Events {
					if d.Seq <= n && !d.Acked {
						d.Acked = true
						d.Ctx.Ack()
					}
				}
			}
			ackUpTo(a, ackA)
			a.Stream.Save()
			// (the server model has one stream per vBucket: the sessions run one after the other)
			a.Stream.Close(true)
			c.WaitIdle()
			desc := fmt.Sprintf("groups %q and %q in one process; the first has saved %d", names[0], names[1], ackA)
			oB := EnvOpts{Vbs: 2, CheckpointType: "manual", Group: names[1]}
			n0 := len(c.Requests)
			b := NewEnv(c, oB)
			b.Stream.Open()
			c.WaitIdle()
			for _, r := range c.Requests[n0:] {
				if r.Kind == "openstream" && (r.Args[1] != 0 || r.Args[2] != 0) {
					vrt.Failf("%s: the second group has no checkpoint, vb%d was requested from (vbuuid %d, seq %d)", desc, r.Vb, r.Args[1], r.Args[2])
				}
			}
			ackUpTo(b, ackB)
			b.Stream.Save()
			b.Stream.Close(true)
			c.WaitIdle()
			for vb := uint16(0); vb < 2; vb++ {
				da, okA := StoredDoc(c, srcBucket, names[0], vb)
				db, okB := StoredDoc(c, srcBucket, names[1], vb)
				if !okA || da.Checkpoint.SeqNo != ackA {
					vrt.Failf("%s, the second then saved %d: the first group's checkpoint of vb%d is now %+v (present=%v)", desc, ackB, vb, da, okA)
				}
				if !okB || db.Checkpoint.SeqNo != ackB {
					vrt.Failf("%s, the second then saved %d: the second group's checkpoint of vb%d is %+v (present=%v)", desc, ackB, vb, db, okB)
				}
			}
			// both restart: each resumes from its own position
			c.KillAgents()
			a.Cons.Disabled, b.Cons.Disabled = true, true
			for i, g := range names {
				n1 := len(c.Requests)
				e := NewEnv(c, EnvOpts{Vbs: 2, CheckpointType: "manual", Group: g})
				e.Stream.Open()
				c.WaitIdle()
				want := []uint64{ackA, ackB}[i]
				for _, r := range c.Requests[n1:] {
					if r.Kind == "openstream" && r.Args[2] != want {
						vrt.Failf("%s, the second saved %d; after a restart group %q requested vb%d from %d, its own stored position is %d", desc, ackB, g, r.Vb, r.Args[2], want)
					}
				}
				c.KillAgents()
				e.Cons.Disabled = true
			}
			vrt.SetOutcome(fmt.Sprintf("%v %d %d", names, ackA, ackB))
		}}
	}
}

// c02_finitecoll: finite mode with a collection filter next to a busy foreign collection: the streamed
// collection's own high seqno (1) lies below the vBucket's (2, a foreign item). "The requested end is the
// vBucket's high sequence number sampled at open"; with auto-reset latest and no checkpoint the start is that
// high seqno as well; a stored checkpoint at the vBucket's high seqno (reached through a seqno-advanced event) is
// resumed from, not rejected.
func init() {
	scenarios["c02_finitecoll"] = func(raw json.RawMessage) *vrt.Scenario {
		return &vrt.Scenario{Name: "c02_finitecoll", FreeChoices: true, NoTimerAlt: true, MaxSteps: 400000, Main: func() {
			resetGlobals()
			reset := []string{"earliest", "latest"}[vrt.Choose(2, true, "auto-reset")]
			stored := vrt.Choose(3, true, "checkpoint") // none | at the collection's high seqno (1) | at the vBucket's (2)
			o := EnvOpts{Vbs: 2, CheckpointType: "manual", WrapMeta: true, Collections: []string{"c1"}, AutoReset: reset}
			o.Mode = config.DcpModeFinite
			c := NewCluster(&o)
			c.Append(0, marker(1, 2), docPacket("mutation", 1, "k1", "after", 8), symbolPacket("SEQ", 2))
			c.Append(1, marker(1, 1), docPacket("mutation", 1, "j1", "after", 8))
			uuid0 := uint64(c.Vb[0].Failover[0].VbUUID)
			if stored > 0 {
				seedCheckpoint(c, srcBucket, o.Group, 0, uuid0, uint64(stored), 1, 2)
			}
			e := NewEnv(c, o)
			e.Cons.AutoAck = true
			e.Stream.Open()
			vrt.Sleep(3e9)
			vrt.Quiesce()
			c.WaitIdle()
			desc := fmt.Sprintf("finite mode, collection c1 (its high seqno 1, the vBucket's 2), autoReset=%s, checkpoint of vb0 %s", reset, []string{"none", "at 1", "at 2"}[stored])
			var req *gocbcore.SimRequest
			for _, r := range c.RequestsOf("openstream") {
				if r.Vb == 0 {
					req = r
					break
				}
			}
			if req == nil {
				vrt.Failf("%s: vb0 was never requested", desc)
				return
			}
			wantStart := uint64(stored)
			if stored == 0 && reset == "latest" {
				wantStart = 2
			}
			if req.Args[3] != 2 {
				vrt.Failf("%s: requested end of vb0 is %d, the vBucket's high seqno sampled at open is 2", desc, req.Args[3])
			}
			if req.Args[2] != wantStart {
				vrt.Failf("%s: vb0 requested from %d, want %d", desc, req.Args[2], wantStart)
			}
			vrt.SetOutcome(fmt.Sprintf("%s|%v", desc, req.Args))
		}}
	}
}

// c02_manyvb: "each assigned vBucket is requested": assignments with many vBuckets whose size is not a multiple
// of any convenient batch size (129, 300 of 300 as a single member; members 1..3 of 3 over 520): every assigned
// vBucket is requested exactly once, from all-zero values (no checkpoint, earliest), nothing outside the chunk.
func init() {
	scenarios["c02_manyvb"] = func(raw json.RawMessage) *vrt.Scenario {
		return &vrt.Scenario{Name: "c02_manyvb", FreeChoices: true, NoTimerAlt: true, MaxSteps: 5_000_000, Main: func() {
			resetGlobals()
			shape := [][3]int{{129, 1, 1}, {300, 1, 1}, {520, 1, 3}, {520, 2, 3}, {520, 3, 3}, {260, 2, 2}}[vrt.Choose(6, true, "vbuckets/member/total")]
			o := EnvOpts{Vbs: shape[0], CheckpointType: "manual", WrapMeta: true, MemberNumber: shape[1], Total: shape[2]}
			c := NewCluster(&o)
			e := NewEnv(c, o)
			e.Stream.Open()
			c.WaitIdle()
			per, rem := shape[0]/shape[2], shape[0]%shape[2]
			first := 0
			for m := 1; m < shape[1]; m++ {
				first += per
				if m <= rem {
					first++
				}
			}
			n := per
			if shape[1] <= rem {
				n++
			}
			count := map[uint16]int{}
			for _, r := range c.RequestsOf("openstream") {
				count[r.Vb]++
				if r.Args[2] != 0 || r.Args[1] != 0 {
					vrt.Failf("%d vBuckets, member %d/%d: vb%d requested from (vbuuid %d, seq %d), no checkpoint is stored", shape[0], shape[1], shape[2], r.Vb, r.Args[1], r.Args[2])
				}
			}
			missing, extra := 0, 0
			for vb := 0; vb < shape[0]; vb++ {
				in := vb >= first && vb < first+n
				switch {
				case in && count[uint16(vb)] != 1:
					missing++
				case !in && count[uint16(vb)] != 0:
					extra++
				}
			}
			if missing+extra > 0 {
				vrt.Failf("%d vBuckets, member %d/%d (assigned %d..%d): %d assigned vBuckets were not requested exactly once, %d foreign ones were requested", shape[0], shape[1], shape[2], first, first+n-1, missing, extra)
			}
			vrt.SetOutcome(fmt.Sprintf("%v", shape))
			e.Stream.Close(false)
		}}
	}
}
