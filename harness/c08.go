package main

import (
	"encoding/json"
	"fmt"
	"github.com/Trendyol/go-dcp/config"
	"math"
	"strings"

	"github.com/couchbase/gocbcore/v10"

	"verif/vrt"
)

// C08 — a server-requested rollback is honoured without replaying or skipping.
// Real stream.Open -> client.OpenStream -> openStreamWithRollback -> observer catch-up filter, with the
// simulated producer answering the first stream request of vb0 with ROLLBACK(R).

type RollbackParams struct {
	Fail string `json:"fail"` // "", "failoverlog", "reopen"
	// Finite: dcp.mode finite - the end of every request is the high seqno sampled at open
	Finite bool `json:"finite"`
}

type foShape struct{ starts []uint64 }

var foShapes = []foShape{
	{[]uint64{0}},
	{[]uint64{2, 0}}, {[]uint64{4, 0}}, {[]uint64{6, 0}},
	{[]uint64{4, 2, 0}}, {[]uint64{6, 2, 0}}, {[]uint64{6, 4, 0}},
}

func init() {
	scenarios["c08_rollback"] = func(raw json.RawMessage) *vrt.Scenario {
		var p RollbackParams
		_ = json.Unmarshal(raw, &p)
		sc := &vrt.Scenario{Name: "c08_rollback", Main: func() { rollbackMain(p) }, FreeChoices: true}
		if p.Fail != "" {
			sc.Classify = func(r *vrt.Result) []string {
				if r.Status == vrt.StatusCrash {
					return nil // start-up failed loudly, as required
				}
				if p.Fail == "rollback-again" && r.Status == vrt.StatusOK {
					return nil // (followed or not applicable: the scenario's own check decides)
				}
				return []string{"a vBucket that could not be reopened after the rollback did not fail the start-up (status " + r.Status.String() + ")"}
			}
		}
		return sc
	}
	register(&Property{
		ID:        "C08",
		Technique: "explicit enumeration of failover logs x checkpoint positions x rollback points x post-rollback scripts through the real client.OpenStream / openStreamWithRollback / observer catch-up filter",
		Rule:      "failover logs with 1..3 entries (starts from {0,2,4,6}), F in 1..8 at start/middle/end of its snapshot, every R in 0..F, five post-rollback scripts (none, all <= F, straddling F, a snapshot starting exactly at F, seqno-advanced/system event first at or above F), plus injected failure of the failover-log query and of the second open; non-trivial = distinct (second request, consumer log)",
		Assume:    []string{"the rollback answer and the post-rollback history are enumerated inputs (the server's rollback decision is not under test)"},
		Instances: func(tier string) []Instance {
			return []Instance{
				{Scenario: "c08_rollback", Params: mustJSON(RollbackParams{}), Bound: 0, Shards: 8},
				{Scenario: "c08_rollback", Params: mustJSON(RollbackParams{Finite: true}), Bound: 0, Shards: 8, Note: "finite mode: the re-request after the rollback has the same (bounded) end"},
				{Scenario: "c12_duringopen", Params: mustJSON(struct{}{}), Bound: 0, Shards: 4, Note: "a vBucket whose stream ends while the session is still starting (first start-up and the re-open after a rebalance) is re-requested, never silently left out"},
				{Scenario: "c08_endincatchup", Params: mustJSON(struct{}{}), Bound: 0, Note: "the re-requested stream ends transiently before it is back at the checkpointed position: re-opened like any other, nothing at or below F shown"},
				{Scenario: "c08_rollback", Params: mustJSON(RollbackParams{Fail: "failoverlog"}), Bound: 0, Shards: 2},
				{Scenario: "c08_rollback", Params: mustJSON(RollbackParams{Fail: "reopen"}), Bound: 0, Shards: 2},
				{Scenario: "c08_rollback", Params: mustJSON(RollbackParams{Fail: "rollback-again"}), Bound: 0, Shards: 4, Note: "the re-request is answered with a second rollback to a lower point: the start-up fails or the second rollback is followed - nothing at or below F is shown"},
				{Scenario: "c08_rollback", Params: mustJSON(RollbackParams{Fail: "failoverlog-silent"}), Bound: 0, Shards: 2, Note: "the failover-log query is never answered"},
				{Scenario: "c08_rollback", Params: mustJSON(RollbackParams{Fail: "reopen-silent"}), Bound: 0, Shards: 2, Note: "the second stream request is never answered"},
				{Scenario: "reopen_life", Params: mustJSON(LifeParams{Oracle: "tuple", Segs: 2, EarlySave: true}), Bound: 0, Shards: 8, Note: "a save BEFORE the branch changes and one after: the stored checkpoint carries the new branch's vbUUID"},
				{Scenario: "c07_gate", Params: mustJSON(MitigationParams{Replicas: 1, TransientEnd: true, RollbackAtEnd: true}), Bound: 0, Shards: 8, Note: "rollback mitigation on (the default): a re-open answered with a rollback while the copies are quiet - every document above F is still shown"},
				{Scenario: "c06_reopen", Params: mustJSON(struct{}{}), Bound: 0, Shards: 2, Note: "transient end, re-open answered with a rollback; mutations, deletions and expirations (small revision numbers) on the new branch"},
				{Scenario: "reopen_life", Params: mustJSON(LifeParams{Oracle: "delivery", Segs: 2, RetryAck: true}), Bound: 0, Shards: 8, Note: "the first re-open attempt is rejected and the consumer acknowledges its batch before the retry: the retry (and a rollback answered to it) starts from the position settled by then"},
				{Scenario: "reopen_life", Params: mustJSON(LifeParams{Oracle: "delivery", Segs: 2}), Bound: 0, Shards: 8, Note: "rollbacks answered to RE-opens of a running session, including a second rollback to the same position with no progress in between"},
			}
		},
	})
}

func rollbackMain(p RollbackParams) {
	resetGlobals()
	shape := foShapes[vrt.Choose(len(foShapes), true, "failover-log")]
	F := uint64(1 + vrt.Choose(8, true, "F"))
	R := uint64(vrt.Choose(int(F)+1, true, "R"))
	pos, script := 0, 2
	if p.Fail == "" { // failure injection does not depend on these
		pos = vrt.Choose(3, true, "F-in-snapshot")
		script = vrt.Choose(5, true, "post-script")
	}
	var s0, s1 uint64
	switch pos {
	case 0:
		s0, s1 = F, F+2
	case 1:
		s0, s1 = F-1, F+1
	default:
		s0, s1 = F, F
		if F >= 2 {
			s0 = F - 2
		}
	}
	o := EnvOpts{Vbs: 2, CheckpointType: "manual", WrapMeta: true}
	if p.Finite {
		o.Mode = config.DcpModeFinite
	}
	c := NewCluster(&o)
	const oldUUID = 900
	// old branch: the client has checkpointed F on it
	c.Vb[0].Failover = []gocbcore.FailoverEntry{{VbUUID: oldUUID, SeqNo: 0}}
	c.Append(0, marker(1, F+2))
	for s := uint64(1); s <= F+2; s++ {
		c.Append(0, symbolPacket("M", s))
	}
	seedCheckpoint(c, srcBucket, "g", 0, oldUUID, F, s0, s1)
	// new branch, returned by the failover-log query and by the second open
	var newFo []gocbcore.FailoverEntry
	for i, st := range shape.starts {
		newFo = append(newFo, gocbcore.FailoverEntry{VbUUID: gocbcore.VbUUID(100 + len(shape.starts) - i), SeqNo: gocbcore.SeqNo(st)})
	}
	var wantUUID gocbcore.VbUUID
	for _, fe := range newFo { // newest first: the first entry whose start <= R
		if uint64(fe.SeqNo) <= R {
			wantUUID = fe.VbUUID
			break
		}
	}
	// post-rollback history on the new branch (only seqnos > R are sent)
	var log []gocbcore.SimPacket
	kinds := "mutation"
	if p.Fail == "" {
		kinds = []string{"mutation", "deletion", "mixed"}[vrt.Choose(3, true, "kinds-on-the-new-branch")]
	}
	item := func(s uint64) gocbcore.SimPacket {
		k := kinds
		if k == "mixed" {
			k = []string{"deletion", "mutation", "expiration"}[s%3]
		}
		pk := docPacket(k, s, fmt.Sprintf("new%d", s), "after", 0)
		pk.RevNo = 1 + s%2 // realistic: revision numbers are small and unrelated to sequence numbers
		return pk
	}
	switch script {
	case 0:
	case 1:
		if R < F {
			log = append(log, marker(R+1, F))
			for s := R + 1; s <= F; s++ {
				log = append(log, item(s))
			}
		}
	case 2:
		log = append(log, marker(R+1, F+2))
		for s := R + 1; s <= F+2; s++ {
			log = append(log, item(s))
		}
	case 3:
		if R+1 <= F-1 {
			log = append(log, marker(R+1, F-1))
			for s := R + 1; s <= F-1; s++ {
				log = append(log, item(s))
			}
		}
		if R < F {
			log = append(log, marker(F, F), item(F))
		}
		log = append(log, marker(F+1, F+2), item(F+1), item(F+2))
	case 4:
		if R < F {
			log = append(log, marker(R+1, F))
			for s := R + 1; s < F; s++ {
				log = append(log, item(s))
			}
			log = append(log, symbolPacket("SEQ", F))
		}
		log = append(log, marker(F+1, F+3), symbolPacket("CC", F+1), item(F+2), item(F+3))
	}
	high := F + 3
	log = append(log, gocbcore.SimPacket{Kind: "marker", SnapStart: high + 1, SnapEnd: high + 1}, symbolPacket("SEQ", high+1))
	c.Vb[0].Opens = []gocbcore.SimOpen{{Kind: "rollback", Rollback: R, SwapLog: log, SwapFailover: newFo}}
	// the branch the re-opened stream reports (what offsets carry from then on): the newest entry of the log
	// that comes WITH the answer to the second request
	answeredUUID := newFo[0].VbUUID
	if p.Fail == "" && vrt.Choose(2, true, "another-fail-over-before-the-second-request-is-answered") == 1 {
		// the vBucket fails over once more between the fail-over-log query and the second stream request: the
		// requested (vbUUID, R) is still part of the history, the stream comes back on an even newer branch
		latest := append([]gocbcore.FailoverEntry{{VbUUID: 777, SeqNo: gocbcore.SeqNo(R)}}, newFo...)
		c.Vb[0].Opens = append(c.Vb[0].Opens, gocbcore.SimOpen{Kind: "ok", SwapFailover: latest})
		answeredUUID = 777
	}
	switch p.Fail {
	case "failoverlog":
		c.Fault = func(r *gocbcore.SimRequest) gocbcore.SimAnswer {
			if r.Kind == "failoverlog" {
				return gocbcore.SimAnswer{Kind: "err", Err: gocbcore.ErrTemporaryFailure}
			}
			return gocbcore.SimAnswer{}
		}
	case "reopen":
		c.Vb[0].Opens = append(c.Vb[0].Opens, gocbcore.SimOpen{Kind: "err", Err: gocbcore.ErrTemporaryFailure})
	case "failoverlog-silent":
		// the request is never answered: the library's own time-out has to fail the start-up
		c.Fault = func(r *gocbcore.SimRequest) gocbcore.SimAnswer {
			if r.Kind == "failoverlog" {
				return gocbcore.SimAnswer{Kind: "drop"}
			}
			return gocbcore.SimAnswer{}
		}
	case "reopen-silent":
		c.Vb[0].Opens = append(c.Vb[0].Opens, gocbcore.SimOpen{Kind: "drop"})
	case "rollback-again":
		// the re-request itself is answered with ANOTHER rollback, to a point below R (two fail-overs in a row):
		// the client may give up (the start-up fails) or follow it - but whatever it shows afterwards lies above F
		if R == 0 {
			vrt.SetOutcome("n/a")
			return
		}
		R2 := uint64(vrt.Choose(int(R), true, "second-rollback-point"))
		var log2 []gocbcore.SimPacket
		log2 = append(log2, marker(R2+1, F+2))
		for s := R2 + 1; s <= F+2; s++ {
			log2 = append(log2, docPacket("mutation", s, fmt.Sprintf("new%d", s), "after", 0))
		}
		c.Vb[0].Opens = append(c.Vb[0].Opens, gocbcore.SimOpen{Kind: "rollback", Rollback: R2, SwapLog: log2, SwapFailover: newFo})
	}
	c.Append(1, marker(1, 1), symbolPacket("M", 1))
	e := NewEnv(c, o)
	e.Cons.AutoAck = true
	e.Stream.Open()
	c.WaitIdle()
	if p.Fail == "rollback-again" {
		for _, d := range e.Cons.Events {
			if d.Vb == 0 && d.Seq <= F {
				vrt.Failf("failover=%v F=%d R=%d, the re-request answered with a second rollback: event seq %d (at or below the checkpointed position %d) was shown again", shape.starts, F, R, d.Seq, F)
			}
		}
		vrt.SetOutcome("followed")
		return
	}
	if p.Fail != "" {
		vrt.Failf("Open() returned although vb0 could not be reopened after the rollback")
		return
	}
	var reqs []*gocbcore.SimRequest
	for _, r := range c.RequestsOf("openstream") {
		if r.Vb == 0 {
			reqs = append(reqs, r)
		}
	}
	desc := fmt.Sprintf("failover=%v F=%d snap=[%d,%d] R=%d script=%d", shape.starts, F, s0, s1, R, script)
	if len(reqs) != 2 {
		vrt.Failf("%s: %d stream requests for vb0, want 2", desc, len(reqs))
		return
	}
	first, second := reqs[0].Args, reqs[1].Args
	if first[1] != oldUUID || first[2] != F || first[4] != s0 || first[5] != s1 {
		vrt.Failf("%s: first request %v does not name the stored checkpoint", desc, first)
	}
	want := []uint64{0, uint64(wantUUID), R, first[3], R, R}
	for i := range want {
		if second[i] != want[i] {
			vrt.Failf("%s: second request (flags,vbuuid,start,end,snapStart,snapEnd)=%v, want %v", desc, second[:6], want)
			break
		}
	}
	if !p.Finite && first[3] != math.MaxUint64 {
		vrt.Failf("%s: end of an infinite-mode request is %d", desc, first[3])
	}
	if p.Finite && first[3] != F+2 {
		vrt.Failf("%s: end of the finite-mode request is %d, the high seqno sampled at open is %d", desc, first[3], F+2)
	}
	// consumer: nothing at or below F, every document above F, offsets on the new branch
	var wantSeqs []uint64
	for _, pk := range log {
		if isDoc(pk.Kind) && pk.Seq > F && pk.Seq > R {
			if p.Finite && pk.Seq > first[3] {
				continue // beyond the end of the finite run
			}
			wantSeqs = append(wantSeqs, pk.Seq)
		}
	}
	var got []uint64
	for _, d := range e.Cons.Events {
		if d.Vb != 0 {
			continue
		}
		got = append(got, d.Seq)
		if d.Seq <= F {
			vrt.Failf("%s: event seq %d (at or below the checkpointed position %d) was shown again", desc, d.Seq, F)
		}
		if d.Offset.VbUUID != answeredUUID {
			vrt.Failf("%s: event seq %d carries vbUUID %d, the reopened stream is on branch %d (newest entry of the fail-over log that came with the answer)", desc, d.Seq, d.Offset.VbUUID, answeredUUID)
		}
		if d.Key != fmt.Sprintf("new%d", d.Seq) {
			vrt.Failf("%s: event seq %d has key %q (old branch content)", desc, d.Seq, d.Key)
		}
	}
	if fmt.Sprint(got) != fmt.Sprint(wantSeqs) {
		vrt.Failf("%s: consumer saw %v, want every document above F: %v", desc, got, wantSeqs)
	}
	// the other vBucket is untouched
	n1 := 0
	for _, d := range e.Cons.Events {
		if d.Vb == 1 {
			n1++
		}
	}
	if n1 != 1 {
		vrt.Failf("%s: vb1 delivered %d events, want 1", desc, n1)
	}
	// positions issued from now on are on the new branch
	if offs, _, _ := e.Stream.GetOffsets(); true {
		if o0, ok := offs.Load(0); ok && o0.SeqNo > F && o0.VbUUID != answeredUUID {
			vrt.Failf("%s: tracked offset after the rollback carries vbUUID %d", desc, o0.VbUUID)
		}
	}
	vrt.SetOutcome(fmt.Sprintf("%v|%v", second[:6], got))
}

// c06_reopen: a stream that has been running ends with a transient cause; the re-open is answered with a
// rollback, so the SAME observer (with its old snapshot) goes through the catch-up phase on a new branch.
// Every offset handed out afterwards must carry the snapshot the server announced for that very event on
// the new branch, and an item outside its announced snapshot must stop the client.
func init() {
	scenarios["c06_reopen"] = func(raw json.RawMessage) *vrt.Scenario {
		return &vrt.Scenario{Name: "c06_reopen", Main: reopenRollbackMain, FreeChoices: true, Classify: func(r *vrt.Result) []string {
			if strings.Contains(r.Outcome, "expect-crash") {
				if r.Status == vrt.StatusCrash && strings.Contains(r.Crash.Value, "not in snapshot") {
					return nil
				}
				return []string{"an item outside its announced snapshot (after re-open with rollback) did not stop the client: status " + r.Status.String()}
			}
			if r.Status != vrt.StatusOK {
				m := "status " + r.Status.String()
				if r.Crash != nil {
					m += ": " + r.Crash.Value
				}
				return []string{m}
			}
			return nil
		}}
	}
}

func reopenRollbackMain() {
	resetGlobals()
	const F = 5
	R := uint64(vrt.Choose(F+1, true, "R"))
	layout := vrt.Choose(4, true, "new-branch-layout")
	malformed := vrt.Choose(2, true, "malformed") == 1
	kinds := []string{"mutation", "deletion", "expiration", "mixed"}[vrt.Choose(4, true, "kinds-on-the-new-branch")]
	o := EnvOpts{Vbs: 1, CheckpointType: "manual", WrapMeta: true}
	c := NewCluster(&o)
	const oldUUID, newUUID = 900, 901
	c.Vb[0].Failover = []gocbcore.FailoverEntry{{VbUUID: oldUUID, SeqNo: 0}}
	c.Append(0, marker(1, 100))
	for s := uint64(1); s <= F; s++ {
		c.Append(0, symbolPacket("M", s))
	}
	e := NewEnv(c, o)
	e.Cons.AutoAck = true
	e.Stream.Open()
	c.WaitIdle()
	if len(e.Cons.Events) != F {
		vrt.Failf("harness: %d events", len(e.Cons.Events))
		return
	}
	item := func(s uint64) gocbcore.SimPacket {
		k := kinds
		if k == "mixed" {
			k = []string{"deletion", "mutation", "expiration"}[s%3]
		}
		p := docPacket(k, s, fmt.Sprintf("new%d", s), "after", 0)
		p.RevNo = 1 + s%2 // realistic: revision numbers are small and unrelated to sequence numbers
		return p
	}
	type snap struct{ a, b uint64 }
	announced := map[uint64]snap{}
	var log []gocbcore.SimPacket
	addSnap := func(a, b uint64, items ...uint64) {
		log = append(log, marker(a, b))
		for _, s := range items {
			log = append(log, item(s))
			announced[s] = snap{a, b}
		}
	}
	switch layout {
	case 0: // one snapshot straddling F
		var its []uint64
		for s := R + 1; s <= F+3; s++ {
			its = append(its, s)
		}
		addSnap(R+1, F+3, its...)
	case 1: // a snapshot ending exactly at F, then a new one
		if R < F {
			var its []uint64
			for s := R + 1; s <= F; s++ {
				its = append(its, s)
			}
			addSnap(R+1, F, its...)
		}
		addSnap(F+1, F+2, F+1, F+2)
	case 2: // a snapshot starting exactly at F
		if R+1 <= F-1 {
			var its []uint64
			for s := R + 1; s <= F-1; s++ {
				its = append(its, s)
			}
			addSnap(R+1, F-1, its...)
		}
		if R < F {
			addSnap(F, F+1, F, F+1)
		} else {
			addSnap(F+1, F+1, F+1)
		}
		addSnap(F+2, F+9, F+4)
	case 3: // sparse: wide snapshot below F with no items, then items above
		if R+1 <= F {
			addSnap(R+1, F)
		}
		addSnap(F+1, F+20, F+7, F+20)
	}
	outcome := fmt.Sprintf("R=%d layout=%d kinds=%s", R, layout, kinds)
	if malformed {
		// an item beyond the last announced snapshot but inside the OLD stream's [1,100]
		last := log[len(log)-1]
		bad := item(last.Seq + 30)
		bad.Raw = true
		log = append(log, bad)
		outcome += " expect-crash"
	}
	vrt.SetOutcome(outcome)
	c.Vb[0].Opens = []gocbcore.SimOpen{{Kind: "rollback", Rollback: R, SwapLog: log, SwapFailover: []gocbcore.FailoverEntry{{VbUUID: newUUID, SeqNo: 0}}}}
	before := len(e.Cons.Events)
	c.EndStream(0, gocbcore.ErrDCPStreamStateChanged)
	vrt.Sleep(3e9)
	vrt.Quiesce()
	c.WaitIdle()
	for _, d := range e.Cons.Events[before:] {
		if d.Seq <= F {
			vrt.Failf("%s: event %d at or below the position already reached was shown again", outcome, d.Seq)
		}
		want, ok := announced[d.Seq]
		if !ok {
			vrt.Failf("%s: event %d was never sent on the new branch", outcome, d.Seq)
			continue
		}
		if d.Snap != [2]uint64{want.a, want.b} || uint64(d.Offset.VbUUID) != newUUID || d.Offset.SeqNo != d.Seq {
			vrt.Failf("%s: event %d carries offset (snap %v, vbUUID %d, seq %d); the server announced snapshot [%d,%d] on branch %d", outcome, d.Seq, d.Snap, d.Offset.VbUUID, d.Offset.SeqNo, want.a, want.b, newUUID)
		}
		if !(d.Snap[0] <= d.Seq && d.Seq <= d.Snap[1]) {
			vrt.Failf("%s: event %d offset violates snapStart <= seq <= snapEnd: %v", outcome, d.Seq, d.Snap)
		}
	}
	var wantSeqs, got []uint64
	for _, pk := range log {
		if isDoc(pk.Kind) && pk.Seq > F && !pk.Raw {
			wantSeqs = append(wantSeqs, pk.Seq)
		}
	}
	for _, d := range e.Cons.Events[before:] {
		got = append(got, d.Seq)
	}
	if !malformed && fmt.Sprint(got) != fmt.Sprint(wantSeqs) {
		vrt.Failf("%s: after the re-open the consumer saw %v, want %v", outcome, got, wantSeqs)
	}
	if malformed {
		vrt.Failf("%s: an item outside its announced snapshot did not stop the client", outcome)
	}
}

// c08_endincatchup: the stream that was re-requested after a rollback ends with a transient cause BEFORE it is
// back at the position F the client had checkpointed (the catch-up filter is still armed). The end is a
// transient end like any other: the vBucket is re-opened, nothing at or below F is shown, everything above F is.
func init() {
	scenarios["c08_endincatchup"] = func(raw json.RawMessage) *vrt.Scenario {
		return &vrt.Scenario{Name: "c08_endincatchup", FreeChoices: true, NoTimerAlt: true, MaxSteps: 400000, Main: func() {
			resetGlobals()
			const F, oldUUID, newUUID = 5, 900, 901
			R := uint64(vrt.Choose(F-1, true, "R")) // 0..F-2: at least one event to catch up on before the end
			sent := R + 1 + uint64(vrt.Choose(int(F-1-R), true, "sent-before-the-end"))
			causes := []error{gocbcore.ErrSocketClosed, gocbcore.ErrDCPBackfillFailed, gocbcore.ErrDCPStreamStateChanged, gocbcore.ErrDCPStreamTooSlow, gocbcore.ErrDCPStreamDisconnected}
			cause := causes[vrt.Choose(len(causes), true, "cause")]
			o := EnvOpts{Vbs: 2, CheckpointType: "manual", WrapMeta: true}
			c := NewCluster(&o)
			c.Vb[0].Failover = []gocbcore.FailoverEntry{{VbUUID: oldUUID, SeqNo: 0}}
			c.Append(0, marker(1, F+2))
			for s := uint64(1); s <= F+2; s++ {
				c.Append(0, symbolPacket("M", s))
			}
			seedCheckpoint(c, srcBucket, "g", 0, oldUUID, F, F, F+2)
			item := func(s uint64) gocbcore.SimPacket {
				return docPacket("mutation", s, fmt.Sprintf("new%d", s), "after", 0)
			}
			log := []gocbcore.SimPacket{marker(R+1, F+2)}
			for s := R + 1; s <= sent; s++ {
				log = append(log, item(s))
			}
			c.Vb[0].Opens = []gocbcore.SimOpen{{Kind: "rollback", Rollback: R, SwapLog: log, SwapFailover: []gocbcore.FailoverEntry{{VbUUID: newUUID, SeqNo: 0}}}}
			c.Append(1, marker(1, 1), symbolPacket("M", 1))
			e := NewEnv(c, o)
			e.Cons.AutoAck = true
			e.Stream.Open()
			c.WaitIdle()
			desc := fmt.Sprintf("checkpoint F=%d, rollback to R=%d, the new branch has sent %d..%d when the stream ends (%v)", F, R, R+1, sent, cause)
			if !c.EndStream(0, cause) {
				vrt.Failf("harness: %s: no open stream", desc)
				return
			}
			for s := sent + 1; s <= F+2; s++ {
				c.Append(0, item(s))
			}
			vrt.Sleep(3e9)
			vrt.Quiesce()
			c.WaitIdle()
			if !c.StreamOpen(0) {
				_, active := e.Stream.GetMetric()
				vrt.Failf("%s: vb0 was not re-opened and the client keeps running without it (active streams %d)", desc, active)
			}
			var got []uint64
			for _, d := range e.Cons.Events {
				if d.Vb == 0 {
					got = append(got, d.Seq)
					if d.Seq <= F {
						vrt.Failf("%s: event seq %d (at or below the checkpointed position) was shown again", desc, d.Seq)
					}
				}
			}
			if fmt.Sprint(got) != fmt.Sprint([]uint64{F + 1, F + 2}) {
				vrt.Failf("%s: consumer saw %v of vb0, want [%d %d]", desc, got, F+1, F+2)
			}
			vrt.SetOutcome(desc)
		}}
	}
}
