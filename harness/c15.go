package main

import (
	"encoding/json"
	"fmt"
	dcp "github.com/Trendyol/go-dcp"
	"os"
	"strings"
	"time"

	"github.com/Trendyol/go-dcp/config"
	"github.com/couchbase/gocbcore/v10"
	"github.com/couchbase/gocbcore/v10/memd"

	"verif/vrt"
)

// C15 — start-up fails fast instead of running on an inconsistent or partial basis.

type StartParams struct {
	Reset       string `json:"reset"`
	Mode        string `json:"mode"`
	PartialFile bool   `json:"partial_file"` // file backend whose file holds only vb0 although vb0..1 are assigned
	NoActive    bool   `json:"no_active"`
	// Mitigation: rollback mitigation is on: its own start-up requests (fail-over logs) are start-up requests;
	// its periodic persistence polls are not (errors there are tolerated by design, C07)
	Mitigation bool `json:"mitigation"`
}

type TypeParams struct {
	Which string `json:"which"`
}

func init() {
	scenarios["c15_start"] = func(raw json.RawMessage) *vrt.Scenario {
		var p StartParams
		_ = json.Unmarshal(raw, &p)
		return &vrt.Scenario{Name: "c15_start", Main: func() { startMain(p) }, FreeChoices: true, MaxSteps: 200000, NoTimerAlt: true, Classify: startClassify}
	}
	scenarios["c15_types"] = func(raw json.RawMessage) *vrt.Scenario {
		var p TypeParams
		_ = json.Unmarshal(raw, &p)
		return &vrt.Scenario{Name: "c15_types", Main: func() { typesMain(p) }, FreeChoices: true, MaxSteps: 200000, NoTimerAlt: true, Classify: func(r *vrt.Result) []string {
			if p.Which == "valid" {
				if r.Status != vrt.StatusOK {
					return []string{"valid configuration did not start: " + r.Status.String()}
				}
				return nil
			}
			if r.Status == vrt.StatusCrash || strings.Contains(r.Outcome, "error-returned") {
				return nil
			}
			return []string{fmt.Sprintf("invalid %s did not terminate the client (status %s, outcome %s)", p.Which, r.Status, r.Outcome)}
		}}
	}
	register(&Property{
		ID:        "C15",
		Technique: "exhaustive enumeration of checkpoint/high-seqno relations per vBucket x deviation-bounded fault injection (every request of the start-up may get an error status, a synchronous dispatch error or no answer; up to the bound of simultaneous faults) through the real Open/Load/openAllStreams, with process death observed as a captured panic",
		Rule:      "checkpoint of each of 2 vBuckets in {none, below, equal, above} its high seqno x auto-reset x mode; faults: default = healthy server, each non-default answer to any start-up request costs one deviation, all combinations within the bound; type switches: invalid metadata / membership / leader-election types through the real Dcp.Start; non-trivial = distinct (fault set, outcome)",
		Assume:    []string{"fail-stop = panic on a library goroutine (process exit) captured by the scheduler", "KeyNotFound on a checkpoint read is the regular 'no checkpoint' outcome"},
		Instances: func(tier string) []Instance {
			b := 1
			if tier == "thorough" {
				b = 2
			}
			var out []Instance
			for _, reset := range []string{"earliest", "latest"} {
				for _, mode := range []string{"infinite", "finite"} {
					out = append(out, Instance{Scenario: "c15_start", Params: mustJSON(StartParams{Reset: reset, Mode: mode}), Bound: b, Shards: 4})
				}
			}
			out = append(out, Instance{Scenario: "c15_start", Params: mustJSON(StartParams{Reset: "earliest", Mode: "infinite", PartialFile: true}), Bound: 0})
			for _, mode := range []string{"infinite", "finite"} {
				out = append(out, Instance{Scenario: "c15_start", Params: mustJSON(StartParams{Reset: "earliest", Mode: mode, NoActive: true}), Bound: 0, Note: "an assigned vBucket has no active copy: the sequence-number answers succeed but do not cover it"})
			}
			out = append(out, Instance{Scenario: "c15_start", Params: mustJSON(StartParams{Reset: "earliest", Mode: "infinite", Mitigation: true}), Bound: 1, Shards: 4, Note: "rollback mitigation on (the default): the fail-over-log queries it issues when the session starts are start-up requests too"})
			out = append(out, Instance{Scenario: "c12_duringopen", Params: mustJSON(struct{}{}), Bound: b, Shards: 4, Note: "a started session never silently covers only part of the assignment: a stream ending while Open() still waits for another vBucket is re-opened or counted"})
			out = append(out, Instance{Scenario: "c15_reopen_fault", Params: mustJSON(struct{}{}), Bound: 0, Note: "load failures at the start-up that ends a rebalance"})
			out = append(out, Instance{Scenario: "c08_endincatchup", Params: mustJSON(struct{}{}), Bound: 0, Note: "a transient end while the stream catches up after a rollback is re-opened (or fatal after the bounded retries) - never a session that silently goes on without the vBucket"})
			out = append(out, Instance{Scenario: "reopen_life", Params: mustJSON(LifeParams{Oracle: "delivery", Segs: 1, RetryAck: true}), Bound: 0, Shards: 4, Note: "a rejected first re-open attempt, acknowledgements and a successful save during the pause: the loop carries on and the vBucket is re-opened (never a session that goes on without it)"})
			out = append(out, Instance{Scenario: "c15_finite_reopenfail", Params: mustJSON(struct{}{}), Bound: 0, Note: "finite mode: a vBucket in its re-open loop while the others reach their end bound - the run completes with it or fails, never without it"})
			out = append(out, Instance{Scenario: "c15_slowfail", Params: mustJSON(struct{}{}), Bound: b, Shards: 4, Note: "the failing stream request is the last one to complete: every schedule within the bound"})
			out = append(out, Instance{Scenario: "c02_sessions", Params: mustJSON(SessionsParams{ReadOnly: true, Flushed: true}), Bound: 0, Shards: 2, Note: "read-only metadata, second / third session of one process: a checkpoint that lies beyond the high seqno when the vBucket is (re-)assigned terminates the client - loads are fresh reads also for gained vBuckets"})
			out = append(out, Instance{Scenario: "c12_reopenfail", Params: mustJSON(ReopenFailParams{Failures: 5}), Bound: 0, Note: "a vBucket that cannot be re-opened after the bounded retries terminates the client"})
			out = append(out, Instance{Scenario: "c12_reopenfail", Params: mustJSON(ReopenFailParams{Failures: 4}), Bound: 0, Note: "four failed attempts and a successful fifth: streaming continues"})
			for _, w := range []string{"valid", "metadata", "membership", "leaderelection", "placeholder"} {
				out = append(out, Instance{Scenario: "c15_types", Params: mustJSON(TypeParams{Which: w}), Bound: 0})
			}
			return out
		},
	})
}

// outcome grammar: "expectfail=<bool>|ready=<bool>|..."
func startClassify(r *vrt.Result) []string {
	expectFail := strings.Contains(r.Outcome, "expectfail=true")
	for _, l := range r.Log {
		if strings.HasPrefix(l, "FAULT ") || strings.HasPrefix(l, "AHEAD ") {
			expectFail = true
		}
	}
	ready := false
	for _, l := range r.Log {
		if strings.HasPrefix(l, "handler ASStart") {
			ready = true
		}
	}
	var msgs []string
	mitigation := false
	for _, l := range r.Log {
		if l == "MITIGATION" {
			mitigation = true
		}
	}
	if expectFail && mitigation {
		// rollback mitigation loads its fail-over logs on its own thread while the session starts: the session may
		// signal readiness first - what matters is that the failure terminates the client
		if r.Status != vrt.StatusCrash {
			msgs = append(msgs, fmt.Sprintf("start-up met %s but the client was not terminated (status %s, ready=%v)", describeFaults(r.Log), r.Status, ready))
		}
		r.Failures = nil
		return msgs
	}
	if expectFail {
		if ready {
			msgs = append(msgs, "the client signalled readiness although the start-up met "+describeFaults(r.Log))
		} else if r.Status != vrt.StatusCrash {
			msgs = append(msgs, fmt.Sprintf("start-up met %s but the client neither became ready nor terminated (status %s)", describeFaults(r.Log), r.Status))
		}
	} else {
		if r.Status != vrt.StatusOK {
			m := "a healthy start-up did not complete: status " + r.Status.String()
			if r.Crash != nil {
				m += ": " + r.Crash.Value
			}
			msgs = append(msgs, m)
		} else if !ready {
			msgs = append(msgs, "a healthy start-up never signalled readiness")
		}
	}
	return msgs
}

func describeFaults(log []string) string {
	var f []string
	for _, l := range log {
		if strings.HasPrefix(l, "FAULT ") || strings.HasPrefix(l, "AHEAD ") {
			f = append(f, l)
		}
	}
	return strings.Join(f, ", ")
}

func startMain(p StartParams) {
	resetGlobals()
	o := EnvOpts{Vbs: 2, Nodes: 2, CheckpointType: "manual", AutoReset: p.Reset, Mode: config.DcpMode(p.Mode), WrapMeta: true, Mitigation: p.Mitigation}
	if p.PartialFile {
		f, _ := os.CreateTemp("", "c15*.json")
		f.WriteString(`{"0":{"checkpoint":{"vbuuid":1000,"seqno":2,"snapshot":{"startSeqno":1,"endSeqno":5}},"bucketUuid":"uuid-src"}}`)
		f.Close()
		defer os.Remove(f.Name())
		o.Metadata, o.FileName = "file", f.Name()
		vrt.Logf("AHEAD-LIKE")
		vrt.Logf("FAULT checkpoint store covers only vb0 of the assigned vb0..1")
	}
	if p.Mitigation {
		vrt.Logf("MITIGATION")
	}
	c := NewCluster(&o)
	if p.NoActive {
		// vb1 has no active copy at the moment (hard fail-over in progress): the per-node sequence-number
		// answers do not contain it, a stream for it cannot be opened
		nm := make([][]int, len(c.VbMap))
		for i := range c.VbMap {
			nm[i] = append([]int{}, c.VbMap[i]...)
		}
		nm[1][0] = -1
		c.VbMap = nm
		vrt.Logf("FAULT vb1 has no active copy: the sequence-number answers do not cover it")
	}
	highs := []uint64{5, 9}
	rel := []string{"none", "below", "equal", "above"}
	var rels []string
	for vb := uint16(0); vb < 2; vb++ {
		c.Append(vb, marker(1, highs[vb]))
		for s := uint64(1); s <= highs[vb]; s++ {
			c.Append(vb, symbolPacket("M", s))
		}
		r := "none"
		if !p.PartialFile {
			r = rel[vrt.Choose(4, true, "checkpoint-vs-high")]
		}
		rels = append(rels, r)
		switch r {
		case "below":
			seedCheckpoint(c, srcBucket, "g", vb, uint64(c.Vb[vb].Failover[0].VbUUID), highs[vb]-2, 1, highs[vb])
		case "equal":
			seedCheckpoint(c, srcBucket, "g", vb, uint64(c.Vb[vb].Failover[0].VbUUID), highs[vb], 1, highs[vb])
		case "above":
			seedCheckpoint(c, srcBucket, "g", vb, uint64(c.Vb[vb].Failover[0].VbUUID), highs[vb]+3, 1, highs[vb]+5)
			vrt.Logf("AHEAD vb%d checkpoint %d beyond high seqno %d", vb, highs[vb]+3, highs[vb])
		}
	}
	e := NewEnv(c, o)
	e.Cons.AutoAck = true
	n0 := len(c.Requests)
	c.DispatchFault = func(r *gocbcore.SimRequest) error {
		if r.Kind == "vbseqnos" || r.Kind == "openstream" || r.Kind == "lookupin" || r.Kind == "failoverlog" {
			if vrt.Choose(2, false, "dispatch:"+r.Kind) == 1 {
				vrt.Logf("FAULT dispatch-error %s vb%d", r.Kind, r.Vb)
				return gocbcore.ErrShutdown
			}
		}
		return nil
	}
	c.Fault = func(r *gocbcore.SimRequest) gocbcore.SimAnswer {
		if r.ID <= n0 || r.Kind == "observevb" {
			return gocbcore.SimAnswer{}
		}
		switch vrt.Choose(3, false, "answer:"+r.Kind) {
		case 1:
			vrt.Logf("FAULT error-status %s vb%d", r.Kind, r.Vb)
			return gocbcore.SimAnswer{Kind: "err", Err: &gocbcore.KeyValueError{InnerError: gocbcore.ErrTemporaryFailure, StatusCode: memd.StatusTmpFail}}
		case 2:
			vrt.Logf("FAULT silent %s vb%d", r.Kind, r.Vb)
			return gocbcore.SimAnswer{Kind: "drop"}
		}
		return gocbcore.SimAnswer{}
	}
	c.OnDispatch = func(r *gocbcore.SimRequest) {
		if r.Kind == "openstream" && r.Args[2] > highs[r.Vb] {
			vrt.Failf("vb%d was requested from %d, a position beyond its high seqno %d that the server has not reached", r.Vb, r.Args[2], highs[r.Vb])
		}
		if r.Kind == "openstream" && r.Args[2] > 0 {
			// (C06) a request that names a position names the history branch it lies on: a vbUUID from the
			// vBucket's fail-over log, never a made-up one
			known := false
			for _, fe := range c.Vb[r.Vb].Failover {
				if uint64(fe.VbUUID) == r.Args[1] {
					known = true
				}
			}
			if !known {
				vrt.Failf("vb%d was requested from position %d (snapshot [%d,%d]) under vbUUID %d, which is not a branch of this vBucket (fail-over log %v): the offset is a mixture", r.Vb, r.Args[2], r.Args[4], r.Args[5], r.Args[1], c.Vb[r.Vb].Failover)
			}
		}
	}
	vrt.SetOutcome(fmt.Sprintf("%v", rels))
	e.Stream.Open()
	c.DispatchFault, c.Fault = nil, nil
	vrt.Quiesce()
	c.WaitIdle()
	if p.Mitigation {
		vrt.Sleep(3 * time.Minute) // an unanswered request of the mitigation's own start-up runs into its time-out
		vrt.Quiesce()
	}
	// ready: every assigned vBucket must be served, and no request may start beyond the high seqno
	for _, r := range c.RequestsOf("openstream") {
		if r.Args[2] > highs[r.Vb] {
			vrt.Failf("vb%d was requested from %d, beyond its high seqno %d", r.Vb, r.Args[2], highs[r.Vb])
		}
	}
	for vb := uint16(0); vb < 2; vb++ {
		opened := false
		for _, r := range c.RequestsOf("openstream") {
			if r.Vb == vb && r.Answer == "ok" && r.Err == nil {
				opened = true
			}
		}
		if !opened {
			vrt.Failf("the session is ready but vb%d has no open stream (partial assignment)", vb)
		}
	}
	// the running session delivers what is above the checkpoints
	want := 0
	for vb, r := range rels {
		switch r {
		case "none":
			if p.Reset == "latest" && rels[0] == "none" && rels[1] == "none" {
				want += 0
			} else {
				want += int(highs[vb])
			}
		case "below":
			want += 2
		}
	}
	if len(e.Cons.Events) != want {
		vrt.Failf("ready session delivered %d events, want %d for checkpoints %v", len(e.Cons.Events), want, rels)
	}
	vrt.SetOutcome(fmt.Sprintf("%v|delivered=%d", rels, len(e.Cons.Events)))
}

func typesMain(p TypeParams) {
	resetGlobals()
	o := DcpOpts{}
	o.Vbs = 2
	o.CheckpointType = "manual"
	c := NewCluster(&o.EnvOpts)
	o.Tweak = func(cfg *config.Dcp) {
		switch p.Which {
		case "metadata":
			cfg.Metadata.Type = []string{"redis", "Couchbase", "files"}[vrt.Choose(3, true, "bad-type")]
		case "membership":
			cfg.Dcp.Group.Membership.Type = []string{"zookeeper", "Static", "kubernetes"}[vrt.Choose(3, true, "bad-type")]
		case "placeholder":
			// the type switches are written as ${VAR} placeholders in a configuration FILE and the variables are
			// not set: what the real loader makes of them is what Start() gets
			os.Unsetenv("C15_UNSET_TYPE")
			f, _ := os.CreateTemp("", "c15*.yml")
			which := vrt.Choose(2, true, "placeholder-in")
			yml := "hosts:\n  - \"h:8091\"\nusername: u\npassword: p\nbucketName: b\n"
			if which == 0 {
				yml += "metadata:\n  type: \"${C15_UNSET_TYPE}\"\n"
			} else {
				yml += "dcp:\n  group:\n    name: g\n    membership:\n      type: \"${C15_UNSET_TYPE}\"\n"
			}
			f.WriteString(yml)
			f.Close()
			loaded, err := dcp.VerifNewDcpConfig(f.Name())
			os.Remove(f.Name())
			if err != nil {
				panic(err) // a loader that rejects the file terminates the start-up as well
			}
			if which == 0 {
				cfg.Metadata.Type = loaded.Metadata.Type
			} else {
				cfg.Dcp.Group.Membership.Type = loaded.Dcp.Group.Membership.Type
			}
		case "leaderelection":
			cfg.LeaderElection.Enabled = true
			cfg.LeaderElection.Type = []string{"consul", "Kubernetes"}[vrt.Choose(2, true, "bad-type")]
		}
	}
	e := NewDcpEnv(c, o)
	if e.Err != nil {
		vrt.SetOutcome("error-returned:" + e.Err.Error())
		return
	}
	e.StartNoWait()
	vrt.Sleep(5e9)
	vrt.Quiesce()
	ready := false
	for _, l := range e.EH.Log {
		if l == "ASStart" {
			ready = true
		}
	}
	if p.Which == "valid" {
		if !ready {
			vrt.Failf("valid configuration never became ready")
		}
		e.D.Close()
		vrt.Block("closed", func() bool { return e.Done })
		vrt.SetOutcome("ready")
		return
	}
	if ready || len(c.RequestsOf("openstream")) > 0 {
		vrt.Failf("invalid %s type: the client started streaming", p.Which)
	}
	vrt.SetOutcome("still-running")
}

// c15_slowfail: the stream request of one assigned vBucket is never answered, so its failure (the client's
// own time-out) is the LAST of the opens to complete; every schedule within the bound of the opener
// goroutines and the thread waiting in Open(). The start-up must terminate - never report a started session
// that covers only part of the assignment.
func init() {
	scenarios["c15_slowfail"] = func(raw json.RawMessage) *vrt.Scenario {
		return &vrt.Scenario{Name: "c15_slowfail", FreeChoices: true, NoTimerAlt: true, MaxSteps: 400000, Main: func() {
			resetGlobals()
			o := EnvOpts{Vbs: 3, Nodes: 2, CheckpointType: "manual", WrapMeta: true}
			c := NewCluster(&o)
			victim := uint16(vrt.Choose(3, true, "unanswered-vb"))
			kind := vrt.Choose(2, true, "failure")
			c.Fault = func(r *gocbcore.SimRequest) gocbcore.SimAnswer {
				if r.Kind == "openstream" && r.Vb == victim {
					if kind == 0 {
						return gocbcore.SimAnswer{Kind: "drop"}
					}
					return gocbcore.SimAnswer{Kind: "err", Err: &gocbcore.KeyValueError{InnerError: gocbcore.ErrTemporaryFailure, StatusCode: memd.StatusTmpFail}}
				}
				return gocbcore.SimAnswer{}
			}
			e := NewEnv(c, o)
			vrt.SetOutcome(fmt.Sprintf("vb%d %v", victim, kind))
			vrt.Window(true)
			e.Stream.Open()
			vrt.Window(false)
			vrt.Failf("the stream request of vb%d %s, yet Open() returned and the session counts as started (streams open on the server: vb0=%v vb1=%v vb2=%v)",
				victim, []string{"was never answered", "was rejected"}[kind], c.StreamOpen(0), c.StreamOpen(1), c.StreamOpen(2))
		}, Classify: func(r *vrt.Result) []string {
			if r.Status == vrt.StatusCrash {
				return nil
			}
			if r.Status == vrt.StatusOK {
				return nil // the Failf above carries the message
			}
			return []string{"start-up neither terminated nor started: status " + r.Status.String() + "; blocked: " + strings.Join(r.Blocked, " | ")}
		}}
	}
}

// c15_reopen_fault: the start-up that ends a real Rebalance() (second session of the process) meets a
// failure while loading checkpoints / vBucket sequence numbers: the client terminates exactly as on the
// first start-up - it does not go on running with no (or only part of its) streams.
func init() {
	scenarios["c15_reopen_fault"] = func(raw json.RawMessage) *vrt.Scenario {
		return &vrt.Scenario{Name: "c15_reopen_fault", FreeChoices: true, NoTimerAlt: true, MaxSteps: 400000, Main: func() {
			resetGlobals()
			o := EnvOpts{Vbs: 2, Nodes: 2, CheckpointType: "manual", WrapMeta: true, RebalanceDelay: time.Second}
			c := NewCluster(&o)
			c.Append(0, marker(1, 1), symbolPacket("M", 1))
			e := NewEnv(c, o)
			e.Cons.AutoAck = true
			e.Stream.Open()
			c.WaitIdle()
			what := vrt.Choose(4, true, "fault")
			// (closestream: the close request of a vBucket is rejected when the rebalance closes the session, the
			// stream stays open at the server and the stream request of the next session is refused with "exists")
			kind := []string{"lookupin", "vbseqnos", "failoverlog", "closestream"}[what]
			how := vrt.Choose(2, true, "answer")
			armed := false
			c.Fault = func(r *gocbcore.SimRequest) gocbcore.SimAnswer {
				if armed && r.Kind == kind {
					armed = false
					if how == 0 {
						return gocbcore.SimAnswer{Kind: "err", Err: &gocbcore.KeyValueError{InnerError: gocbcore.ErrTemporaryFailure, StatusCode: memd.StatusTmpFail}}
					}
					return gocbcore.SimAnswer{Kind: "drop"}
				}
				return gocbcore.SimAnswer{}
			}
			if kind == "closestream" && how == 1 {
				return // (a close request that is never answered: C13 / C18)
			}
			desc := fmt.Sprintf("re-open after a rebalance: a %s request is %s", kind, []string{"rejected", "never answered"}[how])
			vrt.SetOutcome(desc)
			armed = true
			e.Stream.Rebalance()
			vrt.Sleep(3 * time.Minute)
			vrt.Quiesce()
			if kind == "failoverlog" && !armed {
				// (only asked on the rollback path: not reached here)
			}
			if armed {
				return // the request kind does not occur in a re-open: nothing was injected
			}
			vrt.Failf("%s, yet the client keeps running (stream open=%v, streams on the server: vb0=%v vb1=%v)", desc, e.Stream.IsOpen(), c.StreamOpen(0), c.StreamOpen(1))
		}, Classify: func(r *vrt.Result) []string {
			if r.Status == vrt.StatusCrash || r.Status == vrt.StatusOK {
				return nil
			}
			return []string{"neither terminated nor running: status " + r.Status.String() + "; blocked: " + strings.Join(r.Blocked, " | ")}
		}}
	}
}

// c15_finite_reopenfail: finite mode; vb1 ends transiently right behind its last item and its re-open is rejected 2 or 5
// times while vb0 reaches its end bound. The run either completes with every event of vb1 delivered (the third
// attempt succeeds) or terminates with an error after the bounded retries - it never "completes" while vb1 is
// still in its re-open loop.
func init() {
	scenarios["c15_finite_reopenfail"] = func(raw json.RawMessage) *vrt.Scenario {
		return &vrt.Scenario{Name: "c15_finite_reopenfail", FreeChoices: true, NoTimerAlt: true, MaxSteps: 400000, Main: func() {
			resetGlobals()
			fails := []int{2, 5}[vrt.Choose(2, true, "rejected-re-open-attempts")]
			o := EnvOpts{Vbs: 2, CheckpointType: "manual", Mode: config.DcpModeFinite, WrapMeta: true}
			c := NewCluster(&o)
			for vb := uint16(0); vb < 2; vb++ {
				c.Append(vb, marker(1, 3), symbolPacket("M", 1), symbolPacket("M", 2), symbolPacket("M", 3))
			}
			e := NewEnv(c, o)
			e.Cons.AutoAck = true
			// (the connection of vb1 breaks right behind its last item: a transient end at the end bound; the first
			// answer in the script below is the one to the initial stream request)
			c.Vb[1].FiniteEndErr = gocbcore.ErrSocketClosed
			c.Vb[1].Opens = []gocbcore.SimOpen{{Kind: "ok"}}
			for i := 0; i < fails; i++ {
				c.Vb[1].Opens = append(c.Vb[1].Opens, gocbcore.SimOpen{Kind: "err", Err: gocbcore.ErrTemporaryFailure})
			}
			vrt.SetOutcome(fmt.Sprintf("fails=%d", fails))
			e.Stream.Open()
			vrt.Sleep(30 * time.Second)
			vrt.Quiesce()
			seen := map[uint64]bool{}
			for _, d := range e.Cons.Events {
				if d.Vb == 1 {
					seen[d.Seq] = true
				}
			}
			complete := seen[1] && seen[2] && seen[3]
			if fails == 5 {
				vrt.Failf("finite run: the re-open of vb1 was rejected five times and the client did not terminate with an error (stopped cleanly: %v, vb1 complete: %v)", vrt.Closed(e.StopCh), complete)
				return
			}
			if !complete {
				vrt.Failf("finite run: vb1 was re-opened at the third attempt, events delivered %v, want 1..3 (run ended: %v)", seen, vrt.Closed(e.StopCh))
			}
			if !vrt.Closed(e.StopCh) {
				vrt.Failf("finite run: both vBuckets reached their end bound, the client did not stop")
			}
		}, Classify: func(r *vrt.Result) []string {
			if strings.Contains(r.Outcome, "fails=5") && r.Status == vrt.StatusCrash {
				r.Failures = nil
				return nil
			}
			if r.Status != vrt.StatusOK {
				m := "status " + r.Status.String()
				if r.Crash != nil {
					m += ": " + r.Crash.Value
				}
				return []string{m}
			}
			return nil
		}}
	}
}
