package main

import (
	"context"
	"encoding/json"
	"fmt"
	"strings"
	"time"

	"github.com/Trendyol/go-dcp/helpers"
	"github.com/Trendyol/go-dcp/kubernetes"
	"github.com/Trendyol/go-dcp/leaderelector"
	"github.com/Trendyol/go-dcp/membership"
	"github.com/Trendyol/go-dcp/models"
	"github.com/Trendyol/go-dcp/servicediscovery"
	"github.com/Trendyol/go-dcp/stream"
	"github.com/asaskevich/EventBus"
	coordv1 "k8s.io/client-go/kubernetes/typed/coordination/v1"

	"verif/vrt"
	lease "verif/vrt/vlease"
	"verif/vrt/vrpc"
)

// c10_lease: the leader-assigned variant driven from the LEASE: the library's real kubernetes/leader_elector.go
// (its three client-go callbacks: pod labels, "is the reported holder me?", hand-over to the election handler),
// the real stream/leader_election.go handler, the real service discovery and RPC code. client-go's lease
// election itself is replaced by a small lease model (vrt/vlease) that the scenario drives: who holds the
// lease, who has been told, in which order. The Kubernetes API client is a fake whose label PATCH takes a
// chosen time (the become-leader callback runs after it).
//
// Histories: election of the first instance, followers joining; then nothing / the leader's process restarts
// in the same pod (same name and address, new start time) while its former incarnation is still the recorded
// holder, and re-acquires the lease after it expired / the leader dies and the oldest follower takes over.

type fakeKube struct {
	id      *models.Identity
	latency time.Duration
	labels  []string
}

func (k *fakeKube) CoordinationV1() coordv1.CoordinationV1Interface { return nil }
func (k *fakeKube) AddLabel(key, value string) {
	vrt.Sleep(k.latency) // the PATCH round trip to the API server
	k.labels = append(k.labels, key+"="+value)
}
func (k *fakeKube) RemoveLabel(key string) {
	vrt.Sleep(k.latency)
	k.labels = append(k.labels, key+"-")
}
func (k *fakeKube) GetIdentity() *models.Identity { return k.id }

type leaseNode struct {
	id      *models.Identity
	sd      servicediscovery.ServiceDiscovery
	le      leaderelector.Handler
	elector leaderelector.LeaderElector
	kube    *fakeKube
	events  [][2]int
	alive   bool
	cancel  context.CancelFunc
}

func init() {
	scenarios["c10_lease"] = func(raw json.RawMessage) *vrt.Scenario {
		return &vrt.Scenario{Name: "c10_lease", Main: leaseMain, FreeChoices: true, MaxSteps: 2_000_000, NoTimerAlt: true, Classify: sdClassify}
	}
}

func leaseMain() {
	resetGlobals()
	vrpc.Reset()
	lease.Reset()
	o := EnvOpts{RebalanceDelay: time.Second}
	o.defaults()
	addr := func(id *models.Identity) string { return fmt.Sprintf("%s:%d", id.IP, sdPort) }
	var hist []string
	apiLatency := []time.Duration{0, 2 * time.Second}[vrt.Choose(2, true, "label-patch-latency")]
	boot := func(name, ip string, join int64) *leaseNode {
		n := &leaseNode{id: &models.Identity{IP: ip, Name: name, ClusterJoinTime: join}, alive: true}
		bus := EventBus.New()
		_ = bus.Subscribe(helpers.MembershipChangedBusEventName, func(m *membership.Model) {
			n.events = append(n.events, [2]int{m.MemberNumber, m.TotalMembers})
			if k := len(n.events); k >= 2 && n.events[k-1] == n.events[k-2] && n.alive {
				vrt.Failf("after %v: %s announced the numbering %d/%d although it is already in effect (the stream is interrupted for nothing)", hist, name, m.MemberNumber, m.TotalMembers)
			}
		})
		cfg := o.config()
		cfg.LeaderElection.RPC.Port = sdPort
		cfg.LeaderElection.Config = map[string]string{"leaseLockName": "dcp", "leaseLockNamespace": "default"}
		n.sd = servicediscovery.NewServiceDiscovery(cfg, bus)
		n.le = stream.VerifLeaderHandler(cfg, n.sd, bus, n.id)
		vrpc.Serve(addr(n.id), servicediscovery.VerifNewHandler(sdPort, n.id, n.sd))
		n.sd.StartHeartbeat()
		n.sd.StartMonitor()
		n.kube = &fakeKube{id: n.id, latency: apiLatency}
		n.elector = kubernetes.NewLeaderElector(n.kube, cfg, n.id, n.le, bus)
		ctx, cancel := vrt.WithCancel(vrt.Background())
		n.cancel = cancel
		n.elector.Run(ctx)
		vrt.Quiesce() // the election thread has registered with the lease
		return n
	}
	part := func(n *leaseNode) *lease.Participant {
		p := lease.Find(n.id.String())
		if p == nil {
			vrt.Failf("harness: %s did not enter the election", n.id.Name)
			panic("harness")
		}
		return p
	}
	kill := func(n *leaseNode) {
		n.alive = false
		vrpc.Kill(addr(n.id))
		n.sd.StopHeartbeat()
		n.sd.StopMonitor()
		part(n).Kill()
	}
	var nodes []*leaseNode // every instance ever started
	live := func() []*leaseNode {
		var l []*leaseNode
		for _, n := range nodes {
			if n.alive {
				l = append(l, n)
			}
		}
		return l
	}
	// everybody who has not been told about the current holder is told, in the given order
	observeAll := func(order []*leaseNode) {
		for _, n := range order {
			if n.alive {
				part(n).Observe()
			}
		}
	}
	check := func(when string, leader *leaseNode) {
		var fol []*leaseNode
		for _, n := range live() {
			if n != leader {
				fol = append(fol, n)
			}
		}
		for i := range fol {
			for j := i + 1; j < len(fol); j++ {
				if fol[j].id.ClusterJoinTime < fol[i].id.ClusterJoinTime {
					fol[i], fol[j] = fol[j], fol[i]
				}
			}
		}
		total := len(fol) + 1
		if got := lastOf(leader.events); got != [2]int{1, total} {
			vrt.Failf("%s after %v: the leader %s holds %v, want 1/%d", when, hist, leader.id.Name, got, total)
		}
		for i, n := range fol {
			if got := lastOf(n.events); got != [2]int{i + 2, total} {
				vrt.Failf("%s after %v: follower %s (joined %d) holds %v, want %d/%d", when, hist, n.id.Name, n.id.ClusterJoinTime, got, i+2, total)
			}
		}
	}

	// first election
	leader := boot("dcp-0", "10.0.0.1", 1)
	nodes = append(nodes, leader)
	part(leader).Acquire()
	part(leader).Observe()
	hist = append(hist, "dcp-0 acquires the lease")
	nf := 1 + vrt.Choose(2, true, "followers")
	for i := 0; i < nf; i++ {
		f := boot(fmt.Sprintf("dcp-%d", i+1), fmt.Sprintf("10.0.0.%d", 2+i), int64(100+i))
		nodes = append(nodes, f)
		part(f).Observe()
		hist = append(hist, f.id.Name+" joins")
	}
	vrt.Sleep(13 * time.Second)
	vrt.Quiesce()
	check("after the first election", leader)

	vrt.Window(true)
	switch vrt.Choose(3, true, "disturbance") {
	case 0:
	case 1:
		// the leader's process restarts inside its pod: same name and address, new start time; its former
		// incarnation is still the recorded holder until the lease expires
		kill(leader)
		nw := boot(leader.id.Name, leader.id.IP, 500)
		nodes = append(nodes, nw)
		hist = append(hist, "the leader's process restarts in its pod")
		part(nw).Observe() // told: the holder is (the former incarnation of) dcp-0
		wait := []time.Duration{2 * time.Second, 7 * time.Second}[vrt.Choose(2, true, "lease-expires-after")]
		vrt.Sleep(wait)
		part(nw).Acquire()
		hist = append(hist, fmt.Sprintf("+%v: it re-acquires the lease", wait))
		order := live()
		if vrt.Choose(2, true, "told-in-reverse-order") == 1 {
			for i, j := 0, len(order)-1; i < j; i, j = i+1, j-1 {
				order[i], order[j] = order[j], order[i]
			}
		}
		observeAll(order)
		leader = nw
	case 2:
		// the leader dies; after the lease expired the oldest follower acquires it
		kill(leader)
		hist = append(hist, "the leader dies")
		vrt.Sleep(8 * time.Second)
		var nl *leaseNode
		for _, n := range live() {
			if nl == nil || n.id.ClusterJoinTime < nl.id.ClusterJoinTime {
				nl = n
			}
		}
		part(nl).Acquire()
		hist = append(hist, nl.id.Name+" acquires the lease")
		order := live()
		if vrt.Choose(2, true, "told-in-reverse-order") == 1 {
			for i, j := 0, len(order)-1; i < j; i, j = i+1, j-1 {
				order[i], order[j] = order[j], order[i]
			}
		}
		observeAll(order)
		leader = nl
	}
	vrt.Sleep(28 * time.Second)
	vrt.Quiesce()
	vrt.Window(false)
	check("after the disturbance", leader)
	// a second quiet period: nothing flaps
	marks := map[*leaseNode]int{}
	for _, n := range live() {
		marks[n] = len(n.events)
	}
	vrt.Sleep(16 * time.Second)
	vrt.Quiesce()
	for _, n := range live() {
		if len(n.events) != marks[n] {
			vrt.Failf("after %v: %s received %d further numberings %v in a quiet period", hist, n.id.Name, len(n.events)-marks[n], n.events[marks[n]:])
		}
	}
	for _, n := range nodes {
		n.sd.StopMonitor()
		n.sd.StopHeartbeat()
	}
	vrt.SetOutcome(fmt.Sprintf("%v|%v", hist, lastOf(leader.events)))
}

// sdClassify: every abnormal end of a service-discovery scenario is a violation. (Until fix 96c52f1 one kind of
// crash - a heart-beat thread pinging through a client that the election callback had just closed and set to nil -
// was ended as "member died"; the same nil dereference then turned up in the leader's monitor loop when a follower
// dies, and the cause was repaired: see DESIGN.md section 8.)
func sdClassify(r *vrt.Result) []string {
	if r.Status == vrt.StatusOK {
		return nil
	}
	m := "execution ended with status " + r.Status.String()
	if r.Crash != nil {
		m += ": panic in " + r.Crash.Thread + ": " + r.Crash.Value
	}
	if len(r.Blocked) > 0 {
		m += "; blocked: " + strings.Join(r.Blocked, " | ")
	}
	return []string{m}
}
