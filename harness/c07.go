package main

import (
	"encoding/json"
	"fmt"
	"strings"
	"time"

	"github.com/Trendyol/go-dcp/couchbase"
	"github.com/couchbase/gocbcore/v10"
	"github.com/couchbase/gocbcore/v10/memd"

	"verif/vrt"
)

// C07 — with rollback mitigation, nothing the cluster could still roll back is delivered.

type MitigationParams struct {
	Replicas   int  `json:"replicas"`
	Unassigned bool `json:"unassigned"` // the last replica row is -1 (no server)
	Hole       bool `json:"hole"`       // the FIRST replica row is -1 and the second is assigned: chain [a, -1, b] (needs replicas = 2)
	// Rollback: the session resumes from a stored position 2 of a lost branch and the server answers with a
	// rollback to 1; on the new branch seq 2 does not exist, the first event past the catch-up point is seq 3
	Rollback   bool `json:"rollback"`
	ConfigBump bool `json:"config_bump"`
	CloseAt    bool `json:"close_at"` // close the stream while an event waits at the gate
	Stall      bool `json:"stall"`    // the DCP thread is descheduled for two observe intervals at every one of its scheduling points
	// EpochAssign: the replica is unassigned at first; a new cluster map with a HIGHER epoch but a LOWER
	// revision id assigns it (as after an unsafe fail-over): from then on it is a listed copy
	EpochAssign bool `json:"epoch_assign"`
	// Grow (with EpochAssign): the new map does not assign an existing (unassigned) slot but lists an ADDITIONAL
	// copy: the replica count goes from replicas-1 to replicas
	Grow bool `json:"grow"`
	// TransientEnd: once the feeds have gone static the stream ends with a transient cause and is re-opened;
	// an event at or below the threshold already established then arrives
	TransientEnd bool `json:"transient_end"`
	// FailoverAtEnd (with TransientEnd): the re-opened stream comes back under another vbUUID (fail-over
	// without rollback)
	FailoverAtEnd bool `json:"failover_at_end"`
	// RollbackAtEnd (with TransientEnd): the re-open is answered with a rollback to 1 (the consumer had reached 2)
	RollbackAtEnd bool `json:"rollback_at_end"`
	// SeqAdv: the third event behind the marker is a seqno-advanced event (collection-filtered streams) instead of
	// a document: it waits at the gate like a document and is absorbed (moves the position) only once covered
	SeqAdv bool `json:"seq_adv"`
	// StaleSession (with EpochAssign): a first session is closed by a Rebalance() while its rollback mitigation
	// is still loading the fail-over logs (slow answer); the scenario then runs in the session the rebalance
	// opens. What is left of the closed session works from the cluster map of ITS time and must not feed the
	// thresholds of the new one
	StaleSession bool `json:"stale_session"`
	// DiskSnapshot: the snapshot markers announce disk snapshots (backfill) instead of memory snapshots: "on disk"
	// is a statement about the active copy only, the gate applies all the same
	DiskSnapshot bool `json:"disk_snapshot"`
}

// persistence feeds of one copy (uA = the branch the stream was opened on, uB = another branch)
const uA, uB = 1000, 2000

func feedMenu() [][]gocbcore.SimPersist {
	tmp := &gocbcore.KeyValueError{InnerError: gocbcore.ErrTemporaryFailure, StatusCode: memd.StatusTmpFail}
	busy := &gocbcore.KeyValueError{InnerError: gocbcore.ErrBusy, StatusCode: memd.StatusBusy}
	st := func(u, p uint64) gocbcore.SimPersist {
		return gocbcore.SimPersist{VbUUID: gocbcore.VbUUID(u), Persist: gocbcore.SeqNo(p), Current: 3}
	}
	return [][]gocbcore.SimPersist{
		{st(uA, 1), st(uA, 2), st(uA, 3)},               // advance step by step
		{st(uA, 3)},                                     // everything persisted at once
		{st(uA, 1), st(uA, 1), st(uA, 3)},               // repeats
		{st(uA, 2), st(uB, 1), st(uB, 3)},               // branch change with a lower seqno
		{st(uA, 1), st(uB, 3)},                          // branch change with a higher seqno
		{{Err: tmp}, st(uA, 2), {Err: busy}, st(uA, 3)}, // transient observe errors
		{st(uA, 0), st(uA, 2)},                          // nothing persisted at first, never reaches 3
		{st(uB, 3), st(uB, 3), st(uA, 3)},               // only the vbUUID changes (same persisted seqno): agreement is reached without any seqno moving
		{st(uA, 3), st(uA, 1), st(uA, 1), st(uA, 2)},    // the persisted seqno of a copy goes BACK on the same branch (a rebuilt replica) and recovers slowly (round 12)
	}
}

func init() {
	scenarios["c07_gate"] = func(raw json.RawMessage) *vrt.Scenario {
		var p MitigationParams
		_ = json.Unmarshal(raw, &p)
		return &vrt.Scenario{Name: "c07_gate", Main: func() { gateMain(p) }, FreeChoices: true, MaxSteps: 400000, NoTimerAlt: true}
	}
	register(&Property{
		ID:        "C07",
		Technique: "exhaustive enumeration of replica tables through the real getMinSeqNo and of SetPersistSeqNo call sequences (pure kernels), and deviation-bounded schedule DFS over the real rollback-mitigation protocol (observe ticker, per-node reader threads delivering OBSERVE_SEQNO replies, DCP thread polling at the gate, config watcher, closer) for every combination of enumerated per-copy persistence feeds",
		Rule:      "kernel: all tables with 1..4 copies x absent x vbUUID in {1,2} x seqNo in {0..3} (69 904 tables), all SetPersistSeqNo sequences of length <= 4 over {0..3}; protocol: 1 vBucket with 1+{0,1,2} copies, 3 events behind one marker, each copy's feed from a menu of 7 (advance, jump, repeat, branch change lower/higher, transient errors, stall), optional unassigned replica / config revision bump / close while waiting, all schedules within the bound; non-trivial = distinct (feeds, delivery times relative to reports)",
		Assume:    []string{"reports = OBSERVE_SEQNO results handed to the library's callback with a nil error; the reference threshold is the running maximum over time of min-over-listed-copies-if-one-common-vbUUID-else-0, updated the moment before each callback runs"},
		Pure:      c07Pure,
		Instances: func(tier string) []Instance {
			b := 1
			if tier == "thorough" {
				b = 2
			}
			out := []Instance{
				{Scenario: "c07_gate", Params: mustJSON(MitigationParams{Replicas: 0}), Bound: b, Shards: 2},
				{Scenario: "c07_gate", Params: mustJSON(MitigationParams{Replicas: 1}), Bound: b, Shards: 8},
				{Scenario: "c07_gate", Params: mustJSON(MitigationParams{Replicas: 1, Unassigned: true}), Bound: b, Shards: 2},
				{Scenario: "c07_gate", Params: mustJSON(MitigationParams{Replicas: 2, Hole: true}), Bound: b, Shards: 8, Note: "a chain with a hole: [active, unassigned, replica] - the copy behind the unassigned slot is a listed copy"},
				{Scenario: "c07_gate", Params: mustJSON(MitigationParams{Replicas: 1, Rollback: true}), Bound: b, Shards: 8, Note: "the session starts with a server-requested rollback: the first event past the catch-up point waits at the gate like any other"},
				{Scenario: "c07_gate", Params: mustJSON(MitigationParams{Replicas: 1, ConfigBump: true}), Bound: b, Shards: 8},
				{Scenario: "c07_gate", Params: mustJSON(MitigationParams{Replicas: 1, CloseAt: true}), Bound: b, Shards: 8},
				{Scenario: "c07_gate", Params: mustJSON(MitigationParams{Replicas: 1, EpochAssign: true}), Bound: b - 1, Shards: 8, Note: "a cluster map with a higher epoch but a lower revision id assigns the replica: it counts from then on"},
				{Scenario: "c07_gate", Params: mustJSON(MitigationParams{Replicas: 2, EpochAssign: true, Grow: true}), Bound: 0, Shards: 16, Note: "a new cluster map lists an ADDITIONAL copy (replica count raised while the existing copies stay put): it counts from then on"},
				{Scenario: "c07_gate", Params: mustJSON(MitigationParams{Replicas: 1, TransientEnd: true}), Bound: b - 1, Shards: 8, Note: "transient end and re-open once the feeds are static: the established threshold still applies"},
				{Scenario: "c07_gate", Params: mustJSON(MitigationParams{Replicas: 1, TransientEnd: true, FailoverAtEnd: true}), Bound: b - 1, Shards: 8, Note: "the re-opened stream comes back under another vbUUID: the threshold established so far still applies"},
				{Scenario: "c07_gate", Params: mustJSON(MitigationParams{Replicas: 1, TransientEnd: true, RollbackAtEnd: true}), Bound: b - 1, Shards: 8, Note: "the re-open is answered with a rollback: what the copies reported before it still counts (they may never report again)"},
				{Scenario: "c07_gate", Params: mustJSON(MitigationParams{Replicas: 1, CloseAt: true, SeqAdv: true}), Bound: b - 1, Shards: 8, Note: "a seqno-advanced event waits at the gate when the stream is closed: it is released without being absorbed"},
				{Scenario: "c07_gate", Params: mustJSON(MitigationParams{Replicas: 1, SeqAdv: true}), Bound: b - 1, Shards: 8, Note: "a seqno-advanced event behind two documents: absorbed only once covered"},
				{Scenario: "c07_gate", Params: mustJSON(MitigationParams{Replicas: 1, EpochAssign: true, StaleSession: true}), Bound: 0, Shards: 8, Note: "the session that follows a Rebalance() which closed the first one while its rollback mitigation was still loading fail-over logs; a copy becomes listed afterwards: what is left of the closed session knows the old map only and must stay silent"},
				{Scenario: "c07_gate", Params: mustJSON(MitigationParams{Replicas: 2, EpochAssign: true, Grow: true, StaleSession: true}), Bound: 0, Shards: 16, Note: "the same with an ADDITIONAL copy listed afterwards"},
				{Scenario: "c07_gate", Params: mustJSON(MitigationParams{Replicas: 1, DiskSnapshot: true}), Bound: 0, Shards: 8, Note: "the events arrive in a disk (backfill) snapshot: they wait at the gate like any other"},
				{Scenario: "c07_gate", Params: mustJSON(MitigationParams{Replicas: 1, DiskSnapshot: true, TransientEnd: true}), Bound: 0, Shards: 8, Note: "disk snapshots, with a transient end and a re-open"},
				{Scenario: "c07_member2", Params: mustJSON(struct{}{}), Bound: 0, Note: "a member that does not own vBucket 0, non-uniform cluster map (an unassigned replica in a row of a vBucket it does not stream): the copies of ITS vBuckets count"},
				{Scenario: "c07_rebalance", Params: mustJSON(struct{}{}), Bound: 0, Note: "the session after a real Rebalance() with a slow re-open and copies that keep reporting the same figures"},
				{Scenario: "c07_gate", Params: mustJSON(MitigationParams{Replicas: 1, Stall: true}), Bound: 0, Shards: 8, Note: "the DCP thread stalls for two observe intervals at every scheduling point (lost wake-up between the gate's check and its wait)"},
			}
			if tier == "thorough" {
				out = append(out, Instance{Scenario: "c07_gate", Params: mustJSON(MitigationParams{Replicas: 2}), Bound: 1, Shards: 16})
			}
			return out
		},
	})
}

func c07Pure(tier string) *PureResult {
	resetGlobals()
	res := &PureResult{Exhaustive: true}
	add := func(msg string) {
		if len(res.Violations) < 10 {
			res.Violations = append(res.Violations, pureViolation("C07", msg))
		}
	}
	// every replica table
	var rec func(tab []couchbase.VerifReplica, n int)
	rec = func(tab []couchbase.VerifReplica, n int) {
		if len(tab) == n {
			res.Evaluations++
			got := couchbase.VerifMinSeqNo(tab)
			var want uint64
			first := true
			var u uint64
			agree := true
			any := false
			for _, r := range tab {
				if r.Absent {
					continue
				}
				any = true
				if first {
					u, want, first = r.VbUUID, r.SeqNo, false
					continue
				}
				if r.VbUUID != u {
					agree = false
				}
				if r.SeqNo < want {
					want = r.SeqNo
				}
			}
			if !any || !agree {
				want = 0
			}
			if len(tab) > 1 {
				res.Distinct++
			}
			if got != want {
				add(fmt.Sprintf("getMinSeqNo(%+v) = %d, want %d (minimum over present copies under one common vbUUID, else 0)", tab, got, want))
			}
			return
		}
		for _, absent := range []bool{false, true} {
			for u := uint64(1); u <= 2; u++ {
				for s := uint64(0); s <= 3; s++ {
					rec(append(tab, couchbase.VerifReplica{VbUUID: u, SeqNo: s, Absent: absent}), n)
				}
			}
		}
	}
	for n := 1; n <= 4; n++ {
		rec(nil, n)
	}
	// threshold is monotone and ignores zero
	o := EnvOpts{}
	o.defaults()
	cfg := o.config()
	var seqs [][]uint64
	var gen func(cur []uint64)
	gen = func(cur []uint64) {
		if len(cur) > 0 {
			seqs = append(seqs, append([]uint64{}, cur...))
		}
		if len(cur) == 4 {
			return
		}
		for v := uint64(0); v <= 3; v++ {
			gen(append(cur, v))
		}
	}
	gen(nil)
	for _, sq := range seqs {
		ob := couchbase.NewObserver(cfg, 0, 0, nil, nil, nil, nil)
		var max uint64
		for _, v := range sq {
			ob.SetPersistSeqNo(gocbcore.SeqNo(v))
			if v > max {
				max = v
			}
			res.Evaluations++
			if uint64(ob.GetPersistSeqNo()) != max {
				add(fmt.Sprintf("SetPersistSeqNo sequence %v: threshold %d, want the running maximum %d", sq, ob.GetPersistSeqNo(), max))
				break
			}
		}
		res.Distinct++
	}
	res.States, res.Transitions = res.Evaluations, res.Evaluations
	res.Samples = []any{[]couchbase.VerifReplica{{VbUUID: 1, SeqNo: 3}, {VbUUID: 2, SeqNo: 2}, {VbUUID: 1, SeqNo: 1, Absent: true}}, []uint64{2, 0, 1, 3}}
	return res
}

func gateMain(p MitigationParams) {
	resetGlobals()
	marker := func(a, b uint64) gocbcore.SimPacket {
		m := marker(a, b)
		if p.DiskSnapshot {
			m.Flags = 2 // a snapshot the server reads from disk (backfill): start-up with a backlog, a re-open
		}
		return m
	}
	nodes := p.Replicas + 1
	o := EnvOpts{Vbs: 1, Nodes: nodes, Replicas: p.Replicas, CheckpointType: "manual", Mitigation: true, WrapMeta: true}
	c := NewCluster(&o)
	c.Vb[0].Failover = []gocbcore.FailoverEntry{{VbUUID: uA, SeqNo: 0}}
	lateNode := -1
	if p.Unassigned || p.EpochAssign {
		lateNode = c.VbMap[0][p.Replicas]
		c.VbMap[0][p.Replicas] = -1
		if p.Grow {
			c.VbMap[0] = c.VbMap[0][:p.Replicas] // the slot does not exist yet
			c.Replicas = p.Replicas - 1          // (the bucket is configured with one replica less)
		}
	}
	slot := func(cp int) int {
		if cp >= len(c.VbMap[0]) {
			return -1
		}
		return c.VbMap[0][cp]
	}
	if p.Hole {
		c.VbMap[0][1] = -1
	}
	if p.Rollback {
		seedCheckpoint(c, srcBucket, "g", 0, 777, 2, 1, 3)
		c.Vb[0].High = 3 // the lost branch
		c.Vb[0].Opens = []gocbcore.SimOpen{{Kind: "rollback", Rollback: 1, SwapLog: []gocbcore.SimPacket{marker(1, 3), symbolPacket("M", 1)}}}
	}
	menu := feedMenu()
	var picks []int
	listed := 0
	for cp := 0; cp <= p.Replicas; cp++ {
		if slot(cp) < 0 && !p.EpochAssign {
			picks = append(picks, -1)
			continue
		}
		listed++
		k := vrt.Choose(len(menu), true, fmt.Sprintf("feed-copy%d", cp))
		picks = append(picks, k)
		if p.EpochAssign {
			// until the new map is in effect nothing beyond seqno 1 is persisted anywhere; the chosen feeds start then
			c.SetPersist(0, cp, gocbcore.SimPersist{VbUUID: uA, Persist: 1, Current: 3})
			continue
		}
		c.SetPersist(0, cp, append([]gocbcore.SimPersist{}, menu[k]...)...)
	}
	// Reference. A report becomes visible to the library somewhere between the start and the end of its
	// callback, and callbacks of different nodes run concurrently, so every linearisation is allowed: per
	// copy the candidates are its last completed report and every report whose callback is in progress.
	// The reference threshold is the running maximum, over time, of the best qualified minimum any
	// combination of candidates gives (min over listed copies if they agree on the vbUUID, else 0).
	type rep struct {
		u, p uint64
	}
	done := map[int]*rep{}
	inflight := map[int][]*rep{}
	byReq := map[int]*rep{}
	var maxQualified uint64
	var copies []int
	for cp := 0; cp <= p.Replicas; cp++ {
		if slot(cp) >= 0 {
			copies = append(copies, cp)
		}
	}
	recompute := func() {
		var walk func(i int, u uint64, m uint64, first bool)
		walk = func(i int, u, m uint64, first bool) {
			if i == len(copies) {
				if !first && m > maxQualified {
					maxQualified = m
				}
				return
			}
			cands := append([]*rep{}, inflight[copies[i]]...)
			if d := done[copies[i]]; d != nil {
				cands = append(cands, d)
			}
			for _, r := range cands {
				if first {
					walk(i+1, r.u, r.p, false)
				} else if r.u == u {
					mm := m
					if r.p < mm {
						mm = r.p
					}
					walk(i+1, u, mm, false)
				}
			}
		}
		walk(0, 0, 0, true)
	}
	c.OnComplete = func(r *gocbcore.SimRequest) {
		if r.Kind != "observevb" || r.Err != nil || r.Vb != 0 {
			return
		}
		res := r.Result.(*gocbcore.ObserveVbResult)
		rp := &rep{uint64(res.VbUUID), uint64(res.PersistSeqNo)}
		byReq[r.ID] = rp
		inflight[r.Replica] = append(inflight[r.Replica], rp)
		if verbose {
			vrt.Logf("report copy%d=(%d,%d) callback starts", r.Replica, res.VbUUID, res.PersistSeqNo)
		}
		recompute()
	}
	c.OnCompleted = func(r *gocbcore.SimRequest) {
		rp := byReq[r.ID]
		if rp == nil {
			return
		}
		var keep []*rep
		for _, x := range inflight[r.Replica] {
			if x != rp {
				keep = append(keep, x)
			}
		}
		inflight[r.Replica] = keep
		done[r.Replica] = rp
		recompute()
	}
	e := NewEnv(c, o)
	e.Cons.AutoAck = true
	var lastThreshold gocbcore.SeqNo
	sampleThreshold := func(where string) {
		obs := e.Stream.GetObservers()
		if obs == nil {
			return
		}
		if ob, ok := obs.Load(0); ok {
			t := ob.GetPersistSeqNo()
			if t < lastThreshold {
				vrt.Failf("the threshold of vb0 decreased from %d to %d (%s)", lastThreshold, t, where)
			}
			lastThreshold = t
		}
	}
	e.Cons.OnConsume = func(d *Delivered) {
		if d.Seq > maxQualified {
			var rs []string
			for cp := 0; cp <= p.Replicas; cp++ {
				if rp := done[cp]; rp != nil {
					rs = append(rs, fmt.Sprintf("copy%d=(%d,%d)+%d in progress", cp, rp.u, rp.p, len(inflight[cp])))
				} else {
					rs = append(rs, fmt.Sprintf("copy%d=none+%d in progress", cp, len(inflight[cp])))
				}
			}
			vrt.Failf("event seq %d was delivered although the listed copies have never all reported >= %d under one common vbUUID (best so far %d; latest reports %s; feeds %v)", d.Seq, d.Seq, maxQualified, strings.Join(rs, " "), picks)
		}
		sampleThreshold("at delivery")
	}
	vrt.Window(true)
	if p.StaleSession {
		slowLoad := true
		c.Fault = func(r *gocbcore.SimRequest) gocbcore.SimAnswer {
			if slowLoad && r.Kind == "failoverlog" {
				return gocbcore.SimAnswer{Kind: "latedelay", Delay: 8 * time.Second}
			}
			return gocbcore.SimAnswer{}
		}
		e.Stream.Open()
		vrt.Sleep(time.Second)
		slowLoad = false
		e.Stream.Rebalance() // closes the session now, opens the next one after the rebalance delay
		vrt.Sleep(o.RebalanceDelay + 10*time.Second)
		vrt.Quiesce()
		if !c.StreamOpen(0) {
			vrt.Failf("harness: vb0 is not streamed after the rebalance")
			return
		}
	} else {
		e.Stream.Open()
	}
	interval := e.Cfg.RollbackMitigation.Interval
	if p.Stall {
		k := vrt.Choose(90, true, "stall-at-point")
		vrt.InjectAtomic("sim:dcp:events0", k, func() { vrt.Sleep(2 * interval) })
	}
	if p.Rollback {
		c.Append(0, symbolPacket("M", 3))
	} else if p.TransientEnd || p.EpochAssign {
		c.Append(0, marker(1, 3), symbolPacket("M", 1), symbolPacket("M", 2))
	} else if p.SeqAdv {
		c.Append(0, marker(1, 3), symbolPacket("M", 1), symbolPacket("M", 2), symbolPacket("SEQ", 3))
	} else {
		c.Append(0, marker(1, 3), symbolPacket("M", 1), symbolPacket("M", 2), symbolPacket("M", 3))
	}
	for tick := 0; tick < 7; tick++ {
		vrt.Sleep(interval)
		sampleThreshold(fmt.Sprintf("tick %d", tick))
		if p.ConfigBump && tick == 2 {
			// a new cluster-map revision (same layout, so what the copies reported stays true): the library
			// restarts its observation
			c.SetMap(c.VbMap)
			vrt.Sleep(e.Cfg.RollbackMitigation.ConfigWatchInterval)
		}
		if p.EpochAssign && tick == 0 { // early: the threshold reached under the old map is still low
			nm := make([][]int, len(c.VbMap))
			for i := range c.VbMap {
				nm[i] = append([]int{}, c.VbMap[i]...)
			}
			if p.Grow {
				nm[0] = append(nm[0], lateNode)
				c.Replicas = p.Replicas
			} else {
				nm[0][p.Replicas] = lateNode
			}
			c.VbMap = nm
			c.RevEpoch++
			c.RevID = 0 // lower than before: only the epoch says that this map is newer
			// the library polls the configuration: what it delivers until the next poll is judged by the old map
			vrt.Sleep(e.Cfg.RollbackMitigation.ConfigWatchInterval + interval)
			copies = append(copies, p.Replicas)
			recompute()
			for cp := 0; cp <= p.Replicas; cp++ {
				c.SetPersist(0, cp, append([]gocbcore.SimPersist{}, menu[picks[cp]]...)...)
			}
			c.Append(0, symbolPacket("M", 3)) // this event has to wait for the newly listed copy as well
		}
		if p.TransientEnd && tick == 4 {
			// the feeds are static by now: whatever threshold was reached stays what the copies report
			if p.RollbackAtEnd {
				c.Vb[0].Opens = []gocbcore.SimOpen{{Kind: "rollback", Rollback: 1, SwapLog: []gocbcore.SimPacket{marker(1, 3), symbolPacket("M", 1), symbolPacket("M", 2)}}}
			}
			if p.FailoverAtEnd {
				c.Vb[0].Failover = append([]gocbcore.FailoverEntry{{VbUUID: uB, SeqNo: 2}}, c.Vb[0].Failover...)
			}
			c.EndStream(0, gocbcore.ErrSocketClosed)
			vrt.Sleep(2 * time.Second)
			// the third event of the snapshot arrives only now; if the threshold established before the end
			// already covers it, it must be delivered although no copy reports anything new any more
			c.Append(0, symbolPacket("M", 3))
		}
		if p.CloseAt && tick == 1 {
			break
		}
	}
	vrt.Window(false)
	desc := fmt.Sprintf("replicas=%d feeds=%v unassigned=%v bump=%v", p.Replicas, picks, p.Unassigned, p.ConfigBump)
	if p.CloseAt {
		// An event the gate has already qualified may still be on its way to the consumer while Close() runs
		// (the OnConsume oracle above checks that it IS qualified - an event released merely by the close would
		// fail there); nothing may be delivered once Close() has returned.
		e.Stream.Close(false)
		before := len(e.Cons.Events)
		vrt.Sleep(5 * interval)
		vrt.Quiesce()
		if len(e.Cons.Events) != before {
			vrt.Failf("%s: %d waiting events were delivered after Close() had returned", desc, len(e.Cons.Events)-before)
		}
		// nothing the copies have not jointly persisted was handed on in any form: neither to the consumer nor to
		// its offset tracker (a released non-document event must not be absorbed)
		for _, s := range e.Cons.TrackSeq[0] {
			if s > maxQualified {
				vrt.Failf("%s: the offset tracker was told position %d although the listed copies have never all reported >= %d (best %d) - an event released by the close was absorbed", desc, s, s, maxQualified)
			}
		}
		if !c.Idle() {
			vrt.Failf("%s: closing the stream did not release the event waiting at the gate", desc)
		}
		vrt.SetOutcome(fmt.Sprintf("%s|closed|%d", desc, before))
		return
	}
	// no lost wake-up: give every sleeper two more rounds, then everything covered must have arrived
	vrt.Sleep(3 * interval)
	vrt.Quiesce()
	sampleThreshold("end")
	delivered := map[uint64]bool{}
	for _, d := range e.Cons.Events {
		delivered[d.Seq] = true
	}
	for s := uint64(1); s <= 3; s++ {
		if p.Rollback && s < 3 {
			continue // at or below the rollback point / not on the new branch
		}
		if p.SeqAdv && s == 3 {
			// (not a document: "delivered" = absorbed, the offset tracker heard of it)
			for _, ts := range e.Cons.TrackSeq[0] {
				if ts == 3 {
					delivered[3] = true
				}
			}
		}
		if s <= uint64(lastThreshold) && !delivered[s] {
			vrt.Failf("%s: event seq %d is covered by the threshold %d but was never delivered (lost wake-up)", desc, s, lastThreshold)
		}
	}
	// liveness of the threshold itself: when the final reports qualify a position, the library must have
	// picked it up by now (the feeds are static at the end)
	var fu, fm uint64
	ffirst, fall := true, true
	for _, cp := range copies {
		d := done[cp]
		if d == nil || len(inflight[cp]) > 0 {
			fall = false
			break
		}
		if ffirst {
			fu, fm, ffirst = d.u, d.p, false
		} else {
			if d.u != fu {
				fall = false
			}
			if d.p < fm {
				fm = d.p
			}
		}
	}
	if p.RollbackAtEnd && fall && !ffirst && fm >= 3 && !delivered[3] {
		vrt.Failf("%s: the re-open was answered with a rollback to 1 (the consumer had reached 2); event 3 lies above that position, every copy reports it persisted, and it was never shown", desc)
	}
	if fall && !ffirst && uint64(lastThreshold) < fm {
		vrt.Failf("%s: every copy's final report is >= %d under one vbUUID (and has been repeated for several rounds) but the stream's threshold is still %d", desc, fm, lastThreshold)
	}
	e.Stream.Close(false)
	vrt.SetOutcome(fmt.Sprintf("%s|thr=%d|best=%d|delivered=%d", desc, lastThreshold, maxQualified, len(e.Cons.Events)))
	_ = time.Second
}

// c07_rebalance: "once the threshold covers a waiting event that event is delivered (no lost wake-up)" in the
// session that follows a real Rebalance(): the copies have persisted everything long ago and keep reporting
// the same figures (the library dispatches a figure only when it changes), the re-open is slow (one stream
// request takes 2 s, so the first persistence reports of the new session arrive while Open() is still
// running); an event that arrives after the rebalance is covered and must be delivered.
func init() {
	scenarios["c07_rebalance"] = func(raw json.RawMessage) *vrt.Scenario {
		return &vrt.Scenario{Name: "c07_rebalance", FreeChoices: true, NoTimerAlt: true, MaxSteps: 2_000_000, Main: func() {
			resetGlobals()
			slow := vrt.Choose(3, true, "slow-stream-request") // 0: none, 1: vb0, 2: vb1
			o := EnvOpts{Vbs: 2, Nodes: 2, Replicas: 1, CheckpointType: "manual", Mitigation: true, WrapMeta: true, RebalanceDelay: time.Second}
			c := NewCluster(&o)
			for vb := uint16(0); vb < 2; vb++ {
				u := c.Vb[vb].Failover[0].VbUUID
				for cp := 0; cp <= 1; cp++ {
					c.SetPersist(vb, cp, gocbcore.SimPersist{VbUUID: u, Persist: 3, Current: 3})
				}
				c.Append(vb, marker(1, 3), symbolPacket("M", 1), symbolPacket("M", 2))
			}
			e := NewEnv(c, o)
			e.Cons.AutoAck = true
			e.Stream.Open()
			interval := e.Cfg.RollbackMitigation.Interval
			vrt.Sleep(4 * interval)
			vrt.Quiesce()
			if len(e.Cons.Events) != 4 {
				vrt.Failf("harness: %d of 4 events delivered before the rebalance", len(e.Cons.Events))
				return
			}
			e.Stream.Save()
			armed := slow != 0
			c.Fault = func(r *gocbcore.SimRequest) gocbcore.SimAnswer {
				if armed && r.Kind == "openstream" && int(r.Vb) == slow-1 {
					armed = false
					return gocbcore.SimAnswer{Kind: "delay", Delay: 2 * time.Second}
				}
				return gocbcore.SimAnswer{}
			}
			e.Stream.Rebalance()
			vrt.Sleep(o.RebalanceDelay + 6*time.Second)
			vrt.Quiesce()
			for vb := uint16(0); vb < 2; vb++ {
				if !c.StreamOpen(vb) {
					vrt.Failf("slow=%d: vb%d is not streamed after the rebalance", slow, vb)
					return
				}
				c.Append(vb, symbolPacket("M", 3))
			}
			vrt.Sleep(6 * interval)
			vrt.Quiesce()
			for vb := uint16(0); vb < 2; vb++ {
				got := false
				for _, d := range e.Cons.Events {
					if d.Vb == vb && d.Seq == 3 {
						got = true
					}
				}
				if !got {
					vrt.Failf("after a rebalance (slow stream request: %v): every copy of vb%d has been reporting persisted seqno 3 all along, event 3 arrived and was never delivered (lost wake-up: the new session never learnt the threshold)", []string{"none", "vb0", "vb1"}[slow], vb)
				}
			}
			vrt.SetOutcome(fmt.Sprintf("slow=%d", slow))
			e.Stream.Close(false)
		}}
	}
}

// c07_member2: the member does not own vBucket 0 (member 2 of 2 or 2 of 4 of 4 vBuckets) and the cluster map is
// not uniform: the replica slot of a vBucket this member does NOT stream is unassigned, those of its own vBuckets
// are assigned and lag (persisted 1 while the active copy has 3). "Every copy of THAT vBucket listed in the
// cluster map": events 2 and 3 wait until the replica reports, whatever the rows of other vBuckets say.
func init() {
	scenarios["c07_member2"] = func(raw json.RawMessage) *vrt.Scenario {
		return &vrt.Scenario{Name: "c07_member2", FreeChoices: true, NoTimerAlt: true, MaxSteps: 2_000_000, Main: func() {
			resetGlobals()
			total := []int{2, 4}[vrt.Choose(2, true, "group-size")]
			hole := vrt.Choose(2, true, "which-foreign-row-has-the-unassigned-replica") // vb0 or vb1 (vb1 is foreign only for total 4)
			o := EnvOpts{Vbs: 4, Nodes: 2, Replicas: 1, CheckpointType: "manual", Mitigation: true, WrapMeta: true, MemberNumber: 2, Total: total}
			c := NewCluster(&o)
			first := uint16(2) // member 2/2 owns 2..3
			last := uint16(3)
			if total == 4 {
				first, last = 1, 1 // member 2/4 owns vb1
			}
			if uint16(hole) >= first && uint16(hole) <= last {
				vrt.SetOutcome("n/a")
				return
			}
			c.VbMap[hole][1] = -1
			for vb := first; vb <= last; vb++ {
				u := c.Vb[vb].Failover[0].VbUUID
				c.SetPersist(vb, 0, gocbcore.SimPersist{VbUUID: u, Persist: 3, Current: 3})
				c.SetPersist(vb, 1, gocbcore.SimPersist{VbUUID: u, Persist: 1, Current: 3})
				c.Append(vb, marker(1, 3), symbolPacket("M", 1), symbolPacket("M", 2), symbolPacket("M", 3))
			}
			e := NewEnv(c, o)
			e.Cons.AutoAck = true
			e.Stream.Open()
			interval := e.Cfg.RollbackMitigation.Interval
			vrt.Sleep(6 * interval)
			vrt.Quiesce()
			desc := fmt.Sprintf("member 2/%d of 4 vBuckets (owns %d..%d), the replica of vb%d (not streamed here) is unassigned", total, first, last, hole)
			for _, d := range e.Cons.Events {
				if d.Seq > 1 {
					vrt.Failf("%s: event seq %d of vb%d was delivered while the replica of vb%d had persisted 1 only", desc, d.Seq, d.Vb, d.Vb)
				}
			}
			observed := 0
			for _, r := range c.RequestsOf("observevb") {
				if r.Vb >= first && r.Vb <= last && r.Replica == 1 {
					observed++
				}
			}
			if observed == 0 {
				vrt.Failf("%s: the replicas of the streamed vBuckets were never asked for their persisted seqno", desc)
			}
			// the replicas catch up: everything is delivered
			for vb := first; vb <= last; vb++ {
				c.SetPersist(vb, 1, gocbcore.SimPersist{VbUUID: c.Vb[vb].Failover[0].VbUUID, Persist: 3, Current: 3})
			}
			vrt.Sleep(6 * interval)
			vrt.Quiesce()
			want := 3 * int(last-first+1)
			if len(e.Cons.Events) != want {
				vrt.Failf("%s: %d of %d events delivered after every copy has persisted 3", desc, len(e.Cons.Events), want)
			}
			vrt.SetOutcome(desc)
			e.Stream.Close(false)
		}}
	}
}
