package main

import (
	"fmt"
	"net"
	"net/http"
	"strings"
	"sync"
	"time"

	dcp "github.com/Trendyol/go-dcp"
	"github.com/Trendyol/go-dcp/config"
	"github.com/Trendyol/go-dcp/stream"
	"github.com/asaskevich/EventBus"
	"github.com/couchbase/gocbcore/v10"

	"verif/vrt"
)

// The one HTTP call newDcp makes at construction (/pools and bucket info) is answered by a loopback
// listener; what it answers is set per execution.
var mgmt struct {
	once    sync.Once
	url     string
	mu      sync.Mutex
	version string
	btype   string
	storage string
	// fault404: "pools" / "bucket" = answer that REST lookup with 404 and a plain-text body (ns_server's reply
	// for an unknown resource)
	fault404 string
	// metaStorage: storage back end reported for the bucket "meta" (a separate metadata bucket), "" = like the source
	metaStorage string
}

func mgmtURL() string {
	mgmt.once.Do(func() {
		ln, err := net.Listen("tcp", "127.0.0.1:0")
		if err != nil {
			panic(err)
		}
		mux := http.NewServeMux()
		mux.HandleFunc("/pools", func(w http.ResponseWriter, r *http.Request) {
			mgmt.mu.Lock()
			defer mgmt.mu.Unlock()
			if mgmt.fault404 == "pools" {
				http.Error(w, "Not found.", http.StatusNotFound)
				return
			}
			fmt.Fprintf(w, `{"implementationVersion":%q}`, mgmt.version)
		})
		mux.HandleFunc("/pools/default/buckets/", func(w http.ResponseWriter, r *http.Request) {
			mgmt.mu.Lock()
			defer mgmt.mu.Unlock()
			if mgmt.fault404 == "bucket" {
				http.Error(w, "Requested resource not found.", http.StatusNotFound)
				return
			}
			st := mgmt.storage
			if strings.HasSuffix(strings.TrimSuffix(r.URL.Path, "/"), "/meta") && mgmt.metaStorage != "" {
				st = mgmt.metaStorage
			}
			fmt.Fprintf(w, `{"bucketType":%q,"storageBackend":%q}`, mgmt.btype, st)
		})
		go func() { _ = http.Serve(ln, mux) }()
		mgmt.url = "http://" + ln.Addr().String()
	})
	return mgmt.url
}

func setMgmt(version, btype, storage string) {
	mgmt.mu.Lock()
	if version == "<empty>" {
		version = ""
	}
	mgmt.version, mgmt.btype, mgmt.storage = version, btype, storage
	mgmt.fault404 = mgmtFault
	mgmt.metaStorage = mgmtMetaStorage
	mgmt.mu.Unlock()
}

// mgmtFault is picked up by the next NewDcpEnv (and reset by resetGlobals)
var mgmtFault string

// mgmtMetaStorage: see mgmt.metaStorage (picked up by the next NewDcpEnv, reset by resetGlobals)
var mgmtMetaStorage string

// DcpEnv is the lifecycle harness: the real newDcp -> Start()/Close() over the simulated cluster.
type DcpEnv struct {
	O       EnvOpts
	C       *gocbcore.SimCluster
	Cfg     *config.Dcp
	D       dcp.Dcp
	Cons    *RecConsumer
	EH      *RecHandler
	Started bool
	Done    bool // Start() returned
	Err     error
	// LateSaveAfterInflight is set by a scenario when the closing save began only after an in-flight save had completed
	LateSaveAfterInflight bool
}

type DcpOpts struct {
	EnvOpts
	ServerVersion string
	BucketType    string
	Storage       string
	HealthCheck   bool
	Tweak         func(cfg *config.Dcp)
}

func isLoopbackFlake(err error) bool {
	m := err.Error()
	return strings.Contains(m, "dial") || strings.Contains(m, "timed out") || strings.Contains(m, "i/o timeout")
}

// NewDcpEnv runs the real constructor.
func NewDcpEnv(c *gocbcore.SimCluster, o DcpOpts) *DcpEnv {
	o.EnvOpts.defaults()
	if o.ServerVersion == "" {
		o.ServerVersion = "7.2.0-5325-enterprise"
	}
	if o.BucketType == "" {
		o.BucketType = "membase"
	}
	if o.Storage == "" {
		o.Storage = "couchstore"
	}
	c.MgmtEndpoint = mgmtURL()
	setMgmt(o.ServerVersion, o.BucketType, o.Storage)
	gocbcore.SimInstall(c)
	cfg := o.EnvOpts.config()
	cfg.HealthCheck.Disabled = !o.HealthCheck
	if o.Tweak != nil {
		o.Tweak(cfg)
	}
	e := &DcpEnv{O: o.EnvOpts, C: c, Cfg: cfg, Cons: NewRecConsumer(o.AutoAck), EH: &RecHandler{}}
	d, err := dcp.NewExtendedDcp(cfg, e.Cons)
	// The constructor asks the loopback /pools listener over real TCP with fasthttp's wall-clock dial timeout;
	// on a starved machine that dial can time out. This is the only real-time dependency of the harness, it
	// happens before anything is explored, and it is retried (real time) instead of being reported.
	for try := 0; err != nil && try < 20 && isLoopbackFlake(err); try++ {
		time.Sleep(300 * time.Millisecond) // real time
		c.KillAgents()
		d, err = dcp.NewExtendedDcp(cfg, e.Cons)
	}
	if err != nil {
		e.Err = err
		return e
	}
	d.SetEventHandler(e.EH)
	e.D = d
	return e
}

// Start runs Dcp.Start() on its own controlled thread and waits for readiness.
func (e *DcpEnv) Start() {
	e.Started = true
	vrt.GoNamed("dcp.Start", func() {
		e.D.Start()
		e.Done = true
	})
	vrt.Recv(e.D.WaitUntilReady())
}

// StartNoWait runs Start() without waiting for readiness.
func (e *DcpEnv) StartNoWait() {
	e.Started = true
	vrt.GoNamed("dcp.Start", func() {
		e.D.Start()
		e.Done = true
	})
}

func (e *DcpEnv) metaBucket() string {
	if e.O.MetaBucket != "" {
		return e.O.MetaBucket
	}
	return srcBucket
}

func (e *DcpEnv) StoredSeq(vb uint16) (uint64, bool) {
	d, ok := StoredDoc(e.C, e.metaBucket(), e.O.Group, vb)
	if !ok {
		return 0, false
	}
	return d.Checkpoint.SeqNo, true
}

// savesAfterCallSkipped: placeholder for the attribution of the C05 race in lifecycle scenarios (the closing
// save found nothing dirty because a concurrent successful save had just wiped the marks).
func (e *DcpEnv) savesAfterCallSkipped() bool { return e.LateSaveAfterInflight }

func (e *DcpEnv) bus() EventBus.Bus { return dcp.VerifBus(e.D) }

func dcpStream(e *DcpEnv) stream.Stream { return dcp.VerifStream(e.D) }

func versionString(t [4]int) string {
	return fmt.Sprintf("%d.%d.%d-%d-enterprise", t[0], t[1], t[2], t[3])
}

var _ = strings.Contains
