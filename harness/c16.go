package main

import (
	"encoding/json"
	"fmt"
	"github.com/Trendyol/go-dcp/api"
	"github.com/Trendyol/go-dcp/config"
	"github.com/Trendyol/go-dcp/models"
	"github.com/couchbase/gocbcore/v10"
	"math/big"
	"sort"
	"strings"
	"time"

	"github.com/Trendyol/go-dcp/metric"
	"github.com/prometheus/client_golang/prometheus"
	dto "github.com/prometheus/client_model/go"

	"verif/vrt"
)

// C16 — exposed metrics and state endpoints tell the truth.
// The real metricCollector.Collect is drained into a channel and decoded; scrapes are taken at quiescence
// after every history over {deliver, ack, commit, rebalance, set high seqno}, and concurrently with
// Close / Rebalance / Open under the controlled scheduler.

type MetricParams struct {
	Depth int `json:"depth"`
	// SkipUntil: dcp.listener.skipUntil is configured and some events are older: they are not accepted and
	// must not be counted
	SkipUntil bool `json:"skip_until"`
	// Faults adds two operations: a rebalance during which the close-stream request of one vBucket fails and no
	// stream end follows for it; a scrape whose high-seqno request is answered with an error
	Faults bool `json:"faults"`
}

type ScrapeRaceParams struct {
	Against string `json:"against"` // close | rebalance | open
	Inject  bool   `json:"inject"`  // start the scrape at every scheduling point of the operation (crash-point style)
}

type sample struct {
	name   string
	labels string
	value  float64
}

// scrape runs the real collector and decodes what it emits.
func scrape(e *Env) (map[string]float64, error) {
	// one collector for the life of the process, as registered by the library (state kept across scrapes matters)
	if e.Col == nil {
		e.Col = metric.NewMetricCollector(e.Client, e.Stream, e.VBD)
	}
	col := e.Col
	ch := make(chan prometheus.Metric, 4096)
	col.Collect(ch)
	out := map[string]float64{}
	// (the collector is instrumented: what it sent sits in the scheduler's queue of this channel)
	for {
		m, ok := vrt.RecvNow[prometheus.Metric](ch)
		if !ok {
			break
		}
		var d dto.Metric
		if err := m.Write(&d); err != nil {
			return nil, err
		}
		desc := m.Desc().String()
		name := desc[strings.Index(desc, `fqName: "`)+9:]
		name = name[:strings.Index(name, `"`)]
		var ls []string
		for _, l := range d.Label {
			ls = append(ls, l.GetName()+"="+l.GetValue())
		}
		sort.Strings(ls)
		v := 0.0
		if d.Gauge != nil {
			v = d.Gauge.GetValue()
		}
		if d.Counter != nil {
			v = d.Counter.GetValue()
		}
		key := name
		if len(ls) > 0 {
			key += "{" + strings.Join(ls, ",") + "}"
		}
		if _, dup := out[key]; dup {
			return nil, fmt.Errorf("metric %s emitted twice", key)
		}
		out[key] = v
	}
	return out, nil
}

func init() {
	scenarios["c16_hist"] = func(raw json.RawMessage) *vrt.Scenario {
		var p MetricParams
		_ = json.Unmarshal(raw, &p)
		return &vrt.Scenario{Name: "c16_hist", Main: func() { metricHistMain(p) }, FreeChoices: true, MaxSteps: 400000}
	}
	scenarios["c16_race"] = func(raw json.RawMessage) *vrt.Scenario {
		var p ScrapeRaceParams
		_ = json.Unmarshal(raw, &p)
		return &vrt.Scenario{Name: "c16_race", Main: func() { scrapeRaceMain(p) }, MaxSteps: 400000, NoTimerAlt: true, FreeChoices: p.Inject}
	}
	register(&Property{
		ID:        "C16",
		Technique: "explicit enumeration of operation histories followed by a scrape of the real prometheus collector (decoded and compared with a reference computed in big.Int), and deviation-bounded schedule exploration of a scrape racing Close / Rebalance / Open",
		Rule:      "histories of length <= depth over {deliver(kind, vb), ack, commit, rebalance to 1/1 | 1/2 | 2/2, set high seqno below / above the tracked position}, scrape after every step; race: all interleavings within the bound of Collect with Close, Rebalance and the first Open; non-trivial = distinct (history, metric vector)",
		Assume:    []string{"per-kind counters count events that reached the listener in the current stream session (reserved-key documents included)", "the agent-queue metrics are read by reflection from the simulated snapshot and not checked"},
		Instances: func(tier string) []Instance {
			d, b, sh := 3, 2, 4
			if tier == "thorough" {
				d, b, sh = 4, 3, 16
			}
			return []Instance{
				{Scenario: "c16_hist", Params: mustJSON(MetricParams{Depth: d}), Bound: 0, Shards: 8},
				{Scenario: "c16_hist", Params: mustJSON(MetricParams{Depth: d - 1, Faults: true}), Bound: 0, Shards: 8, Note: "alphabet extended by a rebalance with a failing close-stream request (no stream end follows) and a scrape whose high-seqno request fails"},
				{Scenario: "c16_hist", Params: mustJSON(MetricParams{Depth: d - 1, SkipUntil: true}), Bound: 0, Shards: 4, Note: "skipUntil configured: events older than it are not accepted and not counted"},
				{Scenario: "c12_duringopen", Params: mustJSON(struct{}{}), Bound: 1, Shards: 4, Note: "the active-stream figure when a stream ends while Open() still waits for another vBucket"},
				{Scenario: "c16_race", Params: mustJSON(ScrapeRaceParams{Against: "close"}), Bound: b, Shards: sh},
				{Scenario: "c16_race", Params: mustJSON(ScrapeRaceParams{Against: "rebalance"}), Bound: b, Shards: sh},
				{Scenario: "c16_race", Params: mustJSON(ScrapeRaceParams{Against: "open"}), Bound: b, Shards: sh},
				{Scenario: "c12_afterrebalance", Params: mustJSON(AfterRebParams{OldServer: true, Dynamic: true, CountOnly: true}), Bound: 1, Shards: 8, Note: "server below 5.5.0, dynamic membership (immediate re-open): the asynchronous end of the last stream the old session closed must not lower the active-stream figure of the new session (every schedule within the bound)"},
				{Scenario: "c12_afterrebalance", Params: mustJSON(AfterRebParams{Dynamic: true, CountOnly: true}), Bound: 1, Shards: 8},
				{Scenario: "c20_scrapefault", Params: mustJSON(struct{}{}), Bound: 0, Note: "scrapes around a failing sequence-number query: the lag is the value currently in effect or absent, never a stale one"},
				{Scenario: "c16_finitelag", Params: mustJSON(struct{}{}), Bound: 0, Note: "finite mode with writes going on after the end bounds were sampled: the lag follows the server's current high seqno"},
				{Scenario: "c16_infoduringopen", Params: mustJSON(struct{}{}), Bound: 1, Shards: 4, Note: "a new numbering published at every point of the Open() of the first and of a second session: membership and range gauges describe one assignment, the one the streams were opened for"},
				{Scenario: "c16_race", Params: mustJSON(ScrapeRaceParams{Against: "scrape", Inject: true}), Bound: 1, Shards: 8, Note: "two overlapping scrapes of the one collector (a whole scrape injected at every point of another, plus one deviation): each reports a total lag equal to the sum of its own per-vBucket lags"},
				{Scenario: "c16_race", Params: mustJSON(ScrapeRaceParams{Against: "scrape"}), Bound: b, Shards: sh, Note: "two overlapping scrapes under every schedule within the bound"},
				{Scenario: "c16_race", Params: mustJSON(ScrapeRaceParams{Against: "close", Inject: true}), Bound: 1, Shards: 8, Note: "scrape injected at every scheduling point of Close, plus one further deviation"},
				{Scenario: "c16_race", Params: mustJSON(ScrapeRaceParams{Against: "rebalance", Inject: true}), Bound: 1, Shards: 8},
				{Scenario: "c16_race", Params: mustJSON(ScrapeRaceParams{Against: "open", Inject: true}), Bound: 1, Shards: 8},
			}
		},
	})
}

type metricRef struct {
	kinds  map[uint16]map[string]int // per vb: mutation/deletion/expiration that reached the listener this session
	member [2]int
	rng    [2]uint16
	rebal  int
}

func metricHistMain(p MetricParams) {
	resetGlobals()
	o := EnvOpts{Vbs: 4, CheckpointType: "manual", MembershipType: "dynamic", WrapMeta: true}
	if p.SkipUntil {
		t := skipT
		o.SkipUntil = &t
	}
	c := NewCluster(&o)
	e := NewEnv(c, o)
	publishInfo(e, 1, 1)
	vrt.Sleep(1)
	e.Stream.Open()
	c.WaitIdle()
	ref := &metricRef{kinds: map[uint16]map[string]int{}, member: [2]int{1, 1}, rng: [2]uint16{0, 3}}
	next := map[uint16]uint64{0: 1, 1: 1, 2: 1, 3: 1}
	var hist []string
	kinds := []string{"M", "D", "E", "Mres", "SEQ"}
	if p.SkipUntil {
		kinds = []string{"M", "Mbefore", "Ebefore", "Mat", "D"}
	}
	carry := map[uint16]map[string]int{}
	sentOnCurrentStream := func(vb uint16) map[string]int {
		var start uint64
		for _, r := range c.RequestsOf("openstream") {
			if r.Vb == vb && r.Err == nil && r.Finished != 0 {
				start = r.Args[2]
			}
		}
		sent := map[string]int{}
		for _, pk := range c.Vb[vb].Log {
			if isDoc(pk.Kind) && pk.Seq > start {
				if p.SkipUntil && time.Unix(int64(pk.Cas/1000000000), 0).Before(skipT) {
					continue // older than skipUntil: not accepted
				}
				sent[pk.Kind]++
			}
		}
		return sent
	}
	seqnoFault := false
	check := func() {
		vrt.Quiesce()
		c.WaitIdle()
		// the state endpoint (one API object for the life of the process) tells the same truth
		if e.API == nil {
			e.API = newAPI(e.Cfg, e.Client, e.Stream, []prometheus.Collector{}, e.Bus, e.VBD)
		}
		if _, body, aerr := api.VerifOffset(e.API.(api.API)); aerr != nil {
			vrt.Failf("after %v: GET /states/offset failed: %v", hist, aerr)
		} else {
			var served map[string]struct {
				SeqNo      uint64
				StartSeqNo uint64
				EndSeqNo   uint64
				VbUUID     uint64
			}
			if jerr := json.Unmarshal([]byte(body), &served); jerr != nil {
				vrt.Failf("after %v: GET /states/offset returned %q", hist, body)
			} else {
				offs, _, _ := e.Stream.GetOffsets()
				n := 0
				offs.Range(func(vb uint16, o *models.Offset) bool {
					n++
					sv, ok := served[fmt.Sprint(vb)]
					if !ok || sv.SeqNo != o.SeqNo || uint64(o.VbUUID) != sv.VbUUID {
						vrt.Failf("after %v: GET /states/offset reports %+v (present=%v) for vb%d, the tracked position is seqNo %d vbUUID %d", hist, sv, ok, vb, o.SeqNo, o.VbUUID)
					}
					return true
				})
				if len(served) != n {
					vrt.Failf("after %v: GET /states/offset lists %d vBuckets, %d are tracked", hist, len(served), n)
				}
			}
		}
		got, err := scrape(e)
		if err != nil && seqnoFault {
			return // the scrape reports the failure instead of figures: fine
		}
		if err != nil {
			vrt.Failf("after %v: scrape failed: %v", hist, err)
			return
		}
		offs, _, _ := e.Stream.GetOffsets()
		total := new(big.Int)
		for vb := ref.rng[0]; vb <= ref.rng[1]; vb++ {
			off, ok := offs.Load(vb)
			if !ok {
				vrt.Failf("after %v: no tracked offset for assigned vb%d", hist, vb)
				continue
			}
			l := fmt.Sprintf("{vbId=%d}", vb)
			var s0, s1 uint64
			if off.SnapshotMarker != nil {
				s0, s1 = off.StartSeqNo, off.EndSeqNo
			}
			// independent of the library's own table: every event of these histories is announced in a snapshot of
			// its own ([s,s]), so the snapshot range of the tracked position S is [S,S] - whatever markers arrived since
			if s0 != off.SeqNo || s1 != off.SeqNo {
				vrt.Failf("after %v: the tracked offset of vb%d is seq %d with the snapshot range [%d,%d]; the server announced [%d,%d] for that event", hist, vb, off.SeqNo, s0, s1, off.SeqNo, off.SeqNo)
			}
			for name, want := range map[string]float64{"cbgo_seq_no_current": float64(off.SeqNo), "cbgo_start_seq_no_current": float64(s0), "cbgo_end_seq_no_current": float64(s1)} {
				if v, ok := got[name+l]; !ok || v != want {
					vrt.Failf("after %v: %s%s = %v (present=%v), tracked value %v", hist, name, l, v, ok, want)
				}
			}
			high := new(big.Int).SetUint64(c.Vb[vb].High)
			lag := new(big.Int).Sub(high, new(big.Int).SetUint64(off.SeqNo))
			if lag.Sign() < 0 {
				lag.SetInt64(0)
			}
			total.Add(total, lag)
			lf, _ := new(big.Float).SetInt(lag).Float64()
			if v, ok := got["cbgo_lag_current"+l]; !ok || v != lf {
				vrt.Failf("after %v: lag of vb%d = %v, want max(0, high %d - tracked %d) = %v", hist, vb, v, c.Vb[vb].High, off.SeqNo, lf)
			}
			// events of each kind the server sent on the current stream of this vBucket (everything above
			// the start position of the latest successful stream request; nothing is filtered here)
			sent := sentOnCurrentStream(vb)
			for k, n := range carry[vb] {
				sent[k] += n // accepted on earlier streams of this session (before an in-session re-open)
			}
			for kind, mname := range map[string]string{"mutation": "cbgo_mutation_total", "deletion": "cbgo_deletion_total", "expiration": "cbgo_expiration_total"} {
				want := float64(sent[kind])
				if v, ok := got[mname+l]; !ok || v != want {
					vrt.Failf("after %v: %s%s = %v, %v such events were accepted for vb%d in this session", hist, mname, l, v, want, vb)
				}
			}
		}
		// nothing is reported for vBuckets outside the range
		for k := range got {
			if i := strings.Index(k, "{vbId="); i >= 0 {
				var vb int
				fmt.Sscanf(k[i:], "{vbId=%d}", &vb)
				if uint16(vb) < ref.rng[0] || uint16(vb) > ref.rng[1] {
					vrt.Failf("after %v: metric %s for a vBucket outside the assigned range %v", hist, k, ref.rng)
				}
			}
		}
		tf, _ := new(big.Float).SetInt(total).Float64()
		if v := got["cbgo_total_lag_current"]; v != tf {
			vrt.Failf("after %v: total lag = %v, sum of the per-vBucket lags = %v", hist, v, tf)
		}
		for name, want := range map[string]float64{
			"cbgo_member_number_current": float64(ref.member[0]), "cbgo_total_members_current": float64(ref.member[1]),
			"cbgo_vbucket_range_start_current": float64(ref.rng[0]), "cbgo_vbucket_range_end_current": float64(ref.rng[1]),
			"cbgo_vbucket_count_current": 4, "cbgo_active_stream_current": float64(ref.rng[1] - ref.rng[0] + 1),
			"cbgo_rebalance_current": float64(ref.rebal),
		} {
			if v, ok := got[name]; !ok || v != want {
				vrt.Failf("after %v: %s = %v (present=%v), value in effect %v", hist, name, v, ok, want)
			}
		}
		if _, ok := got["cbgo_membership_type_current{type=dynamic}"]; !ok {
			vrt.Failf("after %v: membership type metric missing", hist)
		}
	}
	check()
	for step := 0; step < p.Depth; step++ {
		nops := 9
		if p.Faults {
			nops = 13
		}
		op := vrt.Choose(nops, true, "op")
		restore := func() {}
		switch op {
		case 9: // a rebalance (same numbering) during which the close-stream request of one vBucket fails; no
			// stream end is ever reported for it (the connection had a problem, the server has dropped the stream)
			fvb := ref.rng[0]
			armed := true
			c.Fault = func(r *gocbcore.SimRequest) gocbcore.SimAnswer {
				if armed && r.Kind == "closestream" && r.Vb == fvb {
					armed = false
					c.KillStream(fvb)
					return gocbcore.SimAnswer{Kind: "err", Err: gocbcore.ErrTemporaryFailure}
				}
				return gocbcore.SimAnswer{}
			}
			publishInfo(e, ref.member[0], ref.member[1])
			vrt.Sleep(1)
			e.Stream.Rebalance()
			vrt.Sleep(1e9)
			vrt.Quiesce()
			c.Fault = nil
			hist = append(hist, fmt.Sprintf("rebalance(close-stream of vb%d fails, no end follows)", fvb))
			ref.rebal++
			ref.kinds = map[uint16]map[string]int{}
			carry = map[uint16]map[string]int{}
			e.Cons.Events = nil
		case 11: // the first vBucket of the range has no active copy for the scrape of this step (fail-over in
			// progress): the sequence-number answers do not cover it; its position gauges are still reported,
			// its lag is computed against a high seqno of 0
			vb := ref.rng[0]
			old := c.VbMap
			nm := make([][]int, len(old))
			for i := range old {
				nm[i] = append([]int{}, old[i]...)
			}
			nm[vb][0] = -1
			c.VbMap = nm
			oldHigh := c.Vb[vb].High
			c.Vb[vb].High = 0
			restore = func() { c.VbMap = old; c.Vb[vb].High = oldHigh }
			hist = append(hist, fmt.Sprintf("no-active-copy(vb%d)", vb))
		case 12: // a transient end of the first vBucket of the range and the library's own re-open: same session,
			// the counters go on
			vb := ref.rng[0]
			before := sentOnCurrentStream(vb)
			if c.EndStream(vb, gocbcore.ErrSocketClosed) {
				vrt.Sleep(2 * time.Second)
				vrt.Quiesce()
				c.WaitIdle()
				if carry[vb] == nil {
					carry[vb] = map[string]int{}
				}
				for k, n := range before {
					carry[vb][k] += n
				}
			}
			hist = append(hist, fmt.Sprintf("transient-end+re-open(vb%d)", vb))
		case 10: // the high-seqno request of the next scrape is answered with an error (after progress on the server)
			vb := ref.rng[0]
			s := c.Vb[vb].High + 1
			next[vb] = s + 1
			c.Append(vb, marker(s, s), symbolPacket("M", s))
			c.WaitIdle()
			vrt.Quiesce()
			c.Fault = func(r *gocbcore.SimRequest) gocbcore.SimAnswer {
				if r.Kind == "vbseqnos" {
					return gocbcore.SimAnswer{Kind: "err", Err: gocbcore.ErrTemporaryFailure}
				}
				return gocbcore.SimAnswer{}
			}
			seqnoFault = true
			restore = func() { c.Fault = nil; seqnoFault = false }
			hist = append(hist, fmt.Sprintf("deliver(vb%d,M);seqno-request-fails", vb))
		case 0, 1: // deliver on the first / last vBucket of the range
			vb := ref.rng[0]
			if op == 1 {
				vb = ref.rng[1]
			}
			k := kinds[vrt.Choose(len(kinds), true, "kind")]
			s := next[vb]
			if c.Vb[vb].High >= s {
				s = c.Vb[vb].High + 1
			}
			next[vb] = s + 1
			c.Append(vb, marker(s, s), symbolPacket(k, s))
			hist = append(hist, fmt.Sprintf("deliver(vb%d,%s)", vb, k))
			if ref.kinds[vb] == nil {
				ref.kinds[vb] = map[string]int{}
			}
			switch k {
			case "M", "Mres":
				ref.kinds[vb]["mutation"]++
			case "D":
				ref.kinds[vb]["deletion"]++
			case "E":
				ref.kinds[vb]["expiration"]++
			}
		case 2:
			done := false
			for _, d := range e.Cons.Events {
				if !d.Acked {
					d.Acked = true
					d.Ctx.Ack()
					done = true
					break
				}
			}
			hist = append(hist, fmt.Sprintf("ack(%v)", done))
		case 3:
			e.Stream.Save()
			hist = append(hist, "commit")
		case 4, 5, 6:
			m := [][2]int{{1, 1}, {1, 2}, {2, 2}}[op-4]
			publishInfo(e, m[0], m[1])
			vrt.Sleep(1)
			e.Stream.Rebalance()
			vrt.Sleep(1e9)
			vrt.Quiesce()
			hist = append(hist, fmt.Sprintf("rebalance(%d/%d)", m[0], m[1]))
			ref.member = m
			ref.rebal++
			switch m {
			case [2]int{1, 1}:
				ref.rng = [2]uint16{0, 3}
			case [2]int{1, 2}:
				ref.rng = [2]uint16{0, 1}
			default:
				ref.rng = [2]uint16{2, 3}
			}
			ref.kinds = map[uint16]map[string]int{} // new observers: counters restart with the session
			carry = map[uint16]map[string]int{}
			e.Cons.Events = nil
		case 8: // two requests for the same numbering back to back: one rebalance happens, one is counted
			publishInfo(e, ref.member[0], ref.member[1])
			vrt.Sleep(1)
			e.Stream.Rebalance()
			e.Stream.Rebalance()
			// (the second request re-arms the timer with the configured delay, also with dynamic membership)
			vrt.Sleep(e.Cfg.Dcp.Group.Membership.RebalanceDelay + time.Second)
			vrt.Quiesce()
			hist = append(hist, "rebalance-requested-twice")
			ref.rebal++
			ref.kinds = map[uint16]map[string]int{}
			carry = map[uint16]map[string]int{}
			e.Cons.Events = nil
		case 7: // the server's high seqno as seen by the next scrape drops below / jumps above the position
			vb := ref.rng[0]
			tr, _ := e.Tracked(vb)
			if vrt.Choose(2, true, "high") == 0 {
				if tr > 0 {
					// only for the scrape of this step: a high seqno that stays below a saved checkpoint makes the
					// next session fail fast (C15), which is not what this scenario is about
					old := c.Vb[vb].High
					restore = func() { c.Vb[vb].High = old }
					c.Vb[vb].High = tr - 1
				}
				hist = append(hist, fmt.Sprintf("high(vb%d)=below", vb))
			} else {
				c.Vb[vb].High = tr + 1<<62
				hist = append(hist, fmt.Sprintf("high(vb%d)=far-above", vb))
			}
		}
		check()
		restore()
	}
	vrt.SetOutcome(fmt.Sprintf("%v", hist))
}

func scrapeRaceMain(p ScrapeRaceParams) {
	resetGlobals()
	o := EnvOpts{Vbs: 2, CheckpointType: "manual", WrapMeta: true, RebalanceDelay: 1e9}
	c := NewCluster(&o)
	c.Append(0, marker(1, 2), symbolPacket("M", 1), symbolPacket("D", 2))
	e := NewEnv(c, o)
	e.Cons.AutoAck = true
	if p.Against != "open" {
		e.Stream.Open()
		c.WaitIdle()
	}
	if p.Against == "scrape" {
		// both vBuckets lag behind (by 5 and by 4): the total of a scrape is the sum of ITS per-vBucket figures
		c.Vb[0].High, c.Vb[1].High = 7, 4
	}
	checkLagSum := func(who string, m map[string]float64) {
		sum := 0.0
		for k, v := range m {
			if strings.HasPrefix(k, "cbgo_lag_current{") {
				sum += v
			}
		}
		if t, ok := m["cbgo_total_lag_current"]; ok && t != sum {
			vrt.Failf("two overlapping scrapes: %s reports total lag %v, the per-vBucket lags it reports add up to %v", who, t, sum)
		}
	}
	var wg vrt.WaitGroup
	wg.Add(2)
	var got map[string]float64
	var serr error
	var scrapeTook time.Duration
	vrt.Window(true)
	vrt.GoNamed("actor", func() {
		defer wg.Done()
		switch p.Against {
		case "scrape":
			// a second scrape of the same collector (prometheus allows overlapping Collect calls)
			m, err := scrape(e)
			if err != nil {
				vrt.Failf("overlapping scrape failed: %v", err)
			}
			checkLagSum("the other scrape", m)
		case "close":
			e.Stream.Close(false)
		case "rebalance":
			e.Stream.Rebalance()
			vrt.Sleep(2e9)
		case "open":
			e.Stream.Open()
		}
	})
	if p.Inject {
		k := vrt.Choose(200, true, "inject-at-point")
		inject := vrt.InjectAt
		if p.Against == "scrape" {
			inject = vrt.InjectAtomic // the other scrape is held between two of its statements for a whole scrape
		}
		inject("actor", k, func() {
			defer wg.Done()
			t0 := vrt.NowNanos()
			got, serr = scrape(e)
			scrapeTook = time.Duration(vrt.NowNanos() - t0)
		})
	} else {
		vrt.GoNamed("scraper", func() {
			defer wg.Done()
			t0 := vrt.NowNanos()
			got, serr = scrape(e)
			scrapeTook = time.Duration(vrt.NowNanos() - t0)
		})
	}
	wg.Wait()
	vrt.Window(false)
	if serr != nil {
		vrt.Failf("scrape racing %s failed: %v", p.Against, serr)
	}
	if p.Against == "scrape" {
		checkLagSum("the scrape", got)
		vrt.SetOutcome(fmt.Sprintf("scrape|%v", got["cbgo_total_lag_current"]))
		e.Stream.Close(false)
		return
	}
	// a scrape never waits for the stream: it costs its own requests (no server latency in this scenario), not the
	// rebalance delay (1 s here) or the rest of a close / open
	if scrapeTook >= 500*time.Millisecond {
		vrt.Failf("scrape racing %s took %v of virtual time: it was blocked by the operation it raced", p.Against, scrapeTook)
	}
	// every emitted position is one of the values the reference takes before or after the operation
	for k, v := range got {
		if strings.HasPrefix(k, "cbgo_seq_no_current{vbId=0}") && v != 0 && v != 2 {
			vrt.Failf("scrape racing %s reported position %v for vb0 (legal: 0 or 2)", p.Against, v)
		}
		if strings.HasPrefix(k, "cbgo_mutation_total{vbId=0}") && v != 0 && v != 1 {
			vrt.Failf("scrape racing %s reported %v mutations for vb0 (legal: 0 or 1)", p.Against, v)
		}
		if k == "cbgo_active_stream_current" && (v < 0 || v > 2) {
			vrt.Failf("scrape racing %s reported %v active streams (legal: 0..2)", p.Against, v)
		}
	}
	// a scrape while the stream is closed returns without emitting per-vBucket series
	if p.Against == "close" {
		again, err := scrape(e)
		if err != nil || len(again) != 0 {
			vrt.Failf("scrape on a closed stream emitted %d series (err %v)", len(again), err)
		}
	}
	vrt.SetOutcome(fmt.Sprintf("%s:%d", p.Against, len(got)))
}

// c16_infoduringopen: dynamic membership; a new numbering is published at every scheduling point of the Open()
// that starts a session (start-up and the re-open after a rebalance). Whatever Open() picks up, the membership
// gauges and the vBucket-range gauges of the next scrape describe ONE assignment: the range is the chunk of
// (member number, group size) as reported.
func init() {
	scenarios["c16_infoduringopen"] = func(raw json.RawMessage) *vrt.Scenario {
		return &vrt.Scenario{Name: "c16_infoduringopen", FreeChoices: true, NoTimerAlt: true, MaxSteps: 400000, Main: func() {
			resetGlobals()
			o := EnvOpts{Vbs: 8, CheckpointType: "manual", MembershipType: "dynamic", WrapMeta: true}
			c := NewCluster(&o)
			e := NewEnv(c, o)
			e.Cons.AutoAck = true
			second := vrt.Choose(2, true, "session") == 1
			vrt.GoNamed("first-membership", func() {
				vrt.Sleep(1)
				publishInfo(e, 1, 2)
			})
			vrt.Sleep(2)
			if second {
				e.Stream.Open()
				c.WaitIdle()
				e.Stream.Close(false)
			}
			k := vrt.Choose(60, true, "publish-at-point")
			vrt.Window(true)
			done := false
			vrt.GoNamed("opener", func() {
				e.Stream.Open()
				done = true
			})
			vrt.InjectAtomic("opener", k, func() {
				publishInfo(e, 2, 4)
			})
			vrt.Sleep(5e9)
			vrt.Quiesce()
			vrt.Window(false)
			c.WaitIdle()
			if !done {
				vrt.Failf("Open() did not return")
				return
			}
			got, err := scrape(e)
			if err != nil {
				vrt.Failf("scrape failed: %v", err)
				return
			}
			m, t := int(got["cbgo_member_number_current"]), int(got["cbgo_total_members_current"])
			rs, re := int(got["cbgo_vbucket_range_start_current"]), int(got["cbgo_vbucket_range_end_current"])
			want := map[[2]int][2]int{{1, 2}: {0, 3}, {2, 4}: {2, 3}}
			w, ok := want[[2]int{m, t}]
			if !ok {
				vrt.Failf("numbering published at point %d of Open(): the gauges report member %d of %d, which was never announced", k, m, t)
			} else if w != [2]int{rs, re} {
				vrt.Failf("numbering published at point %d of Open() (session %d): the gauges report member %d of %d but the vBucket range %d..%d (the range of member %d of %d is %d..%d): they do not describe one assignment", k, map[bool]int{false: 1, true: 2}[second], m, t, rs, re, m, t, w[0], w[1])
			}
			// ... and it is the assignment the streams were opened for
			for vb := 0; vb < 8; vb++ {
				if c.StreamOpen(uint16(vb)) != (vb >= rs && vb <= re) {
					vrt.Failf("numbering published at point %d of Open(): vb%d streamed=%v, the gauges report the range %d..%d", k, vb, c.StreamOpen(uint16(vb)), rs, re)
				}
			}
			vrt.SetOutcome(fmt.Sprintf("session=%v|%d/%d|%d..%d", second, m, t, rs, re))
			e.Stream.Close(false)
		}}
	}
}

// c16_finitelag: finite mode; the bucket keeps being written to after the run has sampled its end bounds. "Lag =
// max(0, the vBucket's high seqno - the tracked position)" and "total lag = the sum": the figures follow the
// server's current high seqno, not the end bound of the run.
func init() {
	scenarios["c16_finitelag"] = func(raw json.RawMessage) *vrt.Scenario {
		return &vrt.Scenario{Name: "c16_finitelag", FreeChoices: true, NoTimerAlt: true, MaxSteps: 400000, Main: func() {
			resetGlobals()
			when := vrt.Choose(2, true, "scrape") // 0: while the run is under way (consumer busy), 1: after it has ended
			o := EnvOpts{Vbs: 2, CheckpointType: "manual", Mode: config.DcpModeFinite, WrapMeta: true}
			c := NewCluster(&o)
			for vb := uint16(0); vb < 2; vb++ {
				c.Append(vb, marker(1, 2), symbolPacket("M", 1), symbolPacket("M", 2))
			}
			e := NewEnv(c, o)
			e.Cons.AutoAck = true
			if when == 0 {
				e.Cons.OnConsume = func(d *Delivered) {
					if d.Seq == 2 {
						vrt.Sleep(time.Hour)
					}
				}
			}
			e.Stream.Open()
			vrt.Sleep(2 * time.Second)
			// writes go on
			c.Vb[0].High, c.Vb[1].High = 52, 12
			got, err := scrape(e)
			if err != nil {
				vrt.Failf("scrape failed: %v", err)
				return
			}
			offs, _, _ := e.Stream.GetOffsets()
			total := 0.0
			for vb := uint16(0); vb < 2; vb++ {
				off, _ := offs.Load(vb)
				want := float64(c.Vb[vb].High - off.SeqNo)
				total += want
				if v := got[fmt.Sprintf("cbgo_lag_current{vbId=%d}", vb)]; v != want {
					vrt.Failf("finite mode, the bucket was written to after the run started: lag of vb%d = %v, want high %d - tracked %d = %v", vb, v, c.Vb[vb].High, off.SeqNo, want)
				}
			}
			if v := got["cbgo_total_lag_current"]; v != total {
				vrt.Failf("finite mode: total lag = %v, want %v", v, total)
			}
			vrt.SetOutcome(fmt.Sprintf("when=%d total=%v", when, total))
		}}
	}
}

// c20_scrapefault: the metrics collector's sequence-number query across scrapes: a healthy scrape, six seconds
// later a scrape whose query fails (no lag is published for it), one second later - the server is healthy again
// and has moved on - another scrape: it publishes the lag of the server's CURRENT answer, never an older table
// passed off as fresh ("success is never reported for an operation the server did not confirm").
func init() {
	scenarios["c20_scrapefault"] = func(raw json.RawMessage) *vrt.Scenario {
		return &vrt.Scenario{Name: "c20_scrapefault", FreeChoices: true, NoTimerAlt: true, MaxSteps: 400000, Main: func() {
			resetGlobals()
			gap1 := []time.Duration{0, time.Second, 6 * time.Second, time.Minute}[vrt.Choose(4, true, "gap-before-the-failing-scrape")]
			gap2 := []time.Duration{0, time.Second, 6 * time.Second}[vrt.Choose(3, true, "gap-after-it")]
			how := vrt.Choose(2, true, "failure") // error status | never answered
			o := EnvOpts{Vbs: 2, CheckpointType: "manual", WrapMeta: true}
			c := NewCluster(&o)
			for vb := uint16(0); vb < 2; vb++ {
				c.Append(vb, marker(1, 2), symbolPacket("M", 1), symbolPacket("M", 2))
			}
			e := NewEnv(c, o)
			e.Cons.AutoAck = true
			e.Stream.Open()
			c.WaitIdle()
			c.Vb[0].High, c.Vb[1].High = 7, 4
			lagOf := func(m map[string]float64) [2]float64 {
				return [2]float64{m["cbgo_lag_current{vbId=0}"], m["cbgo_lag_current{vbId=1}"]}
			}
			desc := fmt.Sprintf("scrape, %v later a scrape whose sequence-number query fails (%s), %v later a third scrape", gap1, []string{"error status", "no answer"}[how], gap2)
			m1, err := scrape(e)
			if err != nil || lagOf(m1) != [2]float64{5, 2} {
				vrt.Failf("%s: first scrape: %v, lags %v, want [5 2]", desc, err, lagOf(m1))
				return
			}
			vrt.Sleep(gap1)
			c.Fault = func(r *gocbcore.SimRequest) gocbcore.SimAnswer {
				if r.Kind == "vbseqnos" {
					if how == 0 {
						return gocbcore.SimAnswer{Kind: "err", Err: gocbcore.ErrTemporaryFailure}
					}
					return gocbcore.SimAnswer{Kind: "drop"}
				}
				return gocbcore.SimAnswer{}
			}
			c.Vb[0].High, c.Vb[1].High = 20, 10
			n0 := len(c.RequestsOf("vbseqnos"))
			m2, err2 := scrape(e)
			sent2 := len(c.RequestsOf("vbseqnos")) - n0
			if err2 == nil {
				if _, has := m2["cbgo_lag_current{vbId=0}"]; has && sent2 == 0 {
					vrt.Failf("%s: the second scrape sent no query and published lags %v (the server is at [18 8] by now)", desc, lagOf(m2))
				} else if has && sent2 > 0 {
					vrt.Failf("%s: the query of the second scrape failed, a lag was published all the same: %v", desc, lagOf(m2))
				}
			}
			c.Fault = nil
			vrt.Sleep(gap2)
			c.Vb[0].High, c.Vb[1].High = 30, 12
			m3, err3 := scrape(e)
			if err3 != nil {
				vrt.Failf("%s: third scrape failed against a healthy server: %v", desc, err3)
			} else if lagOf(m3) != [2]float64{28, 10} {
				vrt.Failf("%s: the third scrape published lags %v, the server's current answer gives [28 10]", desc, lagOf(m3))
			}
			vrt.SetOutcome(desc)
			e.Stream.Close(false)
		}}
	}
}
