package main

import (
	"encoding/json"
	"fmt"
	dcp "github.com/Trendyol/go-dcp"
	"github.com/Trendyol/go-dcp/api"
	"github.com/Trendyol/go-dcp/config"
	"github.com/Trendyol/go-dcp/helpers"
	"github.com/Trendyol/go-dcp/membership"
	"github.com/Trendyol/go-dcp/models"
	"github.com/bytedance/sonic"
	"github.com/prometheus/client_golang/prometheus"
	"os"
	"strings"
	"time"

	"github.com/Trendyol/go-dcp/wrapper"
	"github.com/couchbase/gocbcore/v10"

	"verif/vrt"
)

// C05 — settled progress becomes durable; a failed save loses nothing.
//
// Scenario "savewindow": real stream + checkpoint + cbMetadata + client over the simulated cluster.
// Inside the exploration window run concurrently: consumer thread A acknowledging vb0 events,
// consumer thread B settling vb1 (acks, or absorbed events), one or two Save() callers (Commit and the
// periodic saver), and the KV reader thread completing the store calls; the environment may fail or
// drop each checkpoint write.  The execution is closed by one quiet successful save (the Close() save).

type SaveWinParams struct {
	Savers   int  `json:"savers"`
	Faults   bool `json:"faults"`
	Absorbed bool `json:"absorbed"` // vb1 is advanced by a seqno-advanced event arriving inside the window
	PreSave  bool `json:"presave"`  // one successful save before the window (documents already exist)
	File     bool `json:"file"`
	Reserved bool `json:"reserved"` // a library-internal-key document arrives on vb0 inside the window (absorbed, not dirtying)
	Inject   bool `json:"inject"`   // a complete successful save happens between two statements of the acknowledging thread, at every point
}

func init() {
	scenarios["c05_savewindow"] = func(raw json.RawMessage) *vrt.Scenario {
		var p SaveWinParams
		_ = json.Unmarshal(raw, &p)
		return &vrt.Scenario{Name: "c05_savewindow", Main: func() { saveWindow(p) }, MaxSteps: 50000, FreeChoices: p.Inject}
	}
	register(&Property{
		ID:        "C05",
		Technique: "stateless model checking of the real stream/checkpoint/metadata code: deviation-bounded DFS over thread interleavings, save faults and early timers",
		Rule:      "every schedule of {acker vb0, acker vb1, 1-2 savers, KV reader} with <= bound deviations (pre-emption at a yield point, non-default fault answer, early timer); an execution is distinct/non-trivial if its (status, stored seqnos, tracked seqnos, save log) differs from all others",
		Assume: []string{
			"sequential consistency at statement granularity (yield points before every access to a mutable shared field and every sync/channel/map operation)",
			"simulated cluster: KV sub-document semantics and gocbcore threading as described in DESIGN.md section 3",
		},
		Instances: func(tier string) []Instance {
			var out []Instance
			bound := 2
			for _, savers := range []int{1, 2} {
				for _, abs := range []bool{false, true} {
					for _, pre := range []bool{true, false} {
						out = append(out, Instance{Scenario: "c05_savewindow", Params: mustJSON(SaveWinParams{Savers: savers, Absorbed: abs, PreSave: pre}), Bound: bound, Shards: 2})
					}
				}
			}
			out = append(out, Instance{Scenario: "c05_savewindow", Params: mustJSON(SaveWinParams{Savers: 1, Faults: true, PreSave: true}), Bound: 2, Shards: 4})
			out = append(out, Instance{Scenario: "c05_savewindow", Params: mustJSON(SaveWinParams{Savers: 1, Reserved: true, PreSave: true}), Bound: 2, Shards: 4})
			out = append(out, Instance{Scenario: "c05_savewindow", Params: mustJSON(SaveWinParams{Inject: true, PreSave: true}), Bound: 1, Shards: 4, Note: "a whole save injected at every scheduling point of the acknowledging thread"})
			// sequential histories with rejected saves: every successful save stores, for every vBucket, the
			// furthest position settled before it as the untorn tuple of that very event (also when newer
			// snapshots have been announced meanwhile), a rejected save forgets nothing
			seq := []Instance{}
			for _, l := range []string{"backtoback", "seqadv", "multi"} {
				d := 6
				if tier == "thorough" {
					d = 7
				}
				seq = append(seq, Instance{Scenario: "pipe", Params: mustJSON(PipeParams{Mode: "script", Layout: l, Depth: d, Ops: []string{"deliver0", "deliver1", "ackold", "acknew", "commit"}, Faults: true}), Bound: 0, Shards: 4})
			}
			for _, be := range []string{"file", ""} {
				seq = append(seq, Instance{Scenario: "pipe", Params: mustJSON(PipeParams{Mode: "script", Layout: "single", Depth: map[string]int{"file": 7, "": 6}[be], Ops: []string{"deliver0", "deliver1", "ackold", "commit", "restart"}, Backend: be}), Bound: 0, Shards: 4,
					Note: "saves of a process that was restarted over the store of its predecessor: a save of the new session keeps (never forgets, never moves back) what earlier sessions stored for the vBuckets it did not touch (backend: " + map[string]string{"file": "file", "": "couchbase"}[be] + ")"})
			}
			if tier == "thorough" {
				for i := range out {
					out[i].Bound = 3
					out[i].Shards = 8
				}
				out = append(out, Instance{Scenario: "c05_savewindow", Params: mustJSON(SaveWinParams{Savers: 2, Faults: true, PreSave: true}), Bound: 3, Shards: 16})
			}
			out = append(out, seq...)
			out = append(out, Instance{Scenario: "c02_sessions", Params: mustJSON(SessionsParams{}), Bound: 0, Shards: 2, Note: "saves in the sessions after real rebalances that grow / shift the assignment: what is acknowledged on a newly acquired vBucket is stored by the next save (checked by the next session's stream request)"})
			out = append(out, Instance{Scenario: "c02_twogroups", Params: mustJSON(struct{}{}), Bound: 0, Note: "two consumer groups in one process: a successful save of a group stores ITS positions in ITS documents"})
			out = append(out, Instance{Scenario: "c05_windowcommit", Params: mustJSON(struct{}{}), Bound: 0, Note: "Commit() inside a rebalance window (manual checkpointing, couchbase and file metadata): what was stored before stays stored"})
			out = append(out, Instance{Scenario: "c05_grow", Params: mustJSON(struct{}{}), Bound: 0, Note: "a rebalance that enlarges the range: what is acknowledged on the acquired vBuckets survives the last tick of the previous session's schedule and is stored"})
			out = append(out, Instance{Scenario: "c05_rebalance_paths", Params: mustJSON(struct{}{}), Bound: 0, Note: "the save that precedes the close of a rebalance, for every way a rebalance is requested (bus, PUT /membership/info, GET /rebalance)"})
			out = append(out, Instance{Scenario: "c05_finite_close", Params: mustJSON(struct{}{}), Bound: 0, Note: "the closing save when the client stops on its own (finite mode, every stream ended): what was acknowledged is stored when Start() has returned"})
			out = append(out, Instance{Scenario: "c05_slowstore", Params: mustJSON(struct{}{}), Bound: 0, Note: "a custom backend whose Save() is slower than checkpoint.timeout while a second save is requested: the newer position wins"})
			out = append(out, Instance{Scenario: "c05_manyvb", Params: mustJSON(struct{}{}), Bound: 0, Shards: 2, Note: "one save for 129 / 300 acknowledged vBuckets"})
			return out
		},
	})
}

func maxAcked(cons *RecConsumer) map[uint16]uint64 {
	m := map[uint16]uint64{}
	for _, d := range cons.Events {
		if d.Acked && d.Seq > m[d.Vb] {
			m[d.Vb] = d.Seq
		}
	}
	return m
}

func saveWindow(p SaveWinParams) {
	resetGlobals()
	o := EnvOpts{Vbs: 2, CheckpointType: "manual", WrapMeta: true}
	c := NewCluster(&o)
	c.Append(0, marker(1, 3), mut(1, "a1"), mut(2, "a2"), mut(3, "a3"))
	if p.Absorbed {
		c.Append(1, marker(1, 1), mut(1, "b1"))
	} else {
		c.Append(1, marker(1, 2), mut(1, "b1"), mut(2, "b2"))
	}
	e := NewEnv(c, o)
	e.Stream.Open()
	c.WaitIdle()
	ack := func(vb uint16, seq uint64) {
		for _, d := range e.Cons.Events {
			if d.Vb == vb && d.Seq == seq {
				d.Acked = true
				d.Ctx.Ack()
				return
			}
		}
		vrt.Failf("harness: event vb=%d seq=%d was never delivered", vb, seq)
	}
	settled := map[uint16]uint64{}
	settle := func(vb uint16, seq uint64) {
		if seq > settled[vb] {
			settled[vb] = seq
		}
	}
	// logical clock and intervals, used to attribute a loss to the known in-flight-save race
	clock := 0
	tick := func() int { clock++; return clock }
	type ival struct {
		vb   uint16
		seq  uint64
		a, b int
		ok   bool
	}
	var settles, saves []*ival
	rawAck := ack
	// ack reports whether the acknowledgement advanced the position (TrackOffset(vb, seq) was issued);
	// an acknowledgement at or below the position already reached is a no-op by design and creates no
	// obligation to save
	ackAdv := func(vb uint16, seq uint64) bool {
		iv := &ival{vb: vb, seq: seq, a: tick()}
		n := len(e.Cons.TrackSeq[vb])
		rawAck(vb, seq)
		iv.b = tick()
		for _, t := range e.Cons.TrackSeq[vb][n:] {
			if t == seq {
				settles = append(settles, iv)
				return true
			}
		}
		return false
	}
	ack = func(vb uint16, seq uint64) { ackAdv(vb, seq) }
	// lostBy explains why positions of vb above `stored` are not durable
	lostBy := func(vb uint16, stored uint64) string {
		if p.Inject {
			return "a complete save ran between two steps of the acknowledgement (nothing was in flight concurrently)"
		}
		for _, st := range settles {
			if st.vb != vb || st.seq <= stored {
				continue
			}
			for _, sv := range saves {
				if sv.ok && st.a < sv.b && sv.a < st.b {
					return "settled while a successful save was in flight (dump..unmark window)"
				}
			}
		}
		return "no save was in flight when it was settled"
	}
	if p.PreSave {
		if ackAdv(0, 1) {
			settle(0, 1)
		}
		if ackAdv(1, 1) {
			settle(1, 1)
		}
		e.Stream.Save()
		for vb := uint16(0); vb < 2; vb++ {
			if s, ok := e.StoredSeq(vb); !ok || s != 1 {
				vrt.Failf("presave: vb%d stored=%d ok=%v want 1", vb, s, ok)
			}
		}
	}
	// a dirty mark must go into the dirty set that is current at that moment; one written into a set
	// that a completed save has already replaced can never be seen by any later save
	wrapper.VerifOnStoreIf = func(m any, key any) {
		var cur *wrapper.ConcurrentSwissMap[uint16, bool]
		vrt.Atomically(func() { _, cur, _ = e.Stream.GetOffsets() })
		if dm, ok := m.(*wrapper.ConcurrentSwissMap[uint16, bool]); ok && dm != cur {
			vrt.Failf("the dirty mark of vb%v was written into a dirty set that had already been replaced by a completed save (stale reference) [thread %s]", key, vrt.ThreadName())
		}
	}
	defer func() { wrapper.VerifOnStoreIf = nil }()
	inWindow := true
	if p.Faults {
		c.Fault = func(r *gocbcore.SimRequest) gocbcore.SimAnswer {
			if !inWindow || r.Kind != "mutatein" || !strings.Contains(r.Key, ":checkpoint:") {
				return gocbcore.SimAnswer{}
			}
			switch vrt.Choose(3, false, "checkpoint-write-fault") {
			case 1:
				return gocbcore.SimAnswer{Kind: "err", Err: &gocbcore.KeyValueError{InnerError: gocbcore.ErrTemporaryFailure, StatusCode: 0x86}}
			case 2:
				return gocbcore.SimAnswer{Kind: "drop"}
			}
			return gocbcore.SimAnswer{}
		}
	}
	ack0 := rawAck
	_ = ack0
	var wg vrt.WaitGroup
	vrt.Window(true)
	if p.Inject {
		p.Savers = 0
		k := vrt.Choose(80, true, "save-at-point-of-acker")
		vrt.InjectAtomic("ackerA", k, func() {
			sv := &ival{a: tick()}
			saves = append(saves, sv)
			e.Stream.Save()
			sv.b = tick()
			sv.ok = true
		})
	}
	wg.Add(2 + p.Savers)
	if p.Inject {
		wg.Done() // no second acknowledging thread: nothing runs concurrently with the injected save
	}
	vrt.GoNamed("ackerA", func() {
		defer wg.Done()
		if !p.PreSave {
			if ackAdv(0, 1) {
				settle(0, 1)
			}
		}
		if ackAdv(0, 2) {
			settle(0, 2)
		}
		if ackAdv(0, 3) {
			settle(0, 3)
		}
	})
	if !p.Inject {
		vrt.GoNamed("ackerB", func() {
			defer wg.Done()
			if p.Absorbed {
				// a seqno-advanced event settles vb1 without the consumer
				iv := &ival{vb: 1, seq: 2, a: tick()}
				settles = append(settles, iv)
				c.Append(1, marker(2, 2), gocbcore.SimPacket{Kind: "seqadv", Seq: 2})
				// settled = the listener call of that event has returned
				c.WaitIdle()
				iv.b = tick()
				settle(1, 2)
				return
			}
			if !p.PreSave {
				if ackAdv(1, 1) {
					settle(1, 1)
				}
			}
			if ackAdv(1, 2) {
				settle(1, 2)
			}
		})
	}
	absorbed := map[uint16]uint64{}
	if p.Reserved {
		wg.Add(1)
		vrt.GoNamed("feeder", func() {
			defer wg.Done()
			c.Append(0, marker(4, 4), mut(4, "_connector:cbgo:other:doc"))
			c.WaitIdle()
			absorbed[0] = 4
		})
	}
	for i := 0; i < p.Savers; i++ {
		vrt.GoNamed(fmt.Sprintf("saver%d", i), func() {
			defer wg.Done()
			before := map[uint16]uint64{}
			for k, v := range settled {
				before[k] = v
			}
			nSaves := len(e.RecMeta.Saves)
			sv := &ival{a: tick()}
			saves = append(saves, sv)
			e.Stream.Save()
			sv.b = tick()
			// did this call perform a successful backend save?
			ok := false
			for _, sc := range e.RecMeta.Saves[nSaves:] {
				if sc.Done && sc.Err == nil {
					ok = true
				}
			}
			sv.ok = ok
			if ok {
				for vb, want := range before {
					got, _ := e.StoredSeq(vb)
					if got < want {
						vrt.Failf("successful save left vb%d at %d although %d was settled before the save began: %s", vb, got, want, lostBy(vb, got))
					}
				}
			}
		})
	}
	wg.Wait()
	vrt.Window(false)
	inWindow = false
	// stored never ahead of settled
	for vb := uint16(0); vb < 2; vb++ {
		lim := settled[vb]
		if absorbed[vb] > lim {
			lim = absorbed[vb]
		}
		if s, ok := e.StoredSeq(vb); ok && s > lim {
			vrt.Failf("vb%d stored %d ahead of settled %d", vb, s, lim)
		}
	}
	// the quiet closing save (what dcp.close() performs in auto mode)
	e.Stream.Save()
	var out []string
	for vb := uint16(0); vb < 2; vb++ {
		stored, _ := e.StoredSeq(vb)
		tracked, _ := e.Tracked(vb)
		out = append(out, fmt.Sprintf("vb%d stored=%d tracked=%d", vb, stored, tracked))
		wantTracked := settled[vb]
		if absorbed[vb] > wantTracked {
			wantTracked = absorbed[vb]
		}
		_ = wantTracked // position equality is C04's business, not checked here
		if lim := wantTracked; stored > lim {
			vrt.Failf("vb%d stored %d ahead of the furthest settled/absorbed position %d", vb, stored, lim)
		}
		if stored < settled[vb] {
			vrt.Failf("after the closing save vb%d stored=%d but settled=%d (settled progress left unpersisted): %s", vb, stored, settled[vb], lostBy(vb, stored))
		}
	}
	// a save with nothing changed performs no write
	w := len(c.Writes)
	e.Stream.Save()
	if len(c.Writes) != w {
		vrt.Failf("save with nothing changed performed %d writes", len(c.Writes)-w)
	}
	var sv []string
	for _, sc := range e.RecMeta.Saves {
		sv = append(sv, fmt.Sprintf("%v/%v", sc.State, sc.Err != nil))
	}
	vrt.SetOutcome(strings.Join(out, ",") + "|" + strings.Join(sv, ";"))
}

// c05_manyvb: a save that has to write the checkpoints of MANY vBuckets at once (more than any plausible
// concurrency limit of the writer): every acknowledged vBucket is stored by the first successful save, and
// the next save has nothing left to write.
func init() {
	scenarios["c05_manyvb"] = func(raw json.RawMessage) *vrt.Scenario {
		return &vrt.Scenario{Name: "c05_manyvb", FreeChoices: true, NoTimerAlt: true, MaxSteps: 5_000_000, Main: func() {
			resetGlobals()
			nvb := []int{129, 300}[vrt.Choose(2, true, "vbuckets")]
			o := EnvOpts{Vbs: nvb, CheckpointType: "manual", WrapMeta: true}
			c := NewCluster(&o)
			for vb := 0; vb < nvb; vb++ {
				c.Append(uint16(vb), marker(1, 1), mut(1, fmt.Sprintf("k%d", vb)))
			}
			e := NewEnv(c, o)
			e.Cons.AutoAck = true
			e.Stream.Open()
			c.WaitIdle()
			if len(e.Cons.Events) != nvb {
				vrt.Failf("harness: %d of %d events delivered", len(e.Cons.Events), nvb)
				return
			}
			e.Stream.Save()
			c.WaitIdle()
			missing := 0
			first := -1
			for vb := 0; vb < nvb; vb++ {
				if st, ok := e.StoredSeq(uint16(vb)); !ok || st != 1 {
					missing++
					if first < 0 {
						first = vb
					}
				}
			}
			if missing > 0 {
				vrt.Failf("%d vBuckets acknowledged, one successful save: %d of them have no stored checkpoint (first: vb%d)", nvb, missing, first)
			}
			w := len(c.Writes)
			e.Stream.Save()
			c.WaitIdle()
			if missing == 0 && len(c.Writes) != w {
				vrt.Failf("%d vBuckets: a second save with nothing new performed %d writes", nvb, len(c.Writes)-w)
			}
			if missing > 0 {
				stillMissing := 0
				for vb := 0; vb < nvb; vb++ {
					if st, ok := e.StoredSeq(uint16(vb)); !ok || st != 1 {
						stillMissing++
					}
				}
				if stillMissing > 0 {
					vrt.Failf("%d vBuckets: after a second save %d acknowledged vBuckets are still not stored (left unpersisted indefinitely)", nvb, stillMissing)
				}
			}
			vrt.SetOutcome(fmt.Sprint(nvb))
		}}
	}
}

// c05_finite_close: "the save performed during Close" when the client stops ON ITS OWN: finite mode, every
// stream reaches its end, Start() returns through the stop channel (nobody called Close()). Everything
// acknowledged since the last periodic save must be in the store when Start() has returned.
func init() {
	scenarios["c05_finite_close"] = func(raw json.RawMessage) *vrt.Scenario {
		return &vrt.Scenario{Name: "c05_finite_close", FreeChoices: true, NoTimerAlt: true, MaxSteps: 2_000_000, Main: func() {
			resetGlobals()
			cp := []string{"auto", "manual"}[vrt.Choose(2, true, "checkpoint-type")]
			preSave := false
			o := DcpOpts{}
			o.Vbs = 2
			o.Mode = config.DcpModeFinite
			o.CheckpointType = cp
			o.AutoAck = true
			o.CheckpointInterval = 10 * time.Second
			c := NewCluster(&o.EnvOpts)
			c.Append(0, marker(1, 3), mut(1, "a1"), mut(2, "a2"), mut(3, "a3"))
			c.Append(1, marker(1, 2), mut(1, "b1"), mut(2, "b2"))
			e := NewDcpEnv(c, o)
			if e.Err != nil {
				vrt.Failf("newDcp: %v", e.Err)
				return
			}
			e.StartNoWait()
			for i := 0; i < 20 && !e.Done; i++ {
				vrt.Sleep(5 * time.Second)
			}
			vrt.Quiesce()
			desc := fmt.Sprintf("finite mode, checkpoint=%s, periodic save in between=%v", cp, preSave)
			if !e.Done {
				vrt.Failf("%s: every stream reached its end but Start() did not return", desc)
				return
			}
			if len(e.Cons.Events) != 5 {
				vrt.Failf("%s: %d of 5 events delivered", desc, len(e.Cons.Events))
			}
			if cp == "auto" {
				for vb, want := range map[uint16]uint64{0: 3, 1: 2} {
					if got, _ := e.StoredSeq(vb); got != want {
						vrt.Failf("%s: Start() has returned after all streams ended; vb%d acknowledged up to %d, stored %d", desc, vb, want, got)
					}
				}
			}
			vrt.SetOutcome(desc)
		}}
	}
}

// c05_slowstore: a custom metadata backend (the Metadata interface has no deadline contract) whose Save()
// takes longer than checkpoint.timeout - the snapshot it was handed is applied when it finishes. While it is
// busy another event is acknowledged and a second save is requested (Commit from the consumer / the periodic
// tick). Whatever the library does about the slow call, the store must end with the newer position: a save
// that is still in flight must not land on top of a later one.
type slowMeta struct {
	memMeta
	slowCalls int           // the first n calls are slow
	delay     time.Duration // how long a slow call takes
	applied   []uint64      // vb0 positions in the order they reached the store
}

func (m *slowMeta) Save(state map[uint16]*models.CheckpointDocument, dirty map[uint16]bool, u string) error {
	snap := map[uint16]*models.CheckpointDocument{}
	for vb, d := range state {
		if dirty[vb] {
			b, _ := sonic.Marshal(d)
			var cp models.CheckpointDocument
			_ = sonic.Unmarshal(b, &cp)
			snap[vb] = &cp
		}
	}
	if m.slowCalls > 0 {
		m.slowCalls--
		vrt.Sleep(m.delay)
	}
	for vb, d := range snap {
		m.docs[vb] = d
		if vb == 0 {
			m.applied = append(m.applied, d.Checkpoint.SeqNo)
		}
	}
	m.saves++
	return nil
}

func init() {
	scenarios["c05_slowstore"] = func(raw json.RawMessage) *vrt.Scenario {
		return &vrt.Scenario{Name: "c05_slowstore", FreeChoices: true, NoTimerAlt: true, MaxSteps: 400000, Main: func() {
			resetGlobals()
			factor := []int{1, 3}[vrt.Choose(2, true, "slow-call-takes-x-timeout")] // half / three times the time-out
			gap := []time.Duration{time.Second, 6 * time.Second, 11 * time.Second}[vrt.Choose(3, true, "second-save-after")]
			sm := &slowMeta{memMeta: memMeta{docs: map[uint16]*models.CheckpointDocument{}}, slowCalls: 1}
			o := EnvOpts{Vbs: 1, CheckpointType: "manual", CustomMeta: sm, CheckpointTimeout: 5 * time.Second}
			sm.delay = time.Duration(factor) * o.CheckpointTimeout / 2 * 1
			if factor == 3 {
				sm.delay = 3 * o.CheckpointTimeout
			}
			c := NewCluster(&o)
			c.Append(0, marker(1, 2), mut(1, "a1"), mut(2, "a2"))
			e := NewEnv(c, o)
			e.Stream.Open()
			c.WaitIdle()
			if len(e.Cons.Events) != 2 {
				vrt.Failf("harness: %d events", len(e.Cons.Events))
				return
			}
			desc := fmt.Sprintf("slow Save() takes %v (checkpoint.timeout %v), second save %v later", sm.delay, o.CheckpointTimeout, gap)
			vrt.SetOutcome(desc)
			e.Cons.Events[0].Ctx.Ack()
			vrt.GoNamed("saver1", func() { e.Stream.Save() })
			vrt.Sleep(gap)
			e.Cons.Events[1].Ctx.Ack()
			vrt.GoNamed("saver2", func() { e.Stream.Save() })
			vrt.Sleep(60 * time.Second)
			vrt.Quiesce()
			// one more save once everything is quiet: nothing may have been forgotten
			e.Stream.Save()
			vrt.Sleep(30 * time.Second)
			vrt.Quiesce()
			d := sm.docs[0]
			if d == nil || d.Checkpoint == nil || d.Checkpoint.SeqNo != 2 {
				got := uint64(0)
				if d != nil && d.Checkpoint != nil {
					got = d.Checkpoint.SeqNo
				}
				vrt.Failf("%s: seq 1 and 2 were acknowledged and three saves have completed; the store holds %d (order in which positions reached the store: %v)", desc, got, sm.applied)
			}
		}}
	}
}

// c05_rebalance_paths: "acknowledged work is not left unpersisted" across a rebalance, for every way a rebalance
// can be requested: the membership bus, PUT /membership/info (dynamic), GET /rebalance. Automatic checkpointing
// with a long interval (no periodic save in between): what was acknowledged before the request is in the
// store when the stream has been re-opened, and the re-open resumes from it.
func init() {
	scenarios["c05_rebalance_paths"] = func(raw json.RawMessage) *vrt.Scenario {
		return &vrt.Scenario{Name: "c05_rebalance_paths", FreeChoices: true, NoTimerAlt: true, MaxSteps: 2_000_000, Main: func() {
			resetGlobals()
			src := []string{"bus", "api-info", "api-rebalance"}[vrt.Choose(3, true, "rebalance-requested-through")]
			mem := []string{"dynamic", "static"}[vrt.Choose(2, true, "membership")]
			if mem == "static" && src == "api-info" {
				vrt.SetOutcome("n/a")
				return
			}
			o := DcpOpts{}
			o.Vbs = 2
			o.CheckpointType = "auto"
			o.MembershipType = mem
			o.AutoAck = true
			o.CheckpointInterval = 1000 * time.Second
			o.RebalanceDelay = 2 * time.Second
			c := NewCluster(&o.EnvOpts)
			for vb := uint16(0); vb < 2; vb++ {
				c.Append(vb, marker(1, 3), mut(1, "a"), mut(2, "b"), mut(3, "c"))
			}
			e := NewDcpEnv(c, o)
			if e.Err != nil {
				vrt.Failf("newDcp: %v", e.Err)
				return
			}
			if mem == "dynamic" {
				vrt.GoNamed("first-membership", func() {
					vrt.Sleep(1)
					e.bus().Publish(helpers.MembershipChangedBusEventName, &membership.Model{MemberNumber: 1, TotalMembers: 1})
				})
			}
			e.Start()
			vrt.Quiesce()
			c.WaitIdle()
			vrt.Quiesce()
			if len(e.Cons.Events) != 6 {
				vrt.Failf("harness: %d of 6 events delivered", len(e.Cons.Events))
				return
			}
			a := newAPI(e.Cfg, e.D.GetClient(), dcpStream(e), []prometheus.Collector{}, e.bus(), dcp.VerifDiscovery(e.D))
			n0 := len(c.Requests)
			switch src {
			case "bus":
				e.bus().Publish(helpers.MembershipChangedBusEventName, &membership.Model{MemberNumber: 1, TotalMembers: 1})
			case "api-info":
				_, _, _ = api.VerifPutInfo(a.(api.API), []byte(`{"memberNumber":1,"totalMembers":1}`))
			case "api-rebalance":
				_, _, _ = api.VerifRebalance(a.(api.API))
			}
			vrt.Sleep(o.RebalanceDelay + 5*time.Second)
			vrt.Quiesce()
			c.WaitIdle()
			desc := fmt.Sprintf("%s membership, rebalance requested through %s, 3 events per vBucket acknowledged before it", mem, src)
			reopened := false
			for _, r := range c.Requests[n0:] {
				if r.Kind == "openstream" {
					reopened = true
					if r.Args[2] != 3 {
						vrt.Failf("%s: vb%d was re-opened from %d, the acknowledged position is 3", desc, r.Vb, r.Args[2])
					}
				}
			}
			if !reopened {
				vrt.Failf("%s: the stream was not re-opened", desc)
			}
			for vb := uint16(0); vb < 2; vb++ {
				if st, _ := e.StoredSeq(vb); st != 3 {
					vrt.Failf("%s: after the re-open the store holds %d for vb%d", desc, st, vb)
				}
			}
			vrt.SetOutcome(desc)
			e.D.Close()
		}}
	}
}

// c05_grow: automatic checkpointing across a rebalance that ENLARGES this member's range (dynamic membership,
// immediate re-open): events of the newly acquired vBuckets are acknowledged right after the re-open and never
// again. Every periodic save that follows - including the last tick of the previous session's schedule, which
// runs once more after that session was stopped - either stores them or leaves them flagged: 30 s later they
// are in the store.
func init() {
	scenarios["c05_grow"] = func(raw json.RawMessage) *vrt.Scenario {
		return &vrt.Scenario{Name: "c05_grow", FreeChoices: true, NoTimerAlt: true, MaxSteps: 2_000_000, Main: func() {
			resetGlobals()
			at := 2 + vrt.Choose(4, true, "seconds-into-the-interval") // when the group shrinks to this member
			o := DcpOpts{}
			o.Vbs = 4
			o.CheckpointType = "auto"
			o.MembershipType = "dynamic"
			o.AutoAck = true
			o.CheckpointInterval = 10 * time.Second
			c := NewCluster(&o.EnvOpts)
			for vb := uint16(0); vb < 4; vb++ {
				c.Append(vb, marker(1, 2), mut(1, "a"), mut(2, "b"))
			}
			e := NewDcpEnv(c, o)
			if e.Err != nil {
				vrt.Failf("newDcp: %v", e.Err)
				return
			}
			vrt.GoNamed("first-membership", func() {
				vrt.Sleep(1)
				e.bus().Publish(helpers.MembershipChangedBusEventName, &membership.Model{MemberNumber: 1, TotalMembers: 2})
			})
			e.Start()
			vrt.Sleep(time.Duration(at) * time.Second)
			e.bus().Publish(helpers.MembershipChangedBusEventName, &membership.Model{MemberNumber: 1, TotalMembers: 1})
			vrt.Sleep(30 * time.Second)
			vrt.Quiesce()
			c.WaitIdle()
			desc := fmt.Sprintf("member 1/2 becomes 1/1 %d s into the checkpoint interval (10 s); vb2 and vb3 are acquired, their two events acknowledged at once", at)
			acked := maxAcked(e.Cons)
			for vb := uint16(0); vb < 4; vb++ {
				if acked[vb] != 2 {
					vrt.Failf("harness: %s: vb%d acknowledged up to %d", desc, vb, acked[vb])
					return
				}
				if st, _ := e.StoredSeq(vb); st != 2 {
					vrt.Failf("%s: 30 s (three intervals) later the store holds %d for vb%d, acknowledged is 2", desc, st, vb)
				}
			}
			vrt.SetOutcome(desc)
			e.D.Close()
		}}
	}
}

// c05_windowcommit: durable progress is never destroyed. Manual checkpointing: vb0 is acknowledged up to 2 and
// committed, a further acknowledgement (3) is left uncommitted; a rebalance closes the stream (manual mode: without
// saving) and the application calls Commit() inside the rebalance window - a save "issued when nothing changed"
// as far as the (now empty) session is concerned. Whatever that save does, the store still holds at least
// position 2 for vb0 afterwards, and the session the rebalance opens resumes from it.
func init() {
	scenarios["c05_windowcommit"] = func(raw json.RawMessage) *vrt.Scenario {
		return &vrt.Scenario{Name: "c05_windowcommit", FreeChoices: true, NoTimerAlt: true, MaxSteps: 400000, Main: func() {
			resetGlobals()
			backend := []string{"couchbase", "file"}[vrt.Choose(2, true, "backend")]
			// the acknowledgement of (vb0,3): never / before the rebalance, uncommitted / inside the rebalance window
			// (3 = an older event, (vb0,1), is acknowledged late inside the window instead: the window's offset table is
			// empty, so the "keep the maximum" guard has nothing to compare with)
			when := vrt.Choose(4, true, "acknowledgement-of-the-third-event")
			pending := when == 1
			o := EnvOpts{Vbs: 2, CheckpointType: "manual", WrapMeta: true, RebalanceDelay: 20 * time.Second}
			if backend == "file" {
				f, _ := os.CreateTemp("", "ckpt*.json")
				o.Metadata, o.FileName = "file", f.Name()
				f.Close()
				os.Remove(o.FileName)
				defer os.Remove(o.FileName)
			}
			c := NewCluster(&o)
			c.Append(0, marker(1, 3), mut(1, "a1"), mut(2, "a2"), mut(3, "a3"))
			c.Append(1, marker(1, 1), mut(1, "b1"))
			e := NewEnv(c, o)
			e.Stream.Open()
			c.WaitIdle()
			find := func(vb uint16, seq uint64) *Delivered {
				for _, d := range e.Cons.Events {
					if d.Vb == vb && d.Seq == seq {
						return d
					}
				}
				return nil
			}
			if find(0, 3) == nil || find(1, 1) == nil {
				vrt.Failf("harness: events not delivered")
				return
			}
			find(0, 2).Ctx.Ack()
			find(1, 1).Ctx.Ack()
			e.Stream.Save()
			desc := fmt.Sprintf("%s metadata, manual checkpointing, vb0 committed at 2 (uncommitted acknowledgement of 3: %v), Commit() inside the rebalance window", backend, pending)
			if st, _ := e.StoredSeq(0); st != 2 {
				vrt.Failf("harness: %s: stored %d after the first commit", desc, st)
				return
			}
			if pending {
				find(0, 3).Ctx.Ack()
			}
			n0 := len(c.Requests)
			e.Stream.Rebalance()
			vrt.Sleep(5 * time.Second)
			if when == 2 {
				find(0, 3).Ctx.Ack()
				desc += " after a late acknowledgement of (vb0,3) inside the window"
			}
			if when == 3 {
				find(0, 1).Ctx.Ack()
				desc += " after a late acknowledgement of the older event (vb0,1) inside the window"
			}
			commit := vrt.Choose(2, true, "commit-inside-the-window") == 1
			if commit {
				e.Stream.Save() // what Dcp.Commit() does
			} else {
				desc = strings.Replace(desc, "Commit() inside the rebalance window", "no Commit() inside the rebalance window", 1)
			}
			if st, _ := e.StoredSeq(0); st < 2 {
				vrt.Failf("%s: the store held 2 for vb0 and holds %d after that Commit() (durable progress destroyed)", desc, st)
			}
			if st, _ := e.StoredSeq(1); st < 1 {
				vrt.Failf("%s: the store held 1 for vb1 and holds %d after that Commit()", desc, st)
			}
			vrt.Sleep(o.RebalanceDelay + 5*time.Second)
			vrt.Quiesce()
			c.WaitIdle()
			stored0, _ := e.StoredSeq(0)
			for _, r := range c.Requests[n0:] {
				if r.Kind == "openstream" && r.Vb == 0 && r.Args[2] < 2 {
					vrt.Failf("%s: the session the rebalance opened requested vb0 from %d, position 2 had been committed", desc, r.Args[2])
				}
				// ... and with exactly what is persisted for it (an acknowledgement that was never stored is not)
				if r.Kind == "openstream" && r.Vb == 0 && r.Args[2] != stored0 {
					vrt.Failf("%s: the session the rebalance opened requested vb0 from %d, the store holds %d", desc, r.Args[2], stored0)
				}
			}
			vrt.SetOutcome(desc)
			e.Stream.Close(false)
		}}
	}
}
