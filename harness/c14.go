package main

import (
	"encoding/json"
	"fmt"
	"github.com/Trendyol/go-dcp/config"
	"strings"
	"time"

	"github.com/Trendyol/go-dcp/couchbase"
	"github.com/Trendyol/go-dcp/helpers"
	"github.com/Trendyol/go-dcp/models"
	"github.com/couchbase/gocbcore/v10"

	"verif/vrt"
)

// C14 — the library never feeds on its own writes.

func c14Pure(tier string) *PureResult {
	resetGlobals()
	res := &PureResult{Exhaustive: true}
	add := func(msg string) {
		if len(res.Violations) < 10 {
			res.Violations = append(res.Violations, pureViolation("C14", msg))
		}
	}
	// group names: all strings of length <= L over the alphabet, plus tokens
	alpha := []string{"a", ":", ".", "1"}
	maxLen := 4
	if tier == "thorough" {
		alpha = []string{"a", ":", ".", "1", "-", "c"}
		maxLen = 5
	}
	groups := []string{""}
	frontier := []string{""}
	for l := 0; l < maxLen; l++ {
		var next []string
		for _, g := range frontier {
			for _, a := range alpha {
				next = append(next, g+a)
			}
		}
		groups = append(groups, next...)
		frontier = next
	}
	groups = append(groups, "checkpoint", "instance", "all", "g:checkpoint", "checkpoint:1", "g:checkpoint:1", "a:instance:all")
	// long group names (around and beyond what fits into a 250-byte key together with the prefix and the id)
	for _, n := range []int{100, 200, 217, 218, 219, 220, 221, 222, 223, 230, 250, 300} {
		groups = append(groups, strings.Repeat("g", n), strings.Repeat("g", n-1)+"h")
	}
	vbs := []uint16{0, 1, 9, 10, 11, 99, 100, 999, 1000, 1023}
	seen := map[string]string{}
	for _, g := range groups {
		for _, vb := range vbs {
			key, panicked := func() (k []byte, p bool) {
				defer func() {
					if recover() != nil {
						p = true
					}
				}()
				return couchbase.VerifCheckpointID(vb, g), false
			}()
			res.Evaluations++
			if strings.Contains(g, ".") {
				if !panicked {
					add(fmt.Sprintf("group name %q (contains a dot) was accepted for checkpoint keys", g))
				}
				continue
			}
			if panicked {
				add(fmt.Sprintf("group name %q rejected although it is unambiguous", g))
				continue
			}
			if !strings.HasPrefix(string(key), reservedPrefix) {
				add(fmt.Sprintf("checkpoint key %q is not under the reserved prefix", key))
			}
			if !helpers.IsMetadata(models.DcpMutation{DcpMutation: &gocbcore.DcpMutation{Key: key}}) {
				add(fmt.Sprintf("checkpoint key %q is not recognised as library-internal", key))
			}
			id := fmt.Sprintf("(%q,%d)", g, vb)
			if prev, dup := seen[string(key)]; dup && prev != id {
				add(fmt.Sprintf("checkpoint key %q is produced for both %s and %s", key, prev, id))
			}
			seen[string(key)] = id
			res.Distinct++
		}
	}
	// the same rule on every path that builds keys: a session whose group name contains a dot is rejected when it
	// LOADS its checkpoints (start-up), not only when it first saves - also in read-only mode, where no save ever
	// happens
	for _, ro := range []bool{false, true} {
		for _, g := range []string{"a.b", ".", "g.1", "ok"} {
			o := EnvOpts{Vbs: 1, Group: g, ReadOnly: ro}
			c := NewCluster(&o)
			var loadErr error
			finished := false
			r := vrt.Run(vrt.Options{MaxSteps: 100000, NoTimerAlt: true}, func() {
				e := NewEnv(c, o)
				_, _, loadErr = e.Meta.Load([]uint16{0}, "uuid-src")
				finished = true
			})
			rejected := r.Status == vrt.StatusCrash || loadErr != nil || !finished
			res.Evaluations++
			res.Distinct++
			if strings.Contains(g, ".") && !rejected {
				add(fmt.Sprintf("group name %q (contains a dot) was accepted when the checkpoints are loaded (read-only metadata: %v)", g, ro))
			}
			if !strings.Contains(g, ".") && rejected {
				add(fmt.Sprintf("group name %q was rejected when the checkpoints are loaded", g))
			}
		}
	}
	resetGlobals()
	// IsMetadata over all keys of length <= 3 over a small alphabet and prefix-boundary strings
	ka := []string{"_", "c", ":", "t", "x"}
	keys := []string{""}
	fr := []string{""}
	for l := 0; l < 3; l++ {
		var next []string
		for _, k := range fr {
			for _, a := range ka {
				next = append(next, k+a)
			}
		}
		keys = append(keys, next...)
		fr = next
	}
	p, tp := reservedPrefix, txnPrefix // as documented, not the library's constants
	keys = append(keys, p, p[:len(p)-1], p+"x", "x"+p, strings.ToUpper(p), tp, tp[:len(tp)-1], tp+"1", tp+"client-record", tp+"atr-0-#1", "x"+tp, "_connector:cbg", "_connector:cbgox", "_connector:", "_tx", "\xff\xfe", p+"\x00")
	for _, k := range keys {
		want := strings.HasPrefix(k, p) || strings.HasPrefix(k, tp)
		evs := []interface{}{
			models.DcpMutation{DcpMutation: &gocbcore.DcpMutation{Key: []byte(k)}},
			models.DcpDeletion{DcpDeletion: &gocbcore.DcpDeletion{Key: []byte(k)}},
			models.DcpExpiration{DcpExpiration: &gocbcore.DcpExpiration{Key: []byte(k)}},
		}
		for _, ev := range evs {
			res.Evaluations++
			if got := helpers.IsMetadata(ev); got != want {
				add(fmt.Sprintf("IsMetadata(%T key=%q) = %v, want %v", ev, k, got, want))
			}
		}
		res.Distinct++
	}
	res.States, res.Transitions = res.Evaluations, res.Evaluations
	res.Samples = []any{map[string]any{"group": "a:1", "vb": 10, "key": string(couchbase.VerifCheckpointID(10, "a:1"))}, "_connector:cbg", "_txn:1"}
	return res
}

// Closed loop: the metadata bucket IS the streamed bucket; every KV write of the library comes back as a
// DCP mutation of the vBucket its key hashes to.  Histories over {deliver user event, ack, commit, tick}.
type LoopParams struct {
	Depth int  `json:"depth"`
	Sched bool `json:"sched"` // fixed history deliver,ack,commit,tick,tick explored over schedules instead
	// Failover adds "fail-over without rollback" to the alphabet
	Failover bool `json:"failover"`
	// Rebalance adds a real Rebalance() (save, close, re-open from the store) to the alphabet instead
	Rebalance bool `json:"rebalance"`
	// SkipUntil: dcp.listener.skipUntil lies one hour ahead of the server clock: every document the library
	// writes itself is "older" (skipped by that filter as well), user documents carry a later time stamp
	SkipUntil bool `json:"skip_until"`
	// ReopenFault adds "transient end whose first re-open attempt is rejected" to the alphabet
	ReopenFault bool `json:"reopen_fault"`
	// Stored: the session starts from a checkpoint an earlier session stored (two user documents per vBucket,
	// both acknowledged and saved under the vBucket's vbUUID of that time) instead of from the empty store
	Stored bool `json:"stored"`
	// Latest: checkpoint.autoReset = latest, an earlier session has stored a checkpoint for vb0 only: "no checkpoint
	// found" does not apply, vb1 (which has a high seqno but no checkpoint of its own) starts from 0 unflagged
	Latest bool `json:"latest"`
}

func init() {
	scenarios["c14_loop"] = func(raw json.RawMessage) *vrt.Scenario {
		var p LoopParams
		_ = json.Unmarshal(raw, &p)
		return &vrt.Scenario{Name: "c14_loop", Main: func() { loopMain(p) }, MaxSteps: 400000, FreeChoices: true}
	}
	register(&Property{
		ID:        "C14",
		Technique: "exhaustive enumeration of key spaces through the real key builders / IsMetadata, and explicit enumeration of all closed-loop operation histories up to a depth over the real stream+checkpoint+metadata code",
		Rule:      "keys: all group names over a collision-forcing alphabet x vBucket ids, all short event keys and prefix-boundary strings; closed loop: every sequence of {deliver, ack, commit, tick} up to the depth with each KV write fed back as a DCP mutation; non-trivial = distinct (consumer log, stored positions, write count)",
		Assume:    []string{"simulated cluster feeds every applied KV write of the streamed bucket back as a mutation of crc32(key) mod N"},
		Pure:      c14Pure,
		Instances: func(tier string) []Instance {
			d := 5
			if tier == "thorough" {
				d = 7
			}
			b := 2
			if tier == "thorough" {
				b = 3
			}
			return []Instance{
				{Scenario: "c14_loop", Params: mustJSON(LoopParams{Depth: d}), Bound: 0, Shards: 8},
				{Scenario: "c02_twogroups", Params: mustJSON(struct{}{}), Bound: 0, Note: "distinct group names in ONE process address distinct documents (the saves of one group never touch the other's)"},
				// the filter for reserved keys does not depend on where the library keeps its own documents
				{Scenario: "pipe", Params: mustJSON(PipeParams{Mode: "gen", Alphabet: []string{"M", "Mres", "Mtxn", "Dres", "Eres", "Minfix"}, Depth: 3, Ops: []string{"deliver0", "deliver1", "ackold"}, Backend: "file"}), Bound: 0, Shards: 4, Note: "reserved / transaction keys under file metadata"},
				{Scenario: "pipe", Params: mustJSON(PipeParams{Mode: "gen", Alphabet: []string{"M", "Mres", "Mtxn", "Dres", "Eres", "Minfix"}, Depth: 3, Ops: []string{"deliver0", "deliver1", "ackold"}, MetaBucket: true}), Bound: 0, Shards: 4, Note: "reserved / transaction keys with the checkpoints in a second bucket"},
				{Scenario: "c14_loop", Params: mustJSON(LoopParams{Depth: d, Rebalance: true}), Bound: 0, Shards: 8, Note: "alphabet extended by a real Rebalance()"},
				{Scenario: "c14_loop", Params: mustJSON(LoopParams{Depth: d, Failover: true}), Bound: 0, Shards: 8, Note: "alphabet extended by a fail-over without rollback (transient end, re-open under a new vbUUID)"},
				{Scenario: "c14_loop", Params: mustJSON(LoopParams{Depth: d, Failover: true, Stored: true}), Bound: 0, Shards: 8, Note: "the same from a stored checkpoint of an earlier session (the loaded positions carry the vbUUID of that time)"},
				{Scenario: "c14_loop", Params: mustJSON(LoopParams{Depth: d, Rebalance: true, Stored: true}), Bound: 0, Shards: 8, Note: "Rebalance() alphabet from a stored checkpoint"},
				{Scenario: "c14_loop", Params: mustJSON(LoopParams{Depth: d, Rebalance: true, Latest: true}), Bound: 0, Shards: 8, Note: "autoReset=latest with the Rebalance() alphabet: a vBucket that only ever received the library's own documents is loaded by the next session without being flagged"},
				{Scenario: "c14_finite_runs", Params: mustJSON(struct{}{}), Bound: 0, Note: "finite mode, run after run on a bucket that holds the checkpoints: a run that sees only library documents writes nothing"},
				{Scenario: "c14_loop", Params: mustJSON(LoopParams{Depth: d, SkipUntil: true}), Bound: 0, Shards: 8, Note: "skipUntil one hour ahead of the server clock: the library's own documents are also 'old'"},
				{Scenario: "c14_loop", Params: mustJSON(LoopParams{Depth: d, ReopenFault: true}), Bound: 0, Shards: 8, Note: "alphabet extended by a transient end whose first re-open attempt is rejected"},
				{Scenario: "c14_loop", Params: mustJSON(LoopParams{Sched: true}), Bound: b, Shards: 8, Note: "fixed history deliver,ack,commit,tick,tick over all schedules within the bound"},
			}
		},
	})
}

func loopMain(p LoopParams) {
	resetGlobals()
	o := EnvOpts{Vbs: 2, CheckpointType: "auto", CheckpointInterval: 10e9, WrapMeta: true, MembershipType: "couchbase"}
	o.MembershipType = "static"
	if p.Latest {
		o.AutoReset = "latest"
	}
	userMut := mut
	if p.SkipUntil {
		t := time.Unix(1_700_000_000, 0).Add(time.Hour)
		o.SkipUntil = &t
		userMut = func(seq uint64, key string) gocbcore.SimPacket {
			pk := mut(seq, key)
			pk.Cas = uint64(t.Add(time.Hour).UnixNano()) + seq
			return pk
		}
	}
	c := NewCluster(&o)
	if p.Stored || p.Latest {
		for vb := uint16(0); vb < 2; vb++ {
			c.Append(vb, marker(1, 2), userMut(1, "old1"), userMut(2, "old2"))
			if p.Latest && vb == 1 {
				continue // (Latest: a checkpoint exists for vb0 only, so nothing is reset: vb1 starts from 0)
			}
			seedCheckpoint(c, srcBucket, o.Group, vb, uint64(c.Vb[vb].Failover[0].VbUUID), 2, 1, 2)
		}
	}
	c.MetaLoop = true
	e := NewEnv(c, o)
	e.Stream.Open()
	c.WaitIdle()
	// absorbing a library-internal key must not flag the vBucket (or the stream) for saving
	var markBefore, flagBefore bool
	c.OnDeliver = func(pk *gocbcore.SimPacket, after bool) {
		if pk.Kind != "mutation" || !strings.HasPrefix(string(pk.Key), reservedPrefix) {
			return
		}
		var mark, flag bool
		vrt.Atomically(func() {
			_, dirty, f := e.Stream.GetOffsets()
			mark, _ = dirty.Load(pk.Vb)
			flag = f
		})
		if !after {
			markBefore, flagBefore = mark, flag
			return
		}
		if mark && !markBefore {
			vrt.Failf("absorbing library-internal key %q marked vb%d dirty (checkpoint writes would trigger checkpoint writes)", pk.Key, pk.Vb)
		}
		if flag && !flagBefore {
			vrt.Failf("absorbing library-internal key %q raised the save flag", pk.Key)
		}
	}
	nextSeq := func(vb uint16) uint64 { return c.Vb[vb].High + 1 }
	var hist []string
	userDelivered := 0
	pendingAck := false
	failovers := 0
	fixed := []int{0, 2, 3, 4, 4}
	depth := p.Depth
	if p.Sched {
		depth = len(fixed)
	}
	for step := 0; step < depth; step++ {
		var op int
		if p.Sched {
			op = fixed[step]
			vrt.Window(op >= 3)
		} else {
			nops := 5
			if p.Failover || p.Rebalance || p.ReopenFault {
				nops = 6
			}
			op = vrt.Choose(nops, true, "loop-op")
		}
		writesBefore := len(c.Writes)
		savesBefore := len(e.RecMeta.Saves)
		switch op {
		case 0: // a user document arrives on vb0
			s := nextSeq(0)
			c.Append(0, marker(s, s), userMut(s, fmt.Sprintf("user%d", s)))
			userDelivered++
			hist = append(hist, "deliver0")
		case 1: // a user document arrives on vb1
			s := nextSeq(1)
			c.Append(1, marker(s, s), userMut(s, fmt.Sprintf("user%d", s)))
			userDelivered++
			hist = append(hist, "deliver1")
		case 2: // acknowledge the oldest unacknowledged event
			done := false
			for _, d := range e.Cons.Events {
				if !d.Acked {
					d.Acked = true
					d.Ctx.Ack()
					done = true
					break
				}
			}
			if !done {
				hist = append(hist, "ack-none")
			} else {
				hist = append(hist, "ack")
				pendingAck = true
			}
		case 3:
			e.Stream.Save()
			hist = append(hist, "commit")
		case 4:
			vrt.Sleep(o.CheckpointInterval + 1)
			hist = append(hist, "tick")
		case 5:
			if p.Rebalance {
				e.Stream.Rebalance()
				vrt.Sleep(o.RebalanceDelay + time.Second)
				vrt.Quiesce()
				hist = append(hist, "rebalance")
				break
			}
			if p.ReopenFault {
				// a transient end of vb1 whose first re-open attempt the server rejects (the second succeeds)
				c.Vb[1].Opens = append(c.Vb[1].Opens, gocbcore.SimOpen{Kind: "err", Err: gocbcore.ErrTemporaryFailure})
				c.EndStream(1, gocbcore.ErrSocketClosed)
				vrt.Sleep(3e9)
				vrt.Quiesce()
				hist = append(hist, "end1+failed-reopen")
				break
			}
			// fail-over without rollback: both vBuckets go on under a new vbUUID after a transient end
			failovers++
			for vb := uint16(0); vb < 2; vb++ {
				c.Vb[vb].Failover = append([]gocbcore.FailoverEntry{{VbUUID: gocbcore.VbUUID(5000 + failovers), SeqNo: gocbcore.SeqNo(c.Vb[vb].High)}}, c.Vb[vb].Failover...)
				c.EndStream(vb, gocbcore.ErrDCPStreamStateChanged)
			}
			vrt.Sleep(2e9)
			vrt.Quiesce()
			hist = append(hist, "failover")
		}
		c.WaitIdle()
		vrt.Window(false)
		if !p.Sched {
			// histories are sequential: a periodic save has run to its end (incl. the unmark after the store call)
			// before the next operation; acknowledgements racing a save are C05's scenarios
			vrt.Quiesce()
			c.WaitIdle()
		}
		if op >= 3 {
			if !p.Sched && !pendingAck && len(c.Writes) != writesBefore {
				vrt.Failf("a save performed %d checkpoint write(s) although nothing was acknowledged since the last save (self-triggered by fed-back library keys) after %v", len(c.Writes)-writesBefore, hist)
			}
			// the acknowledgements are settled only by a save that succeeded
			for _, sc := range e.RecMeta.Saves[savesBefore:] {
				if sc.Done && sc.Err == nil {
					pendingAck = false
				}
			}
		}
		// the consumer never sees a reserved key
		for _, d := range e.Cons.Events {
			if strings.HasPrefix(d.Key, reservedPrefix) || strings.HasPrefix(d.Key, txnPrefix) {
				vrt.Failf("consumer was shown library-internal key %q after %v", d.Key, hist)
			}
		}
	}
	// every KV write went to a key the library filters
	for _, w := range c.Writes {
		if !strings.HasPrefix(w.Key, reservedPrefix) {
			vrt.Failf("library wrote key %q which is outside the reserved prefix", w.Key)
		}
	}
	// the tracked position passes the fed-back checkpoint mutations
	for vb := uint16(0); vb < 2; vb++ {
		tr, _ := e.Tracked(vb)
		// the furthest event of this vBucket that was delivered to the library and is either a
		// library-internal key or an acknowledged user event
		var want uint64
		if p.Stored || (p.Latest && vb == 0) {
			want = 2 // the position the earlier session stored
		}
		for _, pk := range c.Vb[vb].Log {
			if pk.Kind == "mutation" && strings.HasPrefix(string(pk.Key), reservedPrefix) && pk.Seq > want {
				want = pk.Seq
			}
		}
		for _, d := range e.Cons.Events {
			if d.Vb == vb && d.Acked && d.Seq > want {
				want = d.Seq
			}
		}
		if p.SkipUntil {
			continue // (whether a reserved key that the skipUntil filter removes moves the position is left open)
		}
		if tr != want {
			vrt.Failf("vb%d tracked=%d, want %d (furthest acknowledged or absorbed event) after %v", vb, tr, want, hist)
		}
	}
	// from here, with no new user events, the loop must die out: saves that write are bounded
	writes := len(c.Writes)
	quiet := 0
	for i := 0; i < 6; i++ {
		vrt.Sleep(o.CheckpointInterval + 1)
		c.WaitIdle()
		if len(c.Writes) == writes {
			quiet++
		}
		writes = len(c.Writes)
	}
	if quiet < 4 {
		vrt.Failf("checkpoint writes keep triggering checkpoint writes: only %d of 6 idle ticks were write-free after %v", quiet, hist)
	}
	if verbose {
		for _, w := range c.Writes {
			vrt.Logf("write %s %s %s", w.Op, w.Key, w.Path)
		}
		for vb := uint16(0); vb < 2; vb++ {
			tr, _ := e.Tracked(vb)
			vrt.Logf("vb%d high=%d tracked=%d loglen=%d open=%v", vb, c.Vb[vb].High, tr, len(c.Vb[vb].Log), c.StreamOpen(vb))
		}
	}
	vrt.SetOutcome(fmt.Sprintf("%v|consumed=%d|writes=%d|quiet=%d", hist, len(e.Cons.Events), len(c.Writes), quiet))
}

// c14_finite_runs: the metadata bucket is the streamed bucket and the client runs in finite mode, run after run
// (a batch job). Run 1 finds a user document, acknowledges it and stores its checkpoint when it ends; every later
// run finds nothing but the checkpoint documents of its predecessors: it absorbs them, ends and writes NOTHING -
// otherwise every run would write checkpoints that the next run has to read, for ever.
func init() {
	scenarios["c14_finite_runs"] = func(raw json.RawMessage) *vrt.Scenario {
		return &vrt.Scenario{Name: "c14_finite_runs", FreeChoices: true, NoTimerAlt: true, MaxSteps: 400000, Main: func() {
			resetGlobals()
			userVb := uint16(vrt.Choose(2, true, "user-document-on-vb"))
			o := EnvOpts{Vbs: 2, CheckpointType: "auto", CheckpointInterval: 1000 * time.Second, Mode: config.DcpModeFinite, WrapMeta: true}
			c := NewCluster(&o)
			c.MetaLoop = true
			c.Append(userVb, marker(1, 1), mut(1, "user1"))
			var writesPerRun []int
			for run := 1; run <= 4; run++ {
				w0 := len(c.Writes)
				e := NewEnv(c, o)
				e.Cons.AutoAck = true
				e.Stream.Open()
				for i := 0; i < 100 && !vrt.Closed(e.StopCh); i++ {
					vrt.Sleep(100 * time.Millisecond)
				}
				vrt.Quiesce()
				c.WaitIdle()
				if !vrt.Closed(e.StopCh) {
					vrt.Failf("run %d: the finite run did not end", run)
					return
				}
				// (what dcp.close() does)
				e.Stream.Save()
				e.Stream.Close(false)
				vrt.Quiesce()
				c.WaitIdle()
				for _, d := range e.Cons.Events {
					if strings.HasPrefix(d.Key, reservedPrefix) {
						vrt.Failf("run %d: the consumer was shown the library's own document %q", run, d.Key)
					}
				}
				writesPerRun = append(writesPerRun, len(c.Writes)-w0)
				c.KillAgents()
				e.Cons.Disabled = true
			}
			if writesPerRun[0] == 0 {
				vrt.Failf("run 1 acknowledged one user document and stored nothing (writes per run %v)", writesPerRun)
			}
			// run 2 may store the position its predecessor's checkpoint document carried its vBucket to? no: absorbed
			// library documents do not flag a vBucket - nothing is written from run 2 on
			for i := 1; i < len(writesPerRun); i++ {
				if writesPerRun[i] != 0 {
					vrt.Failf("run %d saw nothing but the library's own documents and wrote %d checkpoint(s) (writes per run %v): every run feeds the next one", i+1, writesPerRun[i], writesPerRun)
				}
			}
			vrt.SetOutcome(fmt.Sprintf("user on vb%d|%v", userVb, writesPerRun))
		}}
	}
}
