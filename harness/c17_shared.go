package main

import (
	"encoding/json"
	"fmt"
	"sort"
	"strings"
	"time"

	"github.com/couchbase/gocbcore/v10"

	"github.com/Trendyol/go-dcp/config"
	"github.com/Trendyol/go-dcp/logger"

	"verif/vrt"
)

// c17_shared: "never alters an explicitly set value" while a session is being constructed from a
// configuration that another goroutine reads (a second session built from the same config value, a metrics /
// admin endpoint). The real newDcp runs on one thread; at every scheduling point of it - including every log
// call, which is where a logger blocks on I/O - another thread reads the explicitly set options and the
// derived metadata settings; they must have their configured values at every such instant, and afterwards.

type yieldLogger struct{ nopLogger }

func (yieldLogger) Trace(string, ...interface{}) { vrt.Yield(-7) }
func (yieldLogger) Debug(string, ...interface{}) { vrt.Yield(-7) }
func (yieldLogger) Info(string, ...interface{})  { vrt.Yield(-7) }
func (yieldLogger) Warn(string, ...interface{})  { vrt.Yield(-7) }

func init() {
	scenarios["c17_shared"] = func(raw json.RawMessage) *vrt.Scenario {
		return &vrt.Scenario{Name: "c17_shared", FreeChoices: true, NoTimerAlt: true, MaxSteps: 400000, Main: func() {
			resetGlobals()
			logger.Log = yieldLogger{}
			o := DcpOpts{}
			o.Vbs = 2
			o.CheckpointType = "manual"
			var shared *config.Dcp
			var wantHosts []string
			o.Tweak = func(cfg *config.Dcp) {
				cfg.Metadata.Config["password"] = "meta-secret"
				cfg.Metadata.Config["username"] = "meta-user"
				cfg.Metadata.Config["scope"] = "s1"
				// several seed nodes, NOT in lexicographic order; the metadata settings inherit them
				cfg.Hosts = []string{"zeta.example:8091", cfg.Hosts[0], "alpha.example:8091"}
				wantHosts = append([]string{}, cfg.Hosts...)
				shared = cfg
			}
			c := NewCluster(&o.EnvOpts)
			k := vrt.Choose(60, true, "read-at-point")
			read := func(when string) {
				if shared == nil {
					return
				}
				m := shared.GetCouchbaseMetadata()
				if m.Password != "meta-secret" || m.Username != "meta-user" || m.Scope != "s1" {
					vrt.Failf("%s: the derived metadata settings read (user %q, password %q, scope %q), configured were (meta-user, meta-secret, s1)", when, m.Username, m.Password, m.Scope)
				}
				if fmt.Sprint(shared.Hosts) != fmt.Sprint(wantHosts) || fmt.Sprint(m.Hosts) != fmt.Sprint(wantHosts) {
					vrt.Failf("%s: the explicitly set seed nodes read %v (metadata settings: %v), configured were %v", when, shared.Hosts, m.Hosts, wantHosts)
				}
				if shared.Password != "p" || shared.Username != "u" || shared.BucketName != srcBucket {
					vrt.Failf("%s: explicitly set connection options read (%q, %q, %q)", when, shared.Username, shared.Password, shared.BucketName)
				}
			}
			vrt.InjectAtomic("constructor", k, func() { read(fmt.Sprintf("while the session is being constructed (point %d of newDcp)", k)) })
			var e *DcpEnv
			done := false
			vrt.Window(true)
			vrt.GoNamed("constructor", func() {
				e = NewDcpEnv(c, o)
				done = true
			})
			vrt.Block("construction", func() bool { return done })
			vrt.Window(false)
			if e.Err != nil {
				vrt.Failf("newDcp: %v", e.Err)
				return
			}
			read("after the construction")
			if !vrt.Injected() {
				vrt.SetOutcome("beyond the points of newDcp")
				return
			}
			vrt.SetOutcome(fmt.Sprintf("read at point %d", k))
		}}
	}
}

// c17_runtime: the configuration object the application handed over (and reads back through GetConfig()) after
// the defaults were applied is not altered by RUNNING the client: Start(), a delivery, a rebalance, the periodic
// components (health check with a time-out below / equal to / above its interval, explicit or defaulted;
// rollback mitigation; checkpoint schedule) and Close() leave every option at the value it had when the
// constructor returned.
func init() {
	scenarios["c17_runtime"] = func(raw json.RawMessage) *vrt.Scenario {
		return &vrt.Scenario{Name: "c17_runtime", FreeChoices: true, NoTimerAlt: true, MaxSteps: 2_000_000, Main: func() {
			resetGlobals()
			hc := vrt.Choose(5, true, "health-check") // off | timeout<interval | = | > (explicit) | default timeout, short interval
			mit := vrt.Choose(2, true, "mitigation") == 1
			cp := []string{"auto", "manual"}[vrt.Choose(2, true, "checkpoint")]
			o := DcpOpts{HealthCheck: hc != 0}
			o.Vbs = 2
			o.CheckpointType = cp
			o.Mitigation = mit
			o.MembershipType = "static"
			o.AutoAck = true
			o.CheckpointInterval = 10 * time.Second
			o.RebalanceDelay = 5 * time.Second
			o.Tweak = func(cfg *config.Dcp) {
				switch hc {
				case 1:
					cfg.HealthCheck.Interval, cfg.HealthCheck.Timeout = 10*time.Second, 3*time.Second
				case 2:
					cfg.HealthCheck.Interval, cfg.HealthCheck.Timeout = 10*time.Second, 10*time.Second
				case 3:
					cfg.HealthCheck.Interval, cfg.HealthCheck.Timeout = 10*time.Second, 30*time.Second
				case 4:
					cfg.HealthCheck.Interval, cfg.HealthCheck.Timeout = 20*time.Second, 0 // the documented default (1m) applies
				}
			}
			c := NewCluster(&o.EnvOpts)
			c.Append(0, marker(1, 2), symbolPacket("M", 1), symbolPacket("M", 2))
			if mit {
				for vb := uint16(0); vb < 2; vb++ {
					c.SetPersist(vb, 0, gocbcore.SimPersist{VbUUID: c.Vb[vb].Failover[0].VbUUID, Persist: 9, Current: 9})
				}
			}
			e := NewDcpEnv(c, o)
			if e.Err != nil {
				vrt.Failf("newDcp: %v", e.Err)
				return
			}
			snap := func() string {
				b, err := json.Marshal(e.D.GetConfig())
				if err != nil {
					return "unmarshalable: " + err.Error()
				}
				return string(b)
			}
			before := snap()
			e.Start()
			vrt.Sleep(25 * time.Second)
			dcpStream(e).Rebalance()
			vrt.Sleep(30 * time.Second)
			c.Append(1, marker(1, 1), symbolPacket("M", 1))
			vrt.Sleep(25 * time.Second)
			e.D.Close()
			for i := 0; i < 20 && !e.Done; i++ {
				vrt.Sleep(15 * time.Second)
			}
			desc := fmt.Sprintf("health check %s, mitigation %v, checkpoint %s", []string{"off", "timeout 3s < interval 10s", "timeout = interval = 10s", "timeout 30s > interval 10s", "default timeout, interval 20s"}[hc], mit, cp)
			if after := snap(); after != before {
				vrt.Failf("%s: running the client altered the configuration: %s", desc, diffJSON(before, after))
			}
			vrt.SetOutcome(desc)
		}}
	}
}

// diffJSON names the leaves in which two JSON documents differ.
func diffJSON(a, b string) string {
	var x, y any
	_ = json.Unmarshal([]byte(a), &x)
	_ = json.Unmarshal([]byte(b), &y)
	var out []string
	var walk func(path string, p, q any)
	walk = func(path string, p, q any) {
		pm, ok1 := p.(map[string]any)
		qm, ok2 := q.(map[string]any)
		if ok1 && ok2 {
			for k := range pm {
				walk(path+"."+k, pm[k], qm[k])
			}
			for k := range qm {
				if _, ok := pm[k]; !ok {
					walk(path+"."+k, nil, qm[k])
				}
			}
			return
		}
		if fmt.Sprint(p) != fmt.Sprint(q) {
			out = append(out, fmt.Sprintf("%s: %v -> %v", strings.TrimPrefix(path, "."), p, q))
		}
	}
	walk("", x, y)
	sort.Strings(out)
	return strings.Join(out, "; ")
}
