package main

import (
	"encoding/json"
	"fmt"

	"github.com/Trendyol/go-dcp/config"
	"github.com/Trendyol/go-dcp/logger"

	"verif/vrt"
)

// c17_shared: "never alters an explicitly set value" while a session is being constructed from a
// configuration that another goroutine reads (a second session built from the same config value, a metrics /
// admin endpoint). The real newDcp runs on one thread; at every scheduling point of it - including every log
// call, which is where a logger blocks on I/O - another thread reads the explicitly set options and the
// derived metadata settings; they must have their configured values at every such instant, and afterwards.

type yieldLogger struct{ nopLogger }

func (yieldLogger) Trace(string, ...interface{}) { vrt.Yield(-7) }
func (yieldLogger) Debug(string, ...interface{}) { vrt.Yield(-7) }
func (yieldLogger) Info(string, ...interface{})  { vrt.Yield(-7) }
func (yieldLogger) Warn(string, ...interface{})  { vrt.Yield(-7) }

func init() {
	scenarios["c17_shared"] = func(raw json.RawMessage) *vrt.Scenario {
		return &vrt.Scenario{Name: "c17_shared", FreeChoices: true, NoTimerAlt: true, MaxSteps: 400000, Main: func() {
			resetGlobals()
			logger.Log = yieldLogger{}
			o := DcpOpts{}
			o.Vbs = 2
			o.CheckpointType = "manual"
			var shared *config.Dcp
			var wantHosts []string
			o.Tweak = func(cfg *config.Dcp) {
				cfg.Metadata.Config["password"] = "meta-secret"
				cfg.Metadata.Config["username"] = "meta-user"
				cfg.Metadata.Config["scope"] = "s1"
				// several seed nodes, NOT in lexicographic order; the metadata settings inherit them
				cfg.Hosts = []string{"zeta.example:8091", cfg.Hosts[0], "alpha.example:8091"}
				wantHosts = append([]string{}, cfg.Hosts...)
				shared = cfg
			}
			c := NewCluster(&o.EnvOpts)
			k := vrt.Choose(60, true, "read-at-point")
			read := func(when string) {
				if shared == nil {
					return
				}
				m := shared.GetCouchbaseMetadata()
				if m.Password != "meta-secret" || m.Username != "meta-user" || m.Scope != "s1" {
					vrt.Failf("%s: the derived metadata settings read (user %q, password %q, scope %q), configured were (meta-user, meta-secret, s1)", when, m.Username, m.Password, m.Scope)
				}
				if fmt.Sprint(shared.Hosts) != fmt.Sprint(wantHosts) || fmt.Sprint(m.Hosts) != fmt.Sprint(wantHosts) {
					vrt.Failf("%s: the explicitly set seed nodes read %v (metadata settings: %v), configured were %v", when, shared.Hosts, m.Hosts, wantHosts)
				}
				if shared.Password != "p" || shared.Username != "u" || shared.BucketName != srcBucket {
					vrt.Failf("%s: explicitly set connection options read (%q, %q, %q)", when, shared.Username, shared.Password, shared.BucketName)
				}
			}
			vrt.InjectAtomic("constructor", k, func() { read(fmt.Sprintf("while the session is being constructed (point %d of newDcp)", k)) })
			var e *DcpEnv
			done := false
			vrt.Window(true)
			vrt.GoNamed("constructor", func() {
				e = NewDcpEnv(c, o)
				done = true
			})
			vrt.Block("construction", func() bool { return done })
			vrt.Window(false)
			if e.Err != nil {
				vrt.Failf("newDcp: %v", e.Err)
				return
			}
			read("after the construction")
			if !vrt.Injected() {
				vrt.SetOutcome("beyond the points of newDcp")
				return
			}
			vrt.SetOutcome(fmt.Sprintf("read at point %d", k))
		}}
	}
}
