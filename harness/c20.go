package main

import (
	"context"
	"encoding/json"
	"errors"
	"fmt"
	"strings"
	"time"

	"github.com/Trendyol/go-dcp/config"
	"github.com/Trendyol/go-dcp/couchbase"
	"github.com/Trendyol/go-dcp/helpers"
	"github.com/Trendyol/go-dcp/models"
	"github.com/couchbase/gocbcore/v10"
	"github.com/couchbase/gocbcore/v10/memd"

	"verif/vrt"
)

// C20 — no Couchbase call made by the library can hang or invent an outcome.
// Every wrapper x server behaviour per request x both orders of completion vs. timeout.

type OpParams struct {
	Op string `json:"op"`
}

type opEnv struct {
	c      *gocbcore.SimCluster
	cfg    *config.Dcp
	client couchbase.Client
	meta   interface {
		Save(map[uint16]*models.CheckpointDocument, map[uint16]bool, string) error
	}
	ctxTimeout time.Duration
}

type c20op struct {
	name string
	// run returns the wrapper's error and whether a nil error is meaningful "success"
	run func(e *opEnv) error
	// knfIsOutcome: a KeyNotFound status is a regular outcome the wrapper turns into a value, not an error
	knfIsOutcome bool
	own          time.Duration // wrapper's own deadline (0: the ctx timeout)
}

var obsNop = couchbase.NewObserver(&config.Dcp{}, 0, 0, func(models.ListenerArgs) {}, func(models.DcpStreamEndContext) {}, nil, nil)

func c20ops() []c20op {
	ctxOf := func(e *opEnv) (context.Context, context.CancelFunc) {
		return vrtCtx(e.ctxTimeout)
	}
	key := []byte(helpers.Prefix + "g:checkpoint:0")
	return []c20op{
		{name: "CreateDocument", run: func(e *opEnv) error {
			ctx, cancel := ctxOf(e)
			defer cancel()
			return couchbase.CreateDocument(ctx, e.client.GetMetaAgent(), "_default", "_default", key, []byte("{}"), 0, 0)
		}},
		{name: "UpdateDocument", run: func(e *opEnv) error {
			ctx, cancel := ctxOf(e)
			defer cancel()
			return couchbase.UpdateDocument(ctx, e.client.GetMetaAgent(), "_default", "_default", []byte("exists"), []byte("{}"), 0, nil)
		}},
		{name: "DeleteDocument", run: func(e *opEnv) error {
			ctx, cancel := ctxOf(e)
			defer cancel()
			return couchbase.DeleteDocument(ctx, e.client.GetMetaAgent(), "_default", "_default", []byte("exists"))
		}},
		{name: "UpsertXattrs", run: func(e *opEnv) error {
			ctx, cancel := ctxOf(e)
			defer cancel()
			return couchbase.UpsertXattrs(ctx, e.client.GetMetaAgent(), "_default", "_default", []byte("exists"), "cbgo", []byte("{}"), 0)
		}},
		{name: "GetXattrs", own: 5 * time.Second, run: func(e *opEnv) error {
			_, err := couchbase.GetXattrs(context.Background(), e.client.GetMetaAgent(), "_default", "_default", []byte("exists"), "cbgo")
			return err
		}},
		{name: "Get", run: func(e *opEnv) error {
			ctx, cancel := ctxOf(e)
			defer cancel()
			_, err := couchbase.Get(ctx, e.client.GetMetaAgent(), "_default", "_default", []byte("exists"))
			return err
		}},
		{name: "CreatePath", run: func(e *opEnv) error {
			ctx, cancel := ctxOf(e)
			defer cancel()
			return couchbase.CreatePath(ctx, e.client.GetMetaAgent(), "_default", "_default", []byte("index"), []byte("id1"), []byte("1"), memd.SubdocDocFlagMkDoc)
		}},
		{name: "Ping", own: 3 * time.Second, run: func(e *opEnv) error {
			_, err := e.client.Ping()
			return err
		}},
		{name: "GetFailOverLogs", own: 60 * time.Second, run: func(e *opEnv) error {
			l, err := e.client.GetFailOverLogs(0)
			if err == nil && len(l) == 0 {
				return errors.New("harness: empty failover log reported as success")
			}
			return err
		}},
		{name: "GetVBucketSeqNos", own: 60 * time.Second, run: func(e *opEnv) error {
			m, err := e.client.GetVBucketSeqNos(false)
			if err == nil && m.Count() != e.c.NumVbs {
				return nil // judged by the generic rule (nil although a request was not confirmed)
			}
			return err
		}},
		{name: "GetVBucketSeqNosAware", own: 60 * time.Second, run: func(e *opEnv) error {
			// the collection-aware variant (what the metric collector calls)
			m, err := e.client.GetVBucketSeqNos(true)
			if err == nil && m.Count() != e.c.NumVbs {
				vrt.Failf("GetVBucketSeqNos(collection-aware) reported success with a table of %d of %d vBuckets", m.Count(), e.c.NumVbs)
			}
			return err
		}},
		{name: "GetVBucketSeqNosAwareOldServer", own: 60 * time.Second, run: func(e *opEnv) error {
			// ... against a server without collections support
			e.c.CollectionsSupported = false
			m, err := e.client.GetVBucketSeqNos(true)
			if err == nil && m.Count() != e.c.NumVbs {
				vrt.Failf("GetVBucketSeqNos(collection-aware) on a server without collections reported success with a table of %d of %d vBuckets", m.Count(), e.c.NumVbs)
			}
			return err
		}},
		{name: "OpenStream", own: 60 * time.Second, run: func(e *opEnv) error {
			return e.client.OpenStream(0, nil, &models.Offset{SnapshotMarker: &models.SnapshotMarker{}, LatestSeqNo: gocbcore.MaxSeq}, obsNop)
		}},
		{name: "OpenStreamRollback", own: 60 * time.Second, run: func(e *opEnv) error {
			e.c.Vb[0].Opens = []gocbcore.SimOpen{{Kind: "rollback", Rollback: 0}}
			return e.client.OpenStream(0, nil, &models.Offset{SnapshotMarker: &models.SnapshotMarker{StartSeqNo: 1, EndSeqNo: 1}, SeqNo: 1, LatestSeqNo: gocbcore.MaxSeq}, obsNop)
		}},
		{name: "CloseStream", own: 60 * time.Second, run: func(e *opEnv) error {
			return e.client.CloseStream(1)
		}},
		{name: "GetCollectionIDs", own: 30 * time.Second, run: func(e *opEnv) error {
			_, err := e.client.GetCollectionIDs("_default", []string{"c1"})
			return err
		}},
		{name: "MetadataSave", knfIsOutcome: true, own: 5 * time.Second, run: func(e *opEnv) error {
			doc := func(s uint64) *models.CheckpointDocument {
				d := models.NewEmptyCheckpointDocument("u")
				d.Checkpoint.SeqNo = s
				return d
			}
			return e.meta.Save(map[uint16]*models.CheckpointDocument{0: doc(3), 1: doc(4)}, map[uint16]bool{0: true, 1: true}, "u")
		}},
	}
}

func vrtCtx(d time.Duration) (context.Context, context.CancelFunc) {
	return vrt.WithTimeout(vrt.Background(), d)
}

func init() {
	scenarios["c20_op"] = func(raw json.RawMessage) *vrt.Scenario {
		var p OpParams
		_ = json.Unmarshal(raw, &p)
		return &vrt.Scenario{Name: "c20_op", Main: func() { opMain(p) }, FreeChoices: true, MaxSteps: 100000, NoTimerAlt: true}
	}
	scenarios["c20_seq"] = func(raw json.RawMessage) *vrt.Scenario {
		return &vrt.Scenario{Name: "c20_seq", Main: seqMain, FreeChoices: true, MaxSteps: 100000, NoTimerAlt: true}
	}
	scenarios["c20_asyncop"] = func(raw json.RawMessage) *vrt.Scenario {
		return &vrt.Scenario{Name: "c20_asyncop", Main: asyncOpMain, FreeChoices: true, MaxSteps: 100000, NoTimerAlt: true}
	}
	register(&Property{
		ID:        "C20",
		Technique: "exhaustive enumeration of server behaviours per request (prompt, error statuses, reply just before / just after the deadline, silence, applied-but-reply-lost, connection drop, synchronous dispatch error) for every operation wrapper, with every order of completion vs. timeout explored by the controlled scheduler",
		Rule:      "15 wrappers x behaviours of the first three requests of the call x dispatch errors x all thread orders within the bound; AsyncOp with an interface-level PendingOp: all orders of Resolve / deadline / Cancel; non-trivial = distinct (behaviours, returned error class, request log)",
		Assume:    []string{"gocbcore semantics as read from v10.5.2: Cancel() completes a pending request synchronously in the caller with a cancellation error, exactly-once completion, agent-level operations with a Deadline are timed out by gocbcore itself"},
		Pure: func(tier string) *PureResult {
			// "returns by its deadline": the deadline the membership document operations (register, heart-beat,
			// monitor) work with is the configured dcp.group.membership.config.timeout - for every value and
			// whatever the other membership settings are; likewise checkpoint.timeout for the checkpoint operations
			res := &PureResult{Exhaustive: true}
			keys := []string{"expirySeconds", "heartbeatInterval", "heartbeatToleranceDuration", "monitorInterval"}
			for _, to := range []string{"", "400ms", "2s", "45s", "30s"} {
				for mask := 0; mask < 1<<len(keys); mask++ {
					var c config.Dcp
					c.Dcp.Group.Membership.Config = map[string]string{}
					if to != "" {
						c.Dcp.Group.Membership.Config["timeout"] = to
					}
					for i, k := range keys {
						if mask&(1<<i) != 0 {
							c.Dcp.Group.Membership.Config[k] = []string{"77", "7s", "70s", "6s"}[i]
						}
					}
					c.ApplyDefaults()
					m := c.GetCouchbaseMembership()
					want := 30 * time.Second
					if to != "" {
						want, _ = time.ParseDuration(to)
					}
					res.Evaluations++
					res.Distinct++
					if m.Timeout != want {
						res.Violations = append(res.Violations, pureViolation("C20", fmt.Sprintf("membership config %v: the deadline of the membership document operations is %v, configured timeout %q (default 30s)", c.Dcp.Group.Membership.Config, m.Timeout, to)))
						if len(res.Violations) > 5 {
							return res
						}
					}
				}
			}
			res.States, res.Transitions = res.Evaluations, res.Evaluations
			return res
		},
		Instances: func(tier string) []Instance {
			b := 2
			if tier == "thorough" {
				b = 3
			}
			var out []Instance
			for _, op := range c20ops() {
				out = append(out, Instance{Scenario: "c20_op", Params: mustJSON(OpParams{Op: op.name}), Bound: b, Shards: 2})
			}
			out = append(out, Instance{Scenario: "c20_asyncop", Params: mustJSON(struct{}{}), Bound: b + 1})
			out = append(out, Instance{Scenario: "c20_seq", Params: mustJSON(struct{}{}), Bound: b, Shards: 4})
			// the membership-document operations one level up: a whole monitor round returns whatever the server
			// answers for the documents it reads (an instance listed in the index whose document is gone)
			out = append(out, Instance{Scenario: "c19_endpoints", Params: mustJSON(struct{}{}), Bound: 0, Shards: 2, Note: "Ping reports success only if BOTH services have an endpoint that confirmed (per-service endpoint lists with errors / time-outs)"})
			out = append(out, Instance{Scenario: "c05_manyvb", Params: mustJSON(struct{}{}), Bound: 0, Shards: 2, Note: "a save for 129 / 300 vBuckets reports success only if every write was confirmed"})
			out = append(out, Instance{Scenario: "c20_scrapefault", Params: mustJSON(struct{}{}), Bound: 0, Note: "the collector's sequence-number query: a failed query publishes no lag, the next scrape publishes the server's current answer"})
			out = append(out, Instance{Scenario: "c02_loadfault", Params: mustJSON(struct{}{}), Bound: 0, Shards: 4, Note: "a checkpoint read that is rejected or never answered when a session loads: the outcome is an error (the start-up fails), never 'no checkpoint stored'"})
			out = append(out, Instance{Scenario: "c13_shutdown", Params: mustJSON(ShutdownParams{Case: "closefault", Checkpoint: "auto", Membership: "static", MaxPoint: 4}), Bound: 0, Note: "a close-stream request that is rejected or never answered while the session is closed: the close returns by the request's deadline"})
			out = append(out, Instance{Scenario: "c12_afterrebalance", Params: mustJSON(AfterRebParams{CloseFault: true}), Bound: 0, Shards: 8, Note: "the same at the close of a rebalance: the rebalance completes, the member streams again"})
			out = append(out, Instance{Scenario: "c13_shutdown", Params: mustJSON(ShutdownParams{Case: "slowobserve", Checkpoint: "auto", Mitigation: true, Membership: "static", MaxPoint: 24}), Bound: 0, Shards: 2, Note: "the persistence polls (ObserveVb) of rollback mitigation answered late or never while the stream is being closed: the late completion blocks nobody"})
			out = append(out, Instance{Scenario: "c10_cb", Params: mustJSON(CBParams{Initial: 2, Event: "ghost", Perms: 1}), Bound: 0, Shards: 2, Note: "monitor rounds with a listed instance whose document does not exist (KEY_ENOENT answers)"})
			out = append(out, Instance{Scenario: "c10_cb", Params: mustJSON(CBParams{Initial: 2, Event: "die", Perms: 1}), Bound: 0, Shards: 2, Note: "monitor rounds while an instance's document expires"})
			out = append(out, Instance{Scenario: "c20_saveretry", Params: mustJSON(struct{}{}), Bound: 0, Shards: 2, Note: "a save with unconfirmed writes (every behaviour per vBucket), then the same positions saved again against a healthy server: success means the store holds them"})
			return out
		},
	})
}

type behaviour struct {
	name string
	ans  func(deadlineIn time.Duration) gocbcore.SimAnswer
}

func kv(inner error, st memd.StatusCode) error {
	return &gocbcore.KeyValueError{InnerError: inner, StatusCode: st}
}

var behaviours = []behaviour{
	{"ok", func(time.Duration) gocbcore.SimAnswer { return gocbcore.SimAnswer{} }},
	{"tmpfail", func(time.Duration) gocbcore.SimAnswer {
		return gocbcore.SimAnswer{Kind: "err", Err: kv(gocbcore.ErrTemporaryFailure, memd.StatusTmpFail)}
	}},
	{"notfound", func(time.Duration) gocbcore.SimAnswer {
		return gocbcore.SimAnswer{Kind: "err", Err: kv(gocbcore.ErrDocumentNotFound, memd.StatusKeyNotFound)}
	}},
	{"socket-closed", func(time.Duration) gocbcore.SimAnswer {
		return gocbcore.SimAnswer{Kind: "err", Err: gocbcore.ErrSocketClosed}
	}},
	{"just-before-deadline", func(d time.Duration) gocbcore.SimAnswer {
		return gocbcore.SimAnswer{Kind: "delay", Delay: d - time.Millisecond}
	}},
	{"at-deadline", func(d time.Duration) gocbcore.SimAnswer { return gocbcore.SimAnswer{Kind: "delay", Delay: d} }},
	{"just-after-deadline", func(d time.Duration) gocbcore.SimAnswer {
		return gocbcore.SimAnswer{Kind: "delay", Delay: d + time.Millisecond}
	}},
	{"notfound-at-deadline", func(d time.Duration) gocbcore.SimAnswer {
		// "key not found" (for several wrappers the cue to issue a follow-up request) arriving exactly when the
		// shared deadline expires: the follow-up request is dispatched with a context that may already be over
		return gocbcore.SimAnswer{Kind: "delayerr", Delay: d, Err: kv(gocbcore.ErrDocumentNotFound, memd.StatusKeyNotFound)}
	}},
	{"silent", func(time.Duration) gocbcore.SimAnswer { return gocbcore.SimAnswer{Kind: "drop"} }},
	{"applied-reply-lost", func(time.Duration) gocbcore.SimAnswer { return gocbcore.SimAnswer{Kind: "applydrop"} }},
}

func opMain(p OpParams) {
	resetGlobals()
	var op c20op
	for _, o := range c20ops() {
		if o.name == p.Op {
			op = o
		}
	}
	o := EnvOpts{Vbs: 2, Nodes: 2, Collections: []string{"c1"}}
	c := NewCluster(&o)
	o.defaults()
	gocbcore.SimInstall(c)
	cfg := o.config()
	cfg.Checkpoint.Timeout = 5 * time.Second
	cfg.HealthCheck.Timeout = 3 * time.Second
	client := couchbase.NewClient(cfg)
	if err := client.Connect(); err != nil {
		panic(err)
	}
	if err := client.DcpConnect(true, false); err != nil {
		panic(err)
	}
	c.Bucket(srcBucket).PutDoc("exists", []byte(`{"a":1}`))
	c.Bucket(srcBucket).PutXattr("exists", "cbgo", []byte(`{}`))
	// an open stream on vb1 for CloseStream
	if err := client.OpenStream(1, nil, &models.Offset{SnapshotMarker: &models.SnapshotMarker{}, LatestSeqNo: gocbcore.MaxSeq}, obsNop); err != nil {
		panic(err)
	}
	e := &opEnv{c: c, cfg: cfg, client: client, ctxTimeout: 2 * time.Second, meta: couchbase.NewCBMetadata(client, cfg)}
	deadlineIn := e.ctxTimeout
	if op.own != 0 {
		deadlineIn = op.own
	}
	n0 := len(c.Requests)
	served := 0
	var chosen []string
	c.DispatchFault = func(r *gocbcore.SimRequest) error {
		if len(c.Requests)-n0 > 3 {
			return nil
		}
		if vrt.Choose(2, false, "dispatch") == 1 {
			chosen = append(chosen, r.Kind+":dispatch-error")
			return gocbcore.ErrShutdown
		}
		return nil
	}
	c.Fault = func(r *gocbcore.SimRequest) gocbcore.SimAnswer {
		if r.ID <= n0 {
			return gocbcore.SimAnswer{}
		}
		served++
		if served > 3 {
			return gocbcore.SimAnswer{}
		}
		b := behaviours[vrt.Choose(len(behaviours), true, "behaviour")]
		chosen = append(chosen, r.Kind+":"+b.name)
		r.Note = b.name
		return b.ans(deadlineIn)
	}
	t0 := vrt.NowNanos()
	vrt.Window(true)
	err := op.run(e)
	vrt.Window(false)
	took := time.Duration(vrt.NowNanos() - t0)
	c.DispatchFault, c.Fault = nil, nil
	desc := fmt.Sprintf("%s %v", op.name, chosen)
	// 0. when the call returns, none of its requests is still in flight un-cancelled: a request the caller has
	// given up on ("the pending operation is cancelled") must not reach the server / be applied afterwards
	for _, r := range c.Requests[n0:] {
		if r.Agent != "" && r.Answer != "dispatch-error" && r.Answer != "shutdown" && r.Answer != "no-server" && r.Finished == 0 && !r.Cancelled && !r.Done() {
			vrt.Failf("%s: the call returned (%v) while its %s request (%v) was still in flight and had not been cancelled", desc, err, r.Kind, r.Note)
		}
	}
	// 1. returns by its deadline (a hang shows up as a deadlock status)
	limit := deadlineIn + 10*time.Millisecond
	if op.name == "OpenStreamRollback" || op.name == "MetadataSave" || strings.HasPrefix(op.name, "GetVBucketSeqNos") {
		limit = 3*deadlineIn + 10*time.Millisecond // several sequential requests, each with its own deadline
	}
	if took > limit {
		vrt.Failf("%s: returned after %v, deadline is %v", desc, took, deadlineIn)
	}
	// 2. success only if the server confirmed every request of the call
	reqs := c.Requests[n0:]
	if err == nil {
		for _, r := range reqs {
			if r.Agent == "" {
				continue
			}
			confirmed := r.Finished != 0 && r.Err == nil && !r.Cancelled && r.Finished <= vrt.NowNanos()
			if op.knfIsOutcome && r.Err != nil {
				var kve *gocbcore.KeyValueError
				if errors.As(r.Err, &kve) && kve.StatusCode == memd.StatusKeyNotFound {
					confirmed = true
				}
			}
			var rb gocbcore.DCPRollbackError
			if op.name == "OpenStreamRollback" && errors.As(r.Err, &rb) {
				confirmed = true // the rollback answer is the server outcome this wrapper handles itself
			}
			if r.Answer == "dispatch-error" {
				confirmed = false
			}
			if !confirmed {
				vrt.Failf("%s: reported success although request %s (%v) was not confirmed by the server (answer=%s err=%v finished=%v cancelled=%v)", desc, r.Kind, r.Note, r.Answer, r.Err, r.Finished != 0, r.Cancelled)
			}
		}
	}
	// 4. a completion arriving later neither blocks nor panics: drain and use every connection again
	vrt.Sleep(2 * deadlineIn)
	vrt.Quiesce()
	// 3. no request of the call is left pending: a silent server's request was cancelled or timed out
	for _, r := range reqs {
		if r.Agent != "" && r.Answer != "dispatch-error" && r.Answer != "shutdown" && r.Finished == 0 {
			vrt.Failf("%s: the %s request (%v) is still pending long after the call returned (%v): it was never cancelled", desc, r.Kind, r.Note, err)
		}
	}
	ctx, cancel := vrtCtx(2 * time.Second)
	_, gerr := couchbase.Get(ctx, client.GetMetaAgent(), "_default", "_default", []byte("exists2"))
	cancel()
	var kve *gocbcore.KeyValueError
	if gerr == nil || !errors.As(gerr, &kve) {
		vrt.Failf("%s: the KV connection is unusable after the call (follow-up Get: %v)", desc, gerr)
	}
	if _, ferr := client.GetFailOverLogs(0); ferr != nil {
		vrt.Failf("%s: the DCP connection is unusable after the call (follow-up failover log: %v)", desc, ferr)
	}
	cls := "nil"
	if err != nil {
		cls = errClass(err)
	}
	vrt.SetOutcome(fmt.Sprintf("%v->%s", chosen, cls))
}

func errClass(err error) string {
	switch {
	case errors.Is(err, context.DeadlineExceeded):
		return "ctx-deadline"
	case errors.Is(err, gocbcore.ErrTimeout):
		return "timeout"
	case errors.Is(err, gocbcore.ErrRequestCanceled):
		return "canceled"
	}
	s := err.Error()
	if i := strings.Index(s, "|"); i > 0 {
		s = s[:i]
	}
	return s
}

// fakeOp is an interface-level PendingOp.
type fakeOp struct{ cancelled int }

func (f *fakeOp) Cancel() { f.cancelled++ }

// asyncOpMain: the AsyncOp contract itself: Resolve from another thread, before/after the deadline, or never.
func asyncOpMain() {
	mode := vrt.Choose(4, true, "mode") // 0 resolve early, 1 resolve at deadline, 2 never, 3 dispatch error
	ctx, cancel := vrtCtx(time.Second)
	defer cancel()
	a := couchbase.NewAsyncOp(ctx)
	op := &fakeOp{}
	vrt.Window(true)
	switch mode {
	case 0:
		vrt.GoNamed("completer", func() { a.Resolve() })
	case 1:
		vrt.GoNamed("completer", func() { vrt.Sleep(time.Second); a.Resolve() })
	}
	var err error
	if mode == 3 {
		err = a.Wait(nil, errors.New("dispatch failed"))
	} else {
		err = a.Wait(op, nil)
	}
	vrt.Window(false)
	switch mode {
	case 0:
		if err != nil || op.cancelled != 0 {
			vrt.Failf("resolved before the deadline: err=%v cancelled=%d", err, op.cancelled)
		}
	case 1:
		if err == nil && op.cancelled != 0 {
			vrt.Failf("reported success but cancelled the operation")
		}
		if err != nil && op.cancelled != 1 && !errors.Is(err, context.DeadlineExceeded) {
			vrt.Failf("err=%v cancelled=%d", err, op.cancelled)
		}
	case 2:
		if err == nil {
			vrt.Failf("a never-completed operation was reported as success")
		}
		if op.cancelled != 1 {
			vrt.Failf("timed out without cancelling the pending operation (Cancel calls: %d)", op.cancelled)
		}
	case 3:
		if err == nil {
			vrt.Failf("dispatch error swallowed")
		}
	}
	// a late Resolve must not block
	vrt.GoNamed("late", func() { a.Resolve() })
	vrt.Sleep(2 * time.Second)
	vrt.Quiesce()
	vrt.SetOutcome(fmt.Sprintf("%d:%v:%d", mode, err != nil, op.cancelled))
}

// seqMain: two operations in a row. The first one times out while its reply is still in flight (the
// completion arrives late); the second one meets a silent server.  Whatever the first operation left
// behind must not complete, unblock or confirm the second.
func seqMain() {
	resetGlobals()
	o := EnvOpts{Vbs: 2}
	c := NewCluster(&o)
	o.defaults()
	gocbcore.SimInstall(c)
	cfg := o.config()
	client := couchbase.NewClient(cfg)
	if err := client.Connect(); err != nil {
		panic(err)
	}
	if err := client.DcpConnect(true, false); err != nil {
		panic(err)
	}
	c.Bucket(srcBucket).PutDoc("exists", []byte(`{"a":1}`))
	if err := client.OpenStream(1, nil, &models.Offset{SnapshotMarker: &models.SnapshotMarker{}, LatestSeqNo: gocbcore.MaxSeq}, obsNop); err != nil {
		panic(err)
	}
	lateBy := []time.Duration{0, time.Millisecond, 500 * time.Millisecond}[vrt.Choose(3, true, "late-by")]
	first := vrt.Choose(3, true, "first-op")
	second := vrt.Choose(4, true, "second-op")
	const T = 2 * time.Second
	phase := 1
	c.Fault = func(r *gocbcore.SimRequest) gocbcore.SimAnswer {
		switch phase {
		case 1:
			return gocbcore.SimAnswer{Kind: "delay", Delay: T + lateBy}
		case 2:
			return gocbcore.SimAnswer{Kind: "drop"}
		}
		return gocbcore.SimAnswer{}
	}
	vrt.Window(true)
	ctx, cancel := vrtCtx(T)
	var err1 error
	switch first {
	case 0:
		err1 = couchbase.UpsertXattrs(ctx, client.GetMetaAgent(), "_default", "_default", []byte("exists"), "cbgo", []byte("{}"), 0)
	case 1:
		_, err1 = couchbase.Get(ctx, client.GetMetaAgent(), "_default", "_default", []byte("exists"))
	case 2:
		err1 = couchbase.DeleteDocument(ctx, client.GetMetaAgent(), "_default", "_default", []byte("exists"))
	}
	cancel()
	vrt.Window(false)
	_ = err1
	// let the late completion of the first operation arrive
	vrt.Sleep(time.Second)
	vrt.Quiesce()
	phase = 2
	n0 := len(c.Requests)
	t0 := vrt.NowNanos()
	ctx2, cancel2 := vrtCtx(T)
	var err2 error
	limit := T
	switch second {
	case 0:
		err2 = couchbase.CreateDocument(ctx2, client.GetMetaAgent(), "_default", "_default", []byte("k2"), []byte("{}"), 0, 0)
	case 1:
		_, err2 = couchbase.Get(ctx2, client.GetMetaAgent(), "_default", "_default", []byte("exists"))
	case 2:
		err2 = client.CloseStream(1)
		limit = 60 * time.Second
	case 3:
		_, err2 = client.GetVBucketSeqNos(false)
		limit = 60 * time.Second
	}
	cancel2()
	took := time.Duration(vrt.NowNanos() - t0)
	desc := fmt.Sprintf("first=%d (reply %v after its deadline) second=%d", first, lateBy, second)
	if err2 == nil {
		vrt.Failf("%s: the second operation reported success although the server never answered it", desc)
	}
	if took > limit+10*time.Millisecond {
		vrt.Failf("%s: the second operation returned after %v, its deadline is %v", desc, took, limit)
	}
	for _, r := range c.Requests[n0:] {
		if r.Answer == "drop" && r.Finished == 0 {
			vrt.Failf("%s: the pending %s request of the second operation was never cancelled", desc, r.Kind)
		}
	}
	phase = 3
	vrt.Sleep(61 * time.Second)
	vrt.Quiesce()
	vrt.SetOutcome(fmt.Sprintf("%s err1=%v err2=%v", desc, err1 != nil, err2 != nil))
}

// c20_saveretry: a checkpoint save whose writes the server did not confirm (error status, no reply, reply after
// the deadline, connection drop - per vBucket) is followed by a second save of the SAME positions against a
// healthy server (an idle vBucket, a retried Commit(), the save before a shutdown). A save that reports success
// has had every position confirmed by the server at some point: afterwards the store holds it.
func init() {
	scenarios["c20_saveretry"] = func(raw json.RawMessage) *vrt.Scenario {
		return &vrt.Scenario{Name: "c20_saveretry", FreeChoices: true, MaxSteps: 100000, NoTimerAlt: true, Main: func() {
			resetGlobals()
			o := EnvOpts{Vbs: 2, Nodes: 2}
			c := NewCluster(&o)
			o.defaults()
			gocbcore.SimInstall(c)
			cfg := o.config()
			cfg.Checkpoint.Timeout = 5 * time.Second
			client := couchbase.NewClient(cfg)
			if err := client.Connect(); err != nil {
				panic(err)
			}
			meta := couchbase.NewCBMetadata(client, cfg)
			doc := func(s uint64) *models.CheckpointDocument {
				d := models.NewEmptyCheckpointDocument("u")
				d.Checkpoint.SeqNo = s
				return d
			}
			state := func() map[uint16]*models.CheckpointDocument {
				return map[uint16]*models.CheckpointDocument{0: doc(3), 1: doc(4)}
			}
			dirty := func() map[uint16]bool { return map[uint16]bool{0: true, 1: true} }
			n0 := len(c.Requests)
			served := 0
			var chosen []string
			c.Fault = func(r *gocbcore.SimRequest) gocbcore.SimAnswer {
				if r.ID <= n0 {
					return gocbcore.SimAnswer{}
				}
				served++
				if served > 2 {
					return gocbcore.SimAnswer{}
				}
				b := behaviours[vrt.Choose(len(behaviours), true, "behaviour")]
				chosen = append(chosen, fmt.Sprintf("%s(vb%d):%s", r.Kind, r.Vb, b.name))
				return b.ans(cfg.Checkpoint.Timeout)
			}
			vrt.Window(true)
			first := meta.Save(state(), dirty(), "u")
			c.Fault = nil
			vrt.Sleep(time.Second)
			second := meta.Save(state(), dirty(), "u")
			vrt.Window(false)
			vrt.Sleep(12 * time.Second)
			vrt.Quiesce()
			desc := fmt.Sprintf("first save %v -> %v; second save of the same positions, healthy server -> %v", chosen, first, second)
			for vb, want := range map[uint16]uint64{0: 3, 1: 4} {
				d, ok := StoredDoc(c, srcBucket, o.Group, vb)
				var got uint64
				if ok && d.Checkpoint != nil {
					got = d.Checkpoint.SeqNo
				}
				if second == nil && got != want {
					vrt.Failf("%s: the second save reported success, the store holds %d for vb%d (want %d): success for a write the server never confirmed", desc, got, vb, want)
				}
			}
			if second != nil {
				vrt.Failf("%s: the second save failed against a healthy server", desc)
			}
			vrt.SetOutcome(desc)
		}}
	}
}
