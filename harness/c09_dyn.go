package main

import (
	"encoding/json"
	"fmt"
	"time"

	"github.com/Trendyol/go-dcp/helpers"
	"github.com/Trendyol/go-dcp/membership"
	"github.com/Trendyol/go-dcp/stream"
	"github.com/asaskevich/EventBus"

	"verif/vrt"
)

// C09 with a numbering that changes while it is being used.
//
// c09_getrace: a renumbering (old -> new) is announced at every scheduling point of a running Get() of the
//   real discovery object (dynamic and leader-assigned membership): the result is exactly the partition-rule
//   chunk of the old or of the new numbering - never a chunk of a (group size, member) pair nobody announced.
// c09_window: a real stream (leader-assigned membership, rebalance delay 20 s) is told 1..3 renumberings
//   with gaps inside / outside the delay window, each followed by the real Rebalance(); once everything is
//   quiet the streams that are open are exactly the partition-rule chunk of the LAST announced numbering.

var numberings = [][2]int{{1, 1}, {1, 2}, {2, 2}, {1, 4}, {3, 4}, {4, 4}}

func chunkOf(nvb int, m [2]int) []uint16 {
	all := make([]uint16, nvb)
	for i := range all {
		all[i] = uint16(i)
	}
	return helpers.ChunkSlice[uint16](all, m[1])[m[0]-1]
}

func init() {
	scenarios["c09_getrace"] = func(raw json.RawMessage) *vrt.Scenario {
		return &vrt.Scenario{Name: "c09_getrace", FreeChoices: true, NoTimerAlt: true, Main: func() {
			resetGlobals()
			kind := []string{"dynamic", "kubernetesHa"}[vrt.Choose(2, true, "membership")]
			old := numberings[vrt.Choose(len(numberings), true, "old")]
			nw := numberings[vrt.Choose(len(numberings), true, "new")]
			const nvb = 64
			o := EnvOpts{MembershipType: kind}
			o.defaults()
			bus := EventBus.New()
			disc := stream.NewVBucketDiscovery(nil, o.config(), nvb, bus)
			bus.Publish(helpers.MembershipChangedBusEventName, &membership.Model{MemberNumber: old[0], TotalMembers: old[1]})
			bus.WaitAsync()
			vrt.Quiesce()
			k := vrt.Choose(12, true, "announce-at")
			vrt.InjectAtomic("getter", k, func() {
				bus.Publish(helpers.MembershipChangedBusEventName, &membership.Model{MemberNumber: nw[0], TotalMembers: nw[1]})
				bus.WaitAsync()
			})
			var got []uint16
			done := false
			vrt.Window(true) // (yields are scheduling points only inside a window)
			vrt.GoNamed("getter", func() {
				got = disc.Get()
				done = true
			})
			vrt.Sleep(time.Second)
			vrt.Quiesce()
			vrt.Window(false)
			desc := fmt.Sprintf("%s membership, N=%d, renumbering %d/%d -> %d/%d announced at point %d of Get()", kind, nvb, old[0], old[1], nw[0], nw[1], k)
			if !done {
				vrt.Failf("%s: Get() did not return; blocked: %v", desc, vrt.BlockedThreads())
				return
			}
			if !vrt.Injected() {
				vrt.SetOutcome(kind + " beyond the points of Get()")
				return
			}
			g := fmt.Sprint(got)
			if g != fmt.Sprint(chunkOf(nvb, old)) && g != fmt.Sprint(chunkOf(nvb, nw)) {
				vrt.Failf("%s: Get() returned %d..%d (%d vBuckets), which is neither the chunk of %d/%d (%d..%d) nor of %d/%d (%d..%d)", desc,
					got[0], got[len(got)-1], len(got), old[0], old[1], chunkOf(nvb, old)[0], chunkOf(nvb, old)[len(chunkOf(nvb, old))-1],
					nw[0], nw[1], chunkOf(nvb, nw)[0], chunkOf(nvb, nw)[len(chunkOf(nvb, nw))-1])
			}
			vrt.SetOutcome(fmt.Sprintf("%s %v->%v k=%d %d..%d", kind, old, nw, k, got[0], got[len(got)-1]))
		}}
	}
	scenarios["c09_window"] = func(raw json.RawMessage) *vrt.Scenario {
		return &vrt.Scenario{Name: "c09_window", FreeChoices: true, NoTimerAlt: true, MaxSteps: 400000, Main: func() {
			resetGlobals()
			const nvb = 8
			o := EnvOpts{Vbs: nvb, CheckpointType: "manual", MembershipType: "kubernetesHa", WrapMeta: true, RebalanceDelay: 20 * time.Second}
			c := NewCluster(&o)
			e := NewEnv(c, o)
			e.Cons.AutoAck = true
			cur := [2]int{1, 1}
			publishInfo(e, 1, 1)
			e.Bus.WaitAsync()
			e.Stream.Open()
			c.WaitIdle()
			n := 1 + vrt.Choose(3, true, "changes")
			gaps := []time.Duration{0, 5 * time.Second, 30 * time.Second}
			var hist []string
			for i := 0; i < n; i++ {
				if i > 0 {
					g := gaps[vrt.Choose(len(gaps), true, "gap")]
					vrt.Sleep(g)
					hist = append(hist, fmt.Sprintf("+%v", g))
				}
				cur = numberings[vrt.Choose(len(numberings), true, "numbering")]
				publishInfo(e, cur[0], cur[1])
				e.Bus.WaitAsync()
				e.Stream.Rebalance()
				hist = append(hist, fmt.Sprintf("%d/%d", cur[0], cur[1]))
			}
			vrt.Sleep(60 * time.Second)
			vrt.Quiesce()
			c.WaitIdle()
			vrt.Quiesce()
			want := chunkOf(nvb, cur)
			var open []uint16
			for vb := uint16(0); vb < nvb; vb++ {
				if c.StreamOpen(vb) {
					open = append(open, vb)
				}
			}
			if fmt.Sprint(open) != fmt.Sprint(want) {
				vrt.Failf("renumberings %v (rebalance delay 20s): afterwards the member streams vBuckets %v, the partition rule gives %v for %d/%d (overlap with / gap to the members that agree on this group size)", hist, open, want, cur[0], cur[1])
			}
			if m := e.VBD.GetMetric(); m.MemberNumber != cur[0] || m.TotalMembers != cur[1] || m.VBucketRangeStart != want[0] || m.VBucketRangeEnd != want[len(want)-1] {
				vrt.Failf("renumberings %v: discovery metric %+v, want %d/%d range %d..%d", hist, *m, cur[0], cur[1], want[0], want[len(want)-1])
			}
			vrt.SetOutcome(fmt.Sprint(hist, open))
		}}
	}
}

// c09_singleton: as many members as vBuckets (T = N): every member's set is a single vBucket - member 1's is
// {0}, the range whose bounds are both zero. The member streams it, acknowledgements move its position, the
// next save stores it, a restart resumes from it.
func init() {
	scenarios["c09_singleton"] = func(raw json.RawMessage) *vrt.Scenario {
		return &vrt.Scenario{Name: "c09_singleton", FreeChoices: true, NoTimerAlt: true, MaxSteps: 400000, Main: func() {
			resetGlobals()
			n := 1 + vrt.Choose(4, true, "vbuckets-and-members")
			m := 1 + vrt.Choose(n, true, "member")
			o := EnvOpts{Vbs: n, CheckpointType: "manual", MemberNumber: m, Total: n}
			c := NewCluster(&o)
			for vb := 0; vb < n; vb++ {
				c.Append(uint16(vb), marker(1, 2), mut(1, "a"), mut(2, "b"))
			}
			e := NewEnv(c, o)
			e.Cons.AutoAck = true
			e.Stream.Open()
			c.WaitIdle()
			vrt.Quiesce()
			mine := uint16(m - 1)
			desc := fmt.Sprintf("member %d of %d on %d vBuckets (its set is {%d})", m, n, n, mine)
			for vb := 0; vb < n; vb++ {
				if c.StreamOpen(uint16(vb)) != (uint16(vb) == mine) {
					vrt.Failf("%s: vb%d streamed = %v", desc, vb, c.StreamOpen(uint16(vb)))
				}
			}
			if len(e.Cons.Events) != 2 {
				vrt.Failf("%s: %d of 2 events delivered", desc, len(e.Cons.Events))
			}
			if tr, _ := e.Tracked(mine); tr != 2 {
				vrt.Failf("%s: both events were acknowledged, the tracked position of vb%d is %d", desc, mine, tr)
			}
			e.Stream.Save()
			if st, _ := e.StoredSeq(mine); st != 2 {
				vrt.Failf("%s: both events were acknowledged and a save has run, the stored position of vb%d is %d", desc, mine, st)
			}
			c.KillAgents()
			e.Cons.Disabled = true
			n0 := len(c.Requests)
			e2 := NewEnv(c, o)
			e2.Stream.Open()
			c.WaitIdle()
			for _, r := range c.Requests[n0:] {
				if r.Kind == "openstream" && r.Args[2] != 2 {
					vrt.Failf("%s: after a restart vb%d was requested from %d, its position was 2", desc, r.Vb, r.Args[2])
				}
			}
			vrt.SetOutcome(desc)
		}}
	}
}
