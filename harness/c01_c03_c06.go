package main

import (
	"encoding/json"
	"fmt"
	"github.com/Trendyol/go-dcp/config"
	"os"
	"strings"
	"time"

	"github.com/couchbase/gocbcore/v10"

	"verif/vrt"
)

var layouts = []string{"single", "multi", "backtoback", "seqadv", "reserved", "sparse"}

func init() {
	pipeAssume := []string{
		"cumulative acknowledgement: Ack(e) settles every event of that vBucket up to e; absorbed events settle up to themselves",
		"simulated DCP producer replays the enumerated per-vBucket log from the requested start position",
		"sequential histories (one operation at a time); the concurrent save window is covered by C05",
	}
	register(&Property{
		ID:        "C01",
		Pure:      tornFilePure("C01"),
		Technique: "explicit enumeration of all operation histories (deliver, ack oldest/newest, commit with optional failure, periodic tick, crash+restart) up to a depth over the real observer/stream/checkpoint/metadata code, reference model evaluated after every step and after every crash point",
		Rule:      "histories over {deliver0, deliver1, ackold, acknew, commit(ok|fail), tick, crash, crash-inside-a-save with every subset of the per-vBucket writes applied} for six snapshot layouts and two backends; every history ends with (or contains) a crash followed by a real restart on the same simulated bucket; non-trivial = distinct (history, durable tuples, tracked positions)",
		Assume:    pipeAssume,
		Instances: func(tier string) []Instance {
			d := 6
			if tier == "thorough" {
				d = 8
			}
			var out []Instance
			ops := []string{"deliver0", "deliver1", "ackold", "acknew", "commit", "crash", "crashsave"}
			for _, l := range layouts {
				out = append(out, Instance{Scenario: "pipe", Params: mustJSON(PipeParams{Mode: "script", Layout: l, Depth: d, Ops: ops, Faults: true, CrashEnd: true}), Bound: 0, Shards: 4})
			}
			out = append(out, Instance{Scenario: "pipe", Params: mustJSON(PipeParams{Mode: "script", Layout: "multi", Depth: d, Ops: append(ops[:5:5], "tick"), Auto: true, CrashEnd: true}), Bound: 0, Shards: 4})
			out = append(out, Instance{Scenario: "pipe", Params: mustJSON(PipeParams{Mode: "script", Layout: "backtoback", Depth: d - 1, Ops: ops, Backend: "file", CrashEnd: true}), Bound: 0, Shards: 4})
			out = append(out, Instance{Scenario: "pipe", Params: mustJSON(PipeParams{Mode: "script", Layout: "multi", Depth: d, Ops: []string{"deliver0", "deliver1", "ackold", "acknew", "commit"}, Latest: true, CrashEnd: true}), Bound: 0, Shards: 4, Note: "autoReset=latest: a vBucket without a document in a group that has checkpoints restarts from the beginning, not from the current end"})
			out = append(out, Instance{Scenario: "pipe", Params: mustJSON(PipeParams{Mode: "script", Layout: "multi", Depth: d, Ops: []string{"deliver0", "deliver1", "ackold", "ctxcommit", "commit"}, CrashEnd: true}), Bound: 0, Shards: 4, Note: "Commit() called through the context of an event that is not acknowledged"})
			out = append(out, Instance{Scenario: "pipe", Params: mustJSON(PipeParams{Mode: "gen", Alphabet: []string{"M", "Mshort", "Mpart", "Mres", "Mempty"}, Depth: 4, Ops: []string{"deliver0", "deliver1", "ackold", "commit"}, CrashEnd: true}), Bound: 0, Shards: 4, Note: "user keys that look almost like reserved ones (proper prefixes, partial prefixes, empty) are user events: the position passes them only when they are acknowledged"})
			out = append(out, Instance{Scenario: "c08_rollback", Params: mustJSON(RollbackParams{}), Bound: 0, Shards: 8, Note: "a restart answered with a rollback: every event above the checkpointed position is delivered (the first unsettled one is not skipped)"})
			out = append(out, Instance{Scenario: "c01_finite_end", Params: mustJSON(struct{}{}), Bound: 0, Note: "finite mode: streams end cleanly while acknowledgements are withheld, then save and exit"})
			out = append(out, Instance{Scenario: "pipe", Params: mustJSON(PipeParams{Mode: "gen", Alphabet: []string{"M", "Mbefore", "Ebefore"}, Depth: 4, Ops: []string{"deliver0", "deliver1", "ackold", "commit"}, SkipUntil: true, CrashEnd: true}), Bound: 0, Shards: 4, Note: "skipUntil configured: events it removes never carry the position past an unacknowledged event"})
			out = append(out, Instance{Scenario: "reopen_life", Params: mustJSON(LifeParams{Oracle: "delivery", Segs: 2}), Bound: 0, Shards: 8, Note: "no event is skipped on the way: after every transient end / fail-over / rollback (answered to the re-open of a live session, positions in the middle of a snapshot) the consumer is handed every document above the settled position before a later acknowledgement can carry the checkpoint past it"})
			out = append(out, Instance{Scenario: "c07_gate", Params: mustJSON(MitigationParams{Replicas: 1, EpochAssign: true}), Bound: 0, Shards: 8, Note: "rollback mitigation: an event that waits at the gate for longer than a configuration-watch interval is still delivered once covered - it is never dropped, so no later acknowledgement can carry the checkpoint past it"})
			out = append(out, Instance{Scenario: "c02_twogroups", Params: mustJSON(struct{}{}), Bound: 0, Note: "two consumer groups in one process: the stored checkpoint of a group names a position THAT group's consumer settled"})
			out = append(out, Instance{Scenario: "reopen_life", Params: mustJSON(LifeParams{Oracle: "position", Segs: 2}), Bound: 0, Shards: 8, Note: "events the server sends again after a transient end / fail-over / rollback while their first copies are still unacknowledged: the position (and the next save) stays at the furthest ACKNOWLEDGED event"})
			out = append(out, Instance{Scenario: "c01_closewindow", Params: mustJSON(struct{}{}), Bound: 0, Note: "a save inside the close phase of a rebalance / shutdown while the server keeps sending: the stored position never passes a document the consumer was not shown"})
			out = append(out, Instance{Scenario: "c01_concsave", Params: mustJSON(struct{}{}), Bound: 2, Shards: 8, Note: "the concurrent per-vBucket writes of one save under every schedule within the bound"})
			out = append(out, Instance{Scenario: "pipe_tornfile", Params: mustJSON(struct{}{}), Bound: 0, Note: "crash inside os.WriteFile of the file backend: every prefix class of the JSON file"})
			return out
		},
	})
	register(&Property{
		ID:        "C03",
		Technique: "explicit enumeration of all per-vBucket wire scripts over an event alphabet (kinds x key classes x CAS classes x collection ids x snapshot lengths) through the real observer and listener, compared event by event and field by field with a reference filter",
		Rule:      "every sequence of length <= depth of {deliver(vb, symbol, snapshot length), ack} with symbols from the alphabet; configurations skipUntil x collections; non-trivial = distinct (script, consumer log)",
		Assume:    pipeAssume,
		Instances: func(tier string) []Instance {
			d := 3
			if tier == "thorough" {
				d = 4
			}
			docs := []string{"M", "D", "E", "Mres", "Mtxn", "Dres", "Eres", "Mpart", "Mempty", "Mbin", "SEQ", "OSO", "CC", "CD", "CF", "CM", "SC", "SD"}
			skip := []string{"M", "E", "Mbefore", "Mat", "Ebefore", "Mres", "SEQ"}
			coll := []string{"M", "Mc1", "Dc2", "Mcx", "CC", "CD"} // (CD: "collection c1 dropped", seen by ONE vBucket at that point)
			ops := []string{"deliver0", "deliver1", "ackold"}
			return []Instance{
				{Scenario: "pipe", Params: mustJSON(PipeParams{Mode: "gen", Alphabet: docs, Depth: d, Ops: ops}), Bound: 0, Shards: 8},
				{Scenario: "pipe", Params: mustJSON(PipeParams{Mode: "gen", Alphabet: skip, Depth: d + 1, Ops: ops, SkipUntil: true}), Bound: 0, Shards: 8},
				{Scenario: "pipe", Params: mustJSON(PipeParams{Mode: "gen", Alphabet: []string{"M", "Mbefore", "Mat", "Ebefore"}, Depth: d, Ops: ops, SkipUntil: true, SkipFrac: true}), Bound: 0, Shards: 4, Note: "skipUntil half a second after a whole second: events of that second are older"},
				{Scenario: "pipe", Params: mustJSON(PipeParams{Mode: "gen", Alphabet: []string{"M", "Mhighcas", "Dhighcas", "Mshort"}, Depth: d, Ops: ops}), Bound: 0, Shards: 4, Note: "CAS values with the top bit set; user keys that are proper prefixes of a reserved prefix"},
				{Scenario: "pipe", Params: mustJSON(PipeParams{Mode: "gen", Alphabet: []string{"M", "Mhighcas", "Mbefore"}, Depth: d, Ops: ops, SkipUntil: true}), Bound: 0, Shards: 4, Note: "skipUntil with CAS values that have the top bit set (far in the future, never older)"},
				{Scenario: "pipe", Params: mustJSON(PipeParams{Mode: "gen", Alphabet: coll, Depth: d + 1, Ops: ops, Colls: true}), Bound: 0, Shards: 8},
				{Scenario: "pipe", Params: mustJSON(PipeParams{Mode: "gen", Alphabet: []string{"M", "Mc1", "Mresc1", "Dtxnc2", "Mres"}, Depth: d, Ops: ops, Colls: true}), Bound: 0, Shards: 4, Note: "keys under the reserved prefixes in NAMED collections (checkpoints / transaction records kept in a streamed collection) are filtered like in _default"},
				{Scenario: "c03_ephemeral", Params: mustJSON(struct{}{}), Bound: 0, Note: "an ephemeral bucket (nothing is ever persisted; rollback mitigation is switched off for it although it is enabled in the configuration): the first session and the session after a rebalance deliver every event"},
				{Scenario: "pipe", Params: mustJSON(PipeParams{Mode: "gen", Alphabet: append(append([]string{}, coll...), "Minfix", "Dinfix", "Mres"), Depth: d, Ops: ops, Colls: false}), Bound: 0, Shards: 4},
				{Scenario: "c08_rollback", Params: mustJSON(RollbackParams{}), Bound: 0, Shards: 4, Note: "the documented rollback filter: nothing at or below the position already reached, everything above it"},
				{Scenario: "c03_conc", Params: mustJSON(ConcParams{}), Bound: 2, Shards: 8, Note: "three vBuckets on two nodes streaming concurrently, all schedules within the bound"},
				{Scenario: "c03_conc", Params: mustJSON(ConcParams{Block: true}), Bound: 1, Shards: 4, Note: "consumer blocked inside a delivery of vb0 while the other node keeps delivering"},
				{Scenario: "pipe", Params: mustJSON(PipeParams{Mode: "script", Layout: "single", Depth: 6, Ops: []string{"deliver0", "deliver1", "ackold", "commit"}, Faults: true}), Bound: 0, Shards: 4, Note: "saves that the store rejects between deliveries: delivery goes on (every later event still reaches the consumer, every later commit returns)"},
				{Scenario: "c07_gate", Params: mustJSON(MitigationParams{Replicas: 1, EpochAssign: true}), Bound: 0, Shards: 8, Note: "an event that waits at the gate for longer than a configuration-watch interval is delivered once covered (not dropped)"},
				{Scenario: "reopen_life", Params: mustJSON(LifeParams{Oracle: "tuple", Segs: 2}), Bound: 0, Shards: 8, Note: "'an offset that is that event's own position' across transient ends, fail-overs and rollbacks: seqno, announced snapshot and the vbUUID of the branch the (re-)opened stream is on"},
				{Scenario: "c07_gate", Params: mustJSON(MitigationParams{Replicas: 1, Stall: true}), Bound: 0, Shards: 8, Note: "rollback mitigation on (the default): an event that has to wait at the gate is delivered once the copies have persisted it (completeness), also when the DCP thread stalls at any point"},
				{Scenario: "c03_twosessions", Params: mustJSON(struct{}{}), Bound: 0, Shards: 1, Note: "two complete Dcp sessions in one process with independent collection configurations (and a collection re-created with a new id in between): names and stream filter of each session"},
				{Scenario: "c03_rebalance", Params: mustJSON(struct{}{}), Bound: 0, Shards: 4, Note: "completeness across a real Rebalance(): backlog arriving before it, while closed, or right after the vBucket re-opened while Open() still waits for another vBucket"},
				{Scenario: "reopen_life", Params: mustJSON(LifeParams{Oracle: "delivery", Segs: 2}), Bound: 0, Shards: 8, Note: "chains of transient ends and re-opens (same history / fail-over without rollback / rollback), every acknowledgement pattern between them"},
			}
		},
	})
	register(&Property{
		ID:        "C06",
		Pure:      tornFilePure("C06"),
		Technique: "explicit enumeration of operation histories over snapshot layouts with delayed acknowledgements and saves; a monitor checks every offset handed out, tracked, handed to the metadata store, stored and requested after restart against the reference set of single-event tuples",
		Rule:      "histories over {deliver0, deliver1, ackold, acknew, commit, crash} for six snapshot layouts (single-item, multi-item, back-to-back, seqno-advanced closing a snapshot, reserved keys, sparse); non-trivial = distinct (history, tuples)",
		Assume:    pipeAssume,
		Instances: func(tier string) []Instance {
			d := 6
			if tier == "thorough" {
				d = 8
			}
			var out []Instance
			ops := []string{"deliver0", "deliver1", "ackold", "acknew", "commit"}
			for _, l := range append(append([]string{}, layouts...), "seqadvgap") {
				out = append(out, Instance{Scenario: "pipe", Params: mustJSON(PipeParams{Mode: "script", Layout: l, Depth: d, Ops: ops, CrashEnd: true}), Bound: 0, Shards: 4})
			}
			out = append(out, Instance{Scenario: "pipe_malformed", Params: mustJSON(struct{}{}), Bound: 0})
			out = append(out, Instance{Scenario: "c06_resumenomarker", Params: mustJSON(struct{}{}), Bound: 0, Note: "a resumed stream (restart or re-open) that begins with an item no marker of that stream announced stops the client, also when the item lies inside the STORED snapshot"})
			out = append(out, Instance{Scenario: "c06_skipmalformed", Params: mustJSON(struct{}{}), Bound: 0, Note: "skipUntil configured + an event outside its snapshot that is older than skipUntil: no tracked / reported / stored offset leaves its snapshot"})
			out = append(out, Instance{Scenario: "c12_finite", Params: mustJSON(FiniteParams{}), Bound: 0, Shards: 2, Note: "finite mode with a last snapshot that reaches past the end of the run: offsets carry the announced range"})
			out = append(out, Instance{Scenario: "reopen_life", Params: mustJSON(LifeParams{Oracle: "tuple", Segs: 2, EarlySave: true}), Bound: 0, Shards: 8, Note: "the same with a save before the first re-open"})
			out = append(out, Instance{Scenario: "reopen_life", Params: mustJSON(LifeParams{Oracle: "tuple", Segs: 2}), Bound: 0, Shards: 8, Note: "chains of transient ends and re-opens on changing history branches with late acknowledgements of earlier segments"})
			out = append(out, Instance{Scenario: "c02_resume", Params: mustJSON(ResumeParams{Backend: "custom"}), Bound: 0, Shards: 2, Note: "start offsets (incl. auto-reset latest on vBuckets with a multi-entry fail-over log) name the history branch the stream is opened on"})
			out = append(out, Instance{Scenario: "c08_rollback", Params: mustJSON(RollbackParams{}), Bound: 0, Shards: 8, Note: "after a rollback the offsets carry the vbUUID of the branch the stream runs on (multi-entry fail-over logs)"})
			for _, mode := range []string{"infinite", "finite"} {
				out = append(out, Instance{Scenario: "c15_start", Params: mustJSON(StartParams{Reset: "latest", Mode: mode}), Bound: 1, Shards: 4, Note: "start-up with autoReset=latest under single faults: a stream request that names a position names a branch of the vBucket's fail-over log (never a made-up vbUUID)"})
			}
			out = append(out, Instance{Scenario: "c06_reopen", Params: mustJSON(struct{}{}), Bound: 0, Note: "transient end, re-open answered with a rollback: the observer carries its old snapshot into the catch-up phase"})
			return out
		},
	})
}

// Malformed scripts: a server event outside its announced snapshot (or before any marker) must stop the
// client (panic on the DCP thread = process exit) and must not be delivered.
func init() {
	scenarios["pipe_malformed"] = func(raw json.RawMessage) *vrt.Scenario {
		return &vrt.Scenario{Name: "pipe_malformed", FreeChoices: true, Main: func() {
			pp := newPipe(PipeParams{Mode: "gen"})
			defer pp.cleanup()
			kinds := []string{"M", "D", "E", "CC", "SD"}
			kind := kinds[vrt.Choose(len(kinds), true, "kind")]
			var pk []gocbcore.SimPacket
			var bad uint64
			switch vrt.Choose(4, true, "shape") {
			case 0: // event before any marker
				bad = 1
				pk = []gocbcore.SimPacket{symbolPacket(kind, 1)}
			case 1: // beyond the end of its snapshot
				bad = 3
				pk = []gocbcore.SimPacket{marker(1, 2), symbolPacket("M", 1), symbolPacket(kind, 3)}
			case 2: // before the start of its snapshot
				bad = 2
				pk = []gocbcore.SimPacket{marker(1, 1), symbolPacket("M", 1), marker(5, 6), symbolPacket(kind, 2)}
			case 3: // after a seqno-advanced closed the snapshot
				bad = 4
				pk = []gocbcore.SimPacket{marker(1, 1), symbolPacket("M", 1), symbolPacket("SEQ", 2), symbolPacket(kind, 4)}
			}
			for i := range pk {
				pk[i].Raw = true
			}
			vrt.SetOutcome(fmt.Sprintf("%s@%d", kind, bad))
			pp.c.Append(0, pk...)
			pp.c.WaitIdle()
			for _, d := range pp.e.Cons.Events {
				if d.Seq == bad {
					vrt.Failf("event seq %d outside its announced snapshot was delivered to the consumer", bad)
				}
			}
			if tr, _ := pp.e.Tracked(0); tr >= bad {
				vrt.Failf("event seq %d outside its announced snapshot advanced the tracked position to %d", bad, tr)
			}
			vrt.Failf("event seq %d outside its announced snapshot did not stop the client", bad)
		}, Classify: func(r *vrt.Result) []string {
			if r.Status == vrt.StatusCrash && strings.Contains(r.Crash.Value, "not in snapshot") {
				// fail-stop as required; drop the "did not stop" marker failures recorded before the crash point
				r.Failures = nil
				return nil
			}
			return []string{"status " + r.Status.String()}
		}}
	}
}

// pipe_tornfile: the file backend's single JSON file is cut at every byte-prefix class by a crash inside
// os.WriteFile (empty, any proper prefix, complete); the restart must either fail stop or resume correctly.
func init() {
	scenarios["pipe_tornfile"] = func(raw json.RawMessage) *vrt.Scenario {
		return &vrt.Scenario{Name: "pipe_tornfile", FreeChoices: true, Main: func() {
			latest := vrt.Choose(2, true, "auto-reset") == 1
			pp := newPipe(PipeParams{Mode: "script", Layout: "multi", Backend: "file", Latest: latest})
			defer pp.cleanup()
			pp.deliverScript(0)
			pp.deliverScript(0)
			pp.deliverScript(1)
			for _, d := range pp.unacked(-1) {
				pp.ack(d)
			}
			pp.e.Stream.Save()
			pp.deliverScript(0)
			for _, d := range pp.unacked(-1) {
				pp.ack(d)
			}
			// the second save is torn
			good, _ := os.ReadFile(pp.file)
			pp.e.Stream.Save()
			full, _ := os.ReadFile(pp.file)
			cuts := []int{0, 1, len(full) / 4, len(full) / 2, len(full) - 2, len(full)}
			cut := cuts[vrt.Choose(len(cuts), true, "bytes-written-before-the-crash")]
			_ = os.WriteFile(pp.file, full[:cut], 0o644)
			_ = good
			vrt.SetOutcome(fmt.Sprintf("cut=%d/%d", cut, len(full)))
			if cut < len(full) {
				vrt.Logf("TORN")
			}
			pp.hist = append(pp.hist, fmt.Sprintf("torn-file(%d of %d bytes)", cut, len(full)))
			pp.crashRestart()
			pp.checkAll()
		}, Classify: func(r *vrt.Result) []string {
			torn := false
			for _, l := range r.Log {
				if l == "TORN" {
					torn = true
				}
			}
			if r.Status == vrt.StatusCrash {
				if torn {
					return nil // fail-stop on a torn checkpoint file
				}
				return []string{"restart on a complete checkpoint file crashed: " + r.Crash.Value}
			}
			if r.Status != vrt.StatusOK {
				return []string{"status " + r.Status.String()}
			}
			return nil // resumed: the restart clauses were checked by crashRestart (Failf)
		}}
	}
}

// c03_conc: vBuckets streaming concurrently on two nodes (two DCP threads) and two vBuckets sharing a node,
// under all schedules within the bound, optionally with the consumer blocking inside one delivery.
type ConcParams struct {
	Block bool `json:"block"`
}

func init() {
	scenarios["c03_conc"] = func(raw json.RawMessage) *vrt.Scenario {
		var p ConcParams
		_ = json.Unmarshal(raw, &p)
		return &vrt.Scenario{Name: "c03_conc", NoTimerAlt: true, MaxSteps: 400000, Main: func() {
			resetGlobals()
			o := EnvOpts{Vbs: 3, Nodes: 2, CheckpointType: "manual", WrapMeta: true}
			c := NewCluster(&o)
			scripts := map[uint16][]string{0: {"M", "Mres", "D"}, 1: {"E", "M", "M"}, 2: {"D", "SEQ", "M"}}
			want := map[uint16][]gocbcore.SimPacket{}
			for vb := uint16(0); vb < 3; vb++ {
				c.Append(vb, marker(1, 3))
				for i, sym := range scripts[vb] {
					pk := symbolPacket(sym, uint64(i+1))
					pk.Vb = vb
					if sym == "SEQ" {
						c.Append(vb, pk, marker(3, 3))
						continue
					}
					c.Append(vb, pk)
					if isDoc(pk.Kind) && !strings.HasPrefix(string(pk.Key), reservedPrefix) {
						want[vb] = append(want[vb], pk)
					}
				}
			}
			e := NewEnv(c, o)
			e.Cons.AutoAck = true
			released := false
			if p.Block {
				e.Cons.OnConsume = func(d *Delivered) {
					if d.Vb == 0 && d.Seq == 1 {
						// the consumer sits in this delivery until the other node has delivered everything
						vrt.Block("consumer busy with vb0 seq1", func() bool { return released })
					}
				}
				vrt.GoNamed("releaser", func() {
					vrt.Block("vb1 fully delivered", func() bool {
						n := 0
						for _, d := range e.Cons.Events {
							if d.Vb == 1 {
								n++
							}
						}
						return n == len(want[1])
					})
					released = true
				})
			}
			vrt.Window(true)
			e.Stream.Open()
			vrt.Quiesce()
			c.WaitIdle()
			vrt.Window(false)
			for vb := uint16(0); vb < 3; vb++ {
				var got []*Delivered
				for _, d := range e.Cons.Events {
					if d.Vb == vb {
						got = append(got, d)
					}
				}
				if len(got) != len(want[vb]) {
					vrt.Failf("vb%d: %d events delivered %v, the server sent %d deliverable ones", vb, len(got), seqsOf(got), len(want[vb]))
					continue
				}
				for i, w := range want[vb] {
					if got[i].Seq != w.Seq || got[i].Kind != w.Kind {
						vrt.Failf("vb%d: event #%d is %s seq %d, server sent %s seq %d", vb, i, got[i].Kind, got[i].Seq, w.Kind, w.Seq)
					} else if msg := fieldDiff(got[i], w, false); msg != "" {
						vrt.Failf("vb%d seq %d: %s", vb, w.Seq, msg)
					}
					if got[i].Offset.SeqNo != w.Seq || uint64(got[i].Offset.VbUUID) != uint64(c.Vb[vb].Failover[0].VbUUID) {
						vrt.Failf("vb%d seq %d: offset %+v is not the event's own position", vb, w.Seq, got[i].Offset)
					}
				}
				tr, _ := e.Tracked(vb)
				if tr != 3 {
					vrt.Failf("vb%d tracked %d after three settled events", vb, tr)
				}
			}
			var order []string
			for _, d := range e.Cons.Events {
				order = append(order, fmt.Sprintf("%d.%d", d.Vb, d.Seq))
			}
			vrt.SetOutcome(strings.Join(order, " "))
		}}
	}
}

// c01_concsave: one save writes the checkpoints of several vBuckets through concurrent requests (one
// goroutine per dirty vBucket, keys built per request, gocbcore holding key slices by reference until the
// packet is written). Every schedule within the bound: afterwards the document of each vBucket holds a
// position that THIS vBucket had settled (never another vBucket's), and a restart resumes at or below it.
func init() {
	scenarios["c01_concsave"] = func(raw json.RawMessage) *vrt.Scenario {
		return &vrt.Scenario{Name: "c01_concsave", NoTimerAlt: true, MaxSteps: 200000, Main: func() {
			resetGlobals()
			o := EnvOpts{Vbs: 3, CheckpointType: "manual", WrapMeta: true}
			c := NewCluster(&o)
			c.Append(0, marker(1, 5), mut(1, "a1"), mut(2, "a2"), mut(3, "a3"), mut(4, "a4"), mut(5, "a5"))
			c.Append(1, marker(1, 2), mut(1, "b1"), mut(2, "b2"))
			c.Append(2, marker(1, 3), mut(1, "c1"), mut(2, "c2"), mut(3, "c3"))
			e := NewEnv(c, o)
			e.Stream.Open()
			c.WaitIdle()
			settled := map[uint16]uint64{0: 5, 1: 1, 2: 2}
			for _, d := range e.Cons.Events {
				if d.Seq == settled[d.Vb] {
					d.Ctx.Ack()
					d.Acked = true
				}
			}
			vrt.Window(true)
			e.Stream.Save()
			c.WaitIdle()
			vrt.Window(false)
			vrt.Quiesce()
			sig := ""
			for vb := uint16(0); vb < 3; vb++ {
				st, ok := e.StoredSeq(vb)
				if !ok {
					vrt.Failf("after the save vb%d has no stored checkpoint (settled %d)", vb, settled[vb])
					continue
				}
				if st > settled[vb] {
					vrt.Failf("after the save the stored checkpoint of vb%d is %d, but the consumer settled only %d on this vBucket (another vBucket's position was written under its key)", vb, st, settled[vb])
				} else if st != settled[vb] {
					vrt.Failf("after the save the stored checkpoint of vb%d is %d, settled %d", vb, st, settled[vb])
				}
				sig += fmt.Sprint(st, ";")
			}
			// restart on the same bucket: each vBucket is requested at or below its own settled position
			c.KillAgents()
			nreq := len(c.Requests)
			e2 := NewEnv(c, o)
			e2.Stream.Open()
			c.WaitIdle()
			for _, r := range c.Requests[nreq:] {
				if r.Kind == "openstream" && r.Args[2] > settled[r.Vb] {
					vrt.Failf("restart: vb%d resumes at %d, beyond its settled position %d (delivered-but-unacknowledged events are skipped)", r.Vb, r.Args[2], settled[r.Vb])
				}
			}
			vrt.SetOutcome(sig)
		}}
	}
}

// c01_finite_end: finite mode. The server ends every stream cleanly at the sampled high seqno while the
// consumer still withholds acknowledgements (it batches); then a save, then the process exits. The stored
// checkpoint names what was acknowledged, and the next run delivers the withheld events again.
func init() {
	scenarios["c01_finite_end"] = func(raw json.RawMessage) *vrt.Scenario {
		return &vrt.Scenario{Name: "c01_finite_end", FreeChoices: true, NoTimerAlt: true, MaxSteps: 200000, Main: func() {
			resetGlobals()
			o := EnvOpts{Vbs: 2, CheckpointType: "manual", Mode: config.DcpModeFinite, WrapMeta: true}
			c := NewCluster(&o)
			c.Append(0, marker(1, 2), mut(1, "a1"), mut(2, "a2"), marker(3, 4), mut(3, "a3"), mut(4, "a4"))
			c.Append(1, marker(1, 1), mut(1, "b1"))
			e := NewEnv(c, o)
			e.Stream.Open()
			c.WaitIdle()
			vrt.Quiesce()
			acked := uint64(vrt.Choose(5, true, "acknowledged-prefix-of-vb0"))
			ackVb1 := vrt.Choose(2, true, "vb1-acknowledged") == 1
			for _, d := range e.Cons.Events {
				if (d.Vb == 0 && d.Seq <= acked) || (d.Vb == 1 && ackVb1) {
					d.Ctx.Ack()
					d.Acked = true
				}
			}
			e.Stream.Save()
			c.WaitIdle()
			desc := fmt.Sprintf("finite mode, all streams ended cleanly, vb0 acknowledged up to %d of 4, vb1 acknowledged=%v", acked, ackVb1)
			if st, _ := e.StoredSeq(0); st != acked {
				vrt.Failf("%s: the save stored %d for vb0", desc, st)
			}
			if st, _ := e.StoredSeq(1); (st == 1) != ackVb1 {
				vrt.Failf("%s: the save stored %d for vb1", desc, st)
			}
			c.KillAgents()
			e.Cons.Disabled = true
			e2 := NewEnv(c, o)
			e2.Stream.Open()
			c.WaitIdle()
			vrt.Quiesce()
			var got []uint64
			for _, d := range e2.Cons.Events {
				if d.Vb == 0 {
					got = append(got, d.Seq)
				}
			}
			var want []uint64
			for s := acked + 1; s <= 4; s++ {
				want = append(want, s)
			}
			if fmt.Sprint(got) != fmt.Sprint(want) {
				vrt.Failf("%s: the next run delivered %v of vb0, the withheld events are %v", desc, got, want)
			}
			vrt.SetOutcome(desc)
		}}
	}
}

// c01_closewindow: the close phase of a rebalance (or shutdown) takes a while - the observers have stopped
// forwarding, the close-stream requests are still on the wire - and the server keeps sending: a document the
// consumer is never shown, then a non-document event (seqno-advanced / system event) behind it. A save lands
// inside that window (the consumer's Commit(), the periodic tick). The stored position must not pass the
// document that was thrown away: after the re-open it is delivered.
func init() {
	scenarios["c01_closewindow"] = func(raw json.RawMessage) *vrt.Scenario {
		return &vrt.Scenario{Name: "c01_closewindow", FreeChoices: true, NoTimerAlt: true, MaxSteps: 400000, Main: func() {
			resetGlobals()
			tail := []string{"SEQ", "CC", "M"}[vrt.Choose(3, true, "event-behind-the-dropped-document")]
			shutdown := vrt.Choose(2, true, "shutdown-instead-of-rebalance") == 1
			o := EnvOpts{Vbs: 1, CheckpointType: "manual", WrapMeta: true, RebalanceDelay: time.Second}
			c := NewCluster(&o)
			c.Append(0, marker(1, 2), mut(1, "a1"), mut(2, "a2"))
			e := NewEnv(c, o)
			e.Cons.AutoAck = true
			e.Stream.Open()
			c.WaitIdle()
			vrt.Quiesce()
			e.Stream.Save()
			c.Fault = func(r *gocbcore.SimRequest) gocbcore.SimAnswer {
				if r.Kind == "closestream" {
					return gocbcore.SimAnswer{Kind: "latedelay", Delay: 2 * time.Second}
				}
				return gocbcore.SimAnswer{}
			}
			n0 := len(e.Cons.Events)
			vrt.GoNamed("closer", func() {
				if shutdown {
					e.Stream.Close(true)
				} else {
					e.Stream.Rebalance()
				}
			})
			vrt.Sleep(500 * time.Millisecond)
			c.Append(0, marker(3, 4), mut(3, "a3"), symbolPacket(tail, 4))
			vrt.Sleep(500 * time.Millisecond)
			vrt.GoNamed("committer", func() { e.Stream.Save() })
			vrt.Sleep(10 * time.Second)
			vrt.Quiesce()
			c.WaitIdle()
			desc := fmt.Sprintf("close phase of a %s taking 2 s; document 3 and %s 4 arrive in it, then a save", map[bool]string{true: "shutdown", false: "rebalance"}[shutdown], tail)
			shown3 := false
			for _, d := range e.Cons.Events[n0:] {
				if d.Seq == 3 {
					shown3 = true
				}
			}
			st, _ := e.StoredSeq(0)
			if st > 2 && !shown3 {
				vrt.Failf("%s: the store holds position %d, the consumer was never shown document 3 (it has acknowledged 1 and 2)", desc, st)
			}
			if !shutdown && !shown3 {
				vrt.Failf("%s: after the re-open document 3 was not delivered", desc)
			}
			vrt.SetOutcome(fmt.Sprintf("%s|stored=%d shown3=%v", desc, st, shown3))
		}}
	}
}

// c06_skipmalformed: skipUntil is configured and the server sends an event that lies OUTSIDE its announced
// snapshot and is older than skipUntil. Whatever the library does with it (stop, or drop it as "too old"), no
// offset it tracks, reports or stores afterwards violates snapStart <= seqNo <= snapEnd.
func init() {
	scenarios["c06_skipmalformed"] = func(raw json.RawMessage) *vrt.Scenario {
		return &vrt.Scenario{Name: "c06_skipmalformed", FreeChoices: true, NoTimerAlt: true, MaxSteps: 200000, Main: func() {
			resetGlobals()
			kind := []string{"mutation", "deletion", "expiration"}[vrt.Choose(3, true, "kind")]
			where := vrt.Choose(3, true, "malformed-seq") // above the snapshot, below it, far above
			t := skipT
			o := EnvOpts{Vbs: 1, CheckpointType: "manual", WrapMeta: true, SkipUntil: &t}
			c := NewCluster(&o)
			bad := []uint64{25, 5, 1 << 40}[where]
			old := docPacket(kind, bad, "old", "before", 0)
			old.Raw = true
			c.Append(0, marker(10, 20), docPacket("mutation", 10, "k10", "after", 0), old, docPacket("mutation", 12, "k12", "after", 0))
			e := NewEnv(c, o)
			e.Cons.AutoAck = true
			e.Stream.Open()
			c.WaitIdle()
			vrt.Quiesce()
			e.Stream.Save()
			desc := fmt.Sprintf("snapshot [10,20], then a %s at seq %d (outside it) that is older than skipUntil", kind, bad)
			vrt.SetOutcome(desc)
			offs, _, _ := e.Stream.GetOffsets()
			if o0, ok := offs.Load(0); ok && o0.SnapshotMarker != nil && o0.SeqNo != 0 && !(o0.StartSeqNo <= o0.SeqNo && o0.SeqNo <= o0.EndSeqNo) {
				vrt.Failf("%s: the tracked offset is seq %d in snapshot [%d,%d]", desc, o0.SeqNo, o0.StartSeqNo, o0.EndSeqNo)
			}
			for _, s := range e.Cons.TrackSeq[0] {
				if s == bad {
					vrt.Failf("%s: the offset tracker was told position %d", desc, bad)
				}
			}
			if d, ok := StoredDoc(c, srcBucket, e.O.Group, 0); ok && d.Checkpoint != nil && d.Checkpoint.Snapshot != nil && d.Checkpoint.SeqNo != 0 &&
				!(d.Checkpoint.Snapshot.StartSeqNo <= d.Checkpoint.SeqNo && d.Checkpoint.SeqNo <= d.Checkpoint.Snapshot.EndSeqNo) {
				vrt.Failf("%s: the stored checkpoint is seq %d in snapshot [%d,%d]", desc, d.Checkpoint.SeqNo, d.Checkpoint.Snapshot.StartSeqNo, d.Checkpoint.Snapshot.EndSeqNo)
			}
		}, Classify: func(r *vrt.Result) []string {
			if r.Status == vrt.StatusCrash {
				return nil // stopping the client is the documented reaction to an event outside its snapshot
			}
			if r.Status != vrt.StatusOK {
				return []string{"execution ended with status " + r.Status.String()}
			}
			return nil
		}}
	}
}

// c06_resumenomarker: a session that RESUMES from a stored checkpoint taken in the middle of a snapshot
// (seq 5 of [1,10]) - at start-up or at the re-open after a transient end - and whose stream begins with an
// item that no snapshot marker of THIS stream announces (a server fault). The stored snapshot is not an
// announcement: whether the item lies inside it or not, the client stops and the item is not delivered.
func init() {
	scenarios["c06_resumenomarker"] = func(raw json.RawMessage) *vrt.Scenario {
		return &vrt.Scenario{Name: "c06_resumenomarker", FreeChoices: true, NoTimerAlt: true, MaxSteps: 200000, Main: func() {
			resetGlobals()
			kind := []string{"mutation", "deletion", "expiration"}[vrt.Choose(3, true, "kind")]
			bad := []uint64{7, 10, 12}[vrt.Choose(3, true, "seq")] // inside the stored snapshot, at its end, beyond it
			// (at a re-open the library keeps the observer, and with it the snapshot the ended stream had announced:
			// an item inside THAT range is left open here; one beyond it must stop the client)
			reopen := vrt.Choose(2, true, "at-a-re-open") == 1
			if reopen && bad <= 10 {
				vrt.SetOutcome("n/a")
				return
			}
			o := EnvOpts{Vbs: 1, CheckpointType: "manual", WrapMeta: true}
			c := NewCluster(&o)
			uuid := uint64(c.Vb[0].Failover[0].VbUUID)
			if reopen {
				c.Append(0, marker(1, 10))
			} else {
				// (the server's history holds 1..5 as a complete snapshot today - it is not announced again to a
				// stream that starts at 5; the range [1,10] exists in the store only)
				c.Append(0, marker(1, 5))
			}
			for s := uint64(1); s <= 5; s++ {
				c.Append(0, docPacket("mutation", s, fmt.Sprintf("k%d", s), "v", 0))
			}
			raw := docPacket(kind, bad, "unannounced", "v", 0)
			raw.Raw = true
			if !reopen {
				seedCheckpoint(c, srcBucket, o.Group, 0, uuid, 5, 1, 10)
				c.Append(0, raw)
			}
			e := NewEnv(c, o)
			e.Cons.AutoAck = true
			e.Stream.Open()
			c.WaitIdle()
			if reopen {
				// five events delivered and acknowledged inside [1,10]; the stream ends, the re-opened one starts
				// with the unannounced item
				c.EndStream(0, gocbcore.ErrSocketClosed)
				c.Append(0, raw)
				vrt.Sleep(3e9)
				vrt.Quiesce()
				c.WaitIdle()
			}
			vrt.SetOutcome(fmt.Sprintf("%s@%d reopen=%v", kind, bad, reopen))
			for _, d := range e.Cons.Events {
				if d.Key == "unannounced" {
					vrt.Failf("resumed from (seq 5, snapshot [1,10]): a %s at seq %d that no marker of the resumed stream announced was delivered (offset snapshot [%d,%d] comes from the store)", kind, bad, d.Snap[0], d.Snap[1])
				}
			}
			vrt.Failf("resumed from (seq 5, snapshot [1,10]): a %s at seq %d without any snapshot marker on the resumed stream did not stop the client", kind, bad)
		}, Classify: func(r *vrt.Result) []string {
			if r.Outcome == "n/a" || r.Status == vrt.StatusCrash && strings.Contains(r.Crash.Value, "not in snapshot") {
				r.Failures = nil
				return nil
			}
			return []string{"status " + r.Status.String()}
		}}
	}
}
