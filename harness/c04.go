package main

import (
	"encoding/json"
	"fmt"
	"os"
	"strings"

	"github.com/Trendyol/go-dcp/helpers"
	"github.com/Trendyol/go-dcp/membership"
	"github.com/Trendyol/go-dcp/models"
	"github.com/bytedance/sonic"
	"github.com/couchbase/gocbcore/v10"

	"verif/vrt"
)

// C04 — tracked position only moves forward and equals the furthest settled event.

type AckSeqParams struct {
	Resume   uint64 `json:"resume"` // stored checkpoint the session resumes from (0 = none)
	Len      int    `json:"len"`
	SysEvent bool   `json:"sys_event"`
}

type RangeParams struct {
	Commit bool `json:"commit"`
	Still  bool `json:"still"` // the rebalance keeps the vBucket in range (control)
	// DuringLoad: the late acknowledgement (and the commit) arrive while the re-opened session is loading its
	// checkpoints, i.e. after the new assignment has been computed and before the session is up
	DuringLoad bool `json:"during_load"`
	File       bool `json:"file"` // file metadata backend: its Load returns every vBucket in the file, not only the requested ones
	// ReAck (with Still): (vb0,2) is acknowledged BEFORE the rebalance and never saved (manual checkpointing: the
	// rebalance does not save), so the re-opened session starts below it; the consumer acknowledges the same
	// context again (a retried flush of its batch): the position reaches that event and the next save writes it
	ReAck bool `json:"re_ack"`
}

type RaceParams struct {
	WithSaver bool `json:"with_saver"`
}

func seedCheckpoint(c *gocbcore.SimCluster, bucket, group string, vb uint16, uuid uint64, seq, s0, s1 uint64) {
	doc := models.CheckpointDocument{Checkpoint: &models.CheckpointDocumentCheckpoint{VbUUID: uuid, SeqNo: seq, Snapshot: &models.CheckpointDocumentSnapshot{StartSeqNo: s0, EndSeqNo: s1}}, BucketUUID: "uuid-" + bucket}
	b, _ := sonic.Marshal(doc)
	c.Bucket(bucket).PutXattr(ckptKey(group, vb), helpers.Name, b)
}

func init() {
	scenarios["c04_ackseq"] = func(raw json.RawMessage) *vrt.Scenario {
		var p AckSeqParams
		_ = json.Unmarshal(raw, &p)
		return &vrt.Scenario{Name: "c04_ackseq", Main: func() { ackSeqMain(p) }, FreeChoices: true}
	}
	scenarios["c04_range"] = func(raw json.RawMessage) *vrt.Scenario {
		var p RangeParams
		_ = json.Unmarshal(raw, &p)
		return &vrt.Scenario{Name: "c04_range", Main: func() { rangeMain(p) }, FreeChoices: true}
	}
	scenarios["c04_race"] = func(raw json.RawMessage) *vrt.Scenario {
		var p RaceParams
		_ = json.Unmarshal(raw, &p)
		return &vrt.Scenario{Name: "c04_race", Main: func() { raceMain(p) }}
	}
	register(&Property{
		ID:        "C04",
		Technique: "explicit enumeration of all acknowledgement sequences (with repetition, interleaved commits) and exhaustive schedule exploration of concurrent acknowledgements, on the real stream code",
		Rule:      "ackseq: every sequence of length L over {ack e1..e4, commit} for resume positions {none, mid-script}; range: late acknowledgement after a real rebalance moved the vBucket out of / kept it in the range; race: all interleavings within the bound of two threads acknowledging different vBuckets plus a reader/saver. Non-trivial = distinct (TrackOffset log, offsets, stored positions)",
		Assume:    []string{"acknowledgements of one vBucket are issued one at a time (as the property states)", "dynamic membership + bus event used to drive a real Rebalance()"},
		Instances: func(tier string) []Instance {
			l := 4
			b := 2
			if tier == "thorough" {
				l = 6
				b = 4
			}
			return []Instance{
				{Scenario: "c04_ackseq", Params: mustJSON(AckSeqParams{Resume: 0, Len: l}), Bound: 0, Shards: 4},
				{Scenario: "c04_ackseq", Params: mustJSON(AckSeqParams{Resume: 2, Len: l}), Bound: 0, Shards: 4},
				{Scenario: "c04_ackseq", Params: mustJSON(AckSeqParams{Resume: 0, Len: l, SysEvent: true}), Bound: 0, Shards: 8, Note: "alphabet extended by a non-document event (seqno-advanced) that settles itself"},
				{Scenario: "pipe", Params: mustJSON(PipeParams{Mode: "gen", Alphabet: []string{"M", "Mres", "Mtxn", "SEQ", "CC"}, Depth: 4, Ops: []string{"deliver0", "deliver1", "ackold", "commit"}}), Bound: 0, Shards: 4, Note: "positions moved by library-internal documents, system and seqno-advanced events: tracked = reported to the offset tracker = written by the next save"},
				{Scenario: "pipe", Params: mustJSON(PipeParams{Mode: "script", Layout: "single", Depth: 6, Ops: []string{"deliver0", "deliver1", "ackold", "commit", "restart"}, Backend: "file"}), Bound: 0, Shards: 4, Note: "file backend with restarts: the next save writes the tracked position and never moves a vBucket it did not touch below what it resumed from"},
				{Scenario: "c09_singleton", Params: mustJSON(struct{}{}), Bound: 0, Note: "a member whose assigned range is a single vBucket (incl. 0..0): acknowledgements move its position and the next save writes it"},
				{Scenario: "c04_range", Params: mustJSON(RangeParams{Commit: true}), Bound: 0},
				{Scenario: "c04_range", Params: mustJSON(RangeParams{Commit: false}), Bound: 0},
				{Scenario: "c04_range", Params: mustJSON(RangeParams{Commit: true, Still: true}), Bound: 0},
				{Scenario: "c05_grow", Params: mustJSON(struct{}{}), Bound: 0, Note: "after a rebalance every save - also one issued through what is left of the previous session (the last tick of its schedule) - writes the positions the stream tracks NOW"},
				{Scenario: "c05_windowcommit", Params: mustJSON(struct{}{}), Bound: 0, Note: "acknowledgements inside a rebalance window (of the next and of an OLDER event) followed by a Commit(): what the store holds never goes back"},
				{Scenario: "c05_slowstore", Params: mustJSON(struct{}{}), Bound: 0, Note: "a second save requested while a slow one is in flight: the position acknowledged meanwhile is written by it (it is not folded into the save that dumped before the acknowledgement)"},
				{Scenario: "c04_range", Params: mustJSON(RangeParams{Commit: true, Still: true, ReAck: true}), Bound: 0, Note: "an acknowledgement that was never saved (manual mode) is repeated on the same context after the rebalance: the position reaches the event, the tracker is told, the next save writes it"},
				{Scenario: "c04_range", Params: mustJSON(RangeParams{Commit: true, DuringLoad: true}), Bound: 0, Note: "the late acknowledgement and the commit arrive while the re-opened session loads its checkpoints (the new assignment is already in effect)"},
				{Scenario: "c04_range", Params: mustJSON(RangeParams{Commit: false, DuringLoad: true}), Bound: 0},
				{Scenario: "c04_range", Params: mustJSON(RangeParams{Commit: true, File: true}), Bound: 0, Note: "file metadata backend: Load returns every vBucket of the file, so the offset table of the shrunk session also has entries for vBuckets that moved away"},
				{Scenario: "c04_range", Params: mustJSON(RangeParams{Commit: false, File: true}), Bound: 0},
				{Scenario: "c04_range", Params: mustJSON(RangeParams{Commit: true, Still: true, File: true}), Bound: 0},
				{Scenario: "c04_race", Params: mustJSON(RaceParams{WithSaver: false}), Bound: b, Shards: 4},
				{Scenario: "c04_race", Params: mustJSON(RaceParams{WithSaver: true}), Bound: b, Shards: 8},
				{Scenario: "c16_hist", Params: mustJSON(MetricParams{Depth: 3}), Bound: 0, Shards: 8, Note: "the position exposed through the metrics equals the tracked one after every step, also in the sessions after a rebalance"},
				{Scenario: "reopen_life", Params: mustJSON(LifeParams{Oracle: "position", Segs: 2, AckDuringReopen: true}), Bound: 0, Shards: 8, Note: "the same with an acknowledgement arriving while the re-open request is in flight"},
				{Scenario: "reopen_life", Params: mustJSON(LifeParams{Oracle: "position", Segs: 2}), Bound: 0, Shards: 8, Note: "acknowledgements of events delivered before a transient end / fail-over / rollback arriving after the re-open (stale acknowledgements naming the old branch), in every combination with acknowledgements of the new segment"},
			}
		},
	})
}

func ackSeqMain(p AckSeqParams) {
	resetGlobals()
	o := EnvOpts{Vbs: 2, CheckpointType: "manual", WrapMeta: true}
	c := NewCluster(&o)
	c.Append(0, marker(1, 4), mut(1, "a1"), mut(2, "a2"), mut(3, "a3"), mut(4, "a4"))
	c.Append(1, marker(1, 1), mut(1, "b1"))
	if p.Resume > 0 {
		seedCheckpoint(c, srcBucket, "g", 0, 1000, p.Resume, 1, 4)
	}
	e := NewEnv(c, o)
	e.Stream.Open()
	c.WaitIdle()
	var delivered []*Delivered
	for _, d := range e.Cons.Events {
		if d.Vb == 0 {
			delivered = append(delivered, d)
		}
	}
	if len(delivered) != 4-int(p.Resume) {
		vrt.Failf("harness: %d events delivered after resume %d", len(delivered), p.Resume)
		return
	}
	want := p.Resume
	var hist []string
	trackBase := len(e.Cons.TrackSeq[0])
	failSave := false
	c.Fault = func(r *gocbcore.SimRequest) gocbcore.SimAnswer {
		if failSave && (r.Kind == "mutatein" || r.Kind == "set") && strings.Contains(r.Key, ":checkpoint:") {
			return gocbcore.SimAnswer{Kind: "err", Err: gocbcore.ErrTemporaryFailure}
		}
		return gocbcore.SimAnswer{}
	}
	for step := 0; step < p.Len; step++ {
		nops := len(delivered) + 2
		if p.SysEvent {
			nops++
		}
		op := vrt.Choose(nops, true, "ack-op")
		if op == len(delivered)+2 {
			// a non-document event (seqno-advanced) settles itself: the position moves to it, and the next save
			// writes it - also when nothing else was acknowledged since the last save
			s := c.Vb[0].High + 1
			c.Append(0, marker(s, s), symbolPacket("SEQ", s))
			c.WaitIdle()
			vrt.Quiesce()
			if s > want {
				want = s
			}
			hist = append(hist, fmt.Sprintf("seqno-advanced(%d)", s))
		} else if op == len(delivered)+1 {
			// a save the store rejects: nothing may be forgotten, the next successful save writes the position
			before, _ := e.StoredSeq(0)
			failSave = true
			e.Stream.Save()
			failSave = false
			hist = append(hist, "commit-rejected")
			if st, _ := e.StoredSeq(0); st != before {
				vrt.Failf("harness: after %v the rejected save changed the store from %d to %d", hist, before, st)
			}
		} else if op == len(delivered) {
			e.Stream.Save()
			hist = append(hist, "commit")
			if st, ok := e.StoredSeq(0); want > p.Resume && (!ok || st != want) {
				vrt.Failf("after %v: save wrote %d for vb0, tracked position is %d", hist, st, want)
			}
		} else {
			d := delivered[op]
			d.Acked = true
			d.Ctx.Ack()
			if d.Seq > want {
				want = d.Seq
			}
			hist = append(hist, fmt.Sprintf("ack%d", d.Seq))
		}
		got, _ := e.Tracked(0)
		if got != want {
			vrt.Failf("after %v: tracked position of vb0 is %d, furthest settled is %d", hist, got, want)
		}
		// the other vBucket is never disturbed
		if o1, _ := e.Tracked(1); o1 != 0 {
			vrt.Failf("after %v: vb1 position moved to %d by acknowledgements of vb0", hist, o1)
		}
		tr := e.Cons.TrackSeq[0][trackBase:]
		for i := 1; i < len(tr); i++ {
			if tr[i] < tr[i-1] {
				vrt.Failf("after %v: offset tracker was told %v (moves backwards)", hist, tr)
				break
			}
		}
		if len(tr) > 0 && tr[len(tr)-1] != want {
			vrt.Failf("after %v: offset tracker last heard %d, position is %d", hist, tr[len(tr)-1], want)
		}
	}
	// the next save writes exactly the tracked position
	e.Stream.Save()
	if want > p.Resume {
		if st, ok := e.StoredSeq(0); !ok || st != want {
			vrt.Failf("after %v: final save stored %d (ok=%v), tracked position %d", hist, st, ok, want)
		}
	}
	vrt.SetOutcome(fmt.Sprintf("%v|%v|%d", hist, e.Cons.TrackSeq[0], want))
}

func publishInfo(e *Env, n, t int) {
	e.Bus.Publish(helpers.MembershipChangedBusEventName, &membership.Model{MemberNumber: n, TotalMembers: t})
}

func rangeMain(p RangeParams) {
	resetGlobals()
	o := EnvOpts{Vbs: 2, CheckpointType: "manual", MembershipType: "dynamic", WrapMeta: true}
	if p.File {
		f, _ := os.CreateTemp("", "ckpt*.json")
		o.Metadata, o.FileName = "file", f.Name()
		f.Close()
		os.Remove(o.FileName)
		defer os.Remove(o.FileName)
	}
	c := NewCluster(&o)
	c.Append(0, marker(1, 2), mut(1, "a1"), mut(2, "a2"))
	c.Append(1, marker(1, 2), mut(1, "b1"), mut(2, "b2"))
	e := NewEnv(c, o)
	publishInfo(e, 1, 1)
	vrt.Sleep(1)
	e.Stream.Open()
	c.WaitIdle()
	if len(e.Cons.Events) != 4 {
		vrt.Failf("harness: %d events delivered", len(e.Cons.Events))
		return
	}
	find := func(vb uint16, seq uint64) *Delivered {
		for _, d := range e.Cons.Events {
			if d.Vb == vb && d.Seq == seq {
				return d
			}
		}
		return nil
	}
	// settle vb1 at 1 and persist it, keep (vb1,2) and (vb0,*) unacknowledged
	find(1, 1).Ctx.Ack()
	e.Stream.Save()
	before, _ := e.StoredSeq(1)
	// a real rebalance: membership becomes 1/2 (vb1 leaves the range) or stays 1/1
	if p.Still {
		publishInfo(e, 1, 1)
	} else {
		publishInfo(e, 1, 2)
	}
	vrt.Sleep(1)
	var trackBeforeL, writesBeforeL int
	var entryBeforeL uint64
	var hadEntryL bool
	if p.DuringLoad {
		loads := e.RecMeta.Loads
		e.RecMeta.OnLoad = func(n int) {
			if n != loads+1 {
				return
			}
			trackBeforeL, writesBeforeL = len(e.Cons.TrackSeq[1]), len(c.Writes)
			entryBeforeL, hadEntryL = e.Tracked(1)
			find(1, 2).Ctx.Ack()
			if p.Commit {
				e.Stream.Save()
			}
		}
	}
	if p.ReAck {
		find(0, 2).Ctx.Ack()
	}
	e.Stream.Rebalance()
	vrt.Sleep(1e9)
	c.WaitIdle()
	if e.Stream.IsOpen() == false {
		vrt.Failf("harness: stream not reopened after rebalance")
		return
	}
	trackBefore := len(e.Cons.TrackSeq[1])
	writesBefore := len(c.Writes)
	// (a backend whose Load returns more than it was asked for leaves an entry for vb1 in the offset table; the
	// property is about acknowledgements not ALTERING or creating anything)
	entryBefore, hadEntry := e.Tracked(1)
	// late acknowledgement of an event delivered before the rebalance
	if p.DuringLoad {
		trackBefore, writesBefore, entryBefore, hadEntry = trackBeforeL, writesBeforeL, entryBeforeL, hadEntryL
	} else {
		find(1, 2).Ctx.Ack()
		if p.Commit {
			e.Stream.Save()
		}
	}
	if p.ReAck {
		if got, _ := e.Tracked(0); got != 0 {
			vrt.Failf("harness: vb0 resumed from %d after the rebalance, expected the stored position 0", got)
		}
		nTrack := len(e.Cons.TrackSeq[0])
		find(0, 2).Ctx.Ack()
		if got, _ := e.Tracked(0); got != 2 {
			vrt.Failf("event (vb0,2) acknowledged again after the rebalance (its first acknowledgement was never saved): the tracked position is %d, want 2", got)
		}
		if len(e.Cons.TrackSeq[0]) == nTrack {
			vrt.Failf("event (vb0,2) acknowledged again after the rebalance: not reported to the offset tracker")
		}
		e.Stream.Save()
		if st, _ := e.StoredSeq(0); st != 2 {
			vrt.Failf("event (vb0,2) acknowledged again after the rebalance: the next save stored %d for vb0, want 2", st)
		}
	}
	offs, dirty, _ := e.Stream.GetOffsets()
	if p.Still {
		if got, _ := e.Tracked(1); got != 2 {
			vrt.Failf("vb1 still owned: late acknowledgement not accepted (tracked %d)", got)
		}
	} else {
		if cur, ok := offs.Load(1); ok && (!hadEntry || cur.SeqNo != entryBefore) {
			vrt.Failf("acknowledgement for vb1 (outside the assigned range 0..0) created or altered an offset entry (before: %d present=%v, after: %d)", entryBefore, hadEntry, cur.SeqNo)
		}
		if d, ok := dirty.Load(1); ok && d {
			vrt.Failf("acknowledgement for vb1 (outside the assigned range) marked it dirty")
		}
		if len(e.Cons.TrackSeq[1]) != trackBefore {
			vrt.Failf("acknowledgement for vb1 (outside the assigned range) was reported to the offset tracker")
		}
		if after, _ := e.StoredSeq(1); after != before {
			vrt.Failf("checkpoint of vb1 (not owned) changed from %d to %d", before, after)
		}
		for _, w := range c.Writes[writesBefore:] {
			if w.Key == ckptKey("g", 1) {
				vrt.Failf("a checkpoint write was issued for vb1 which this member does not own")
			}
		}
	}
	vrt.SetOutcome(fmt.Sprintf("still=%v tracks=%v writes=%d", p.Still, e.Cons.TrackSeq, len(c.Writes)-writesBefore))
}

func raceMain(p RaceParams) {
	resetGlobals()
	o := EnvOpts{Vbs: 2, CheckpointType: "manual", WrapMeta: true}
	c := NewCluster(&o)
	c.Append(0, marker(1, 2), mut(1, "a1"), mut(2, "a2"))
	c.Append(1, marker(1, 2), mut(1, "b1"), mut(2, "b2"))
	e := NewEnv(c, o)
	e.Stream.Open()
	c.WaitIdle()
	byVb := map[uint16][]*Delivered{}
	for _, d := range e.Cons.Events {
		byVb[d.Vb] = append(byVb[d.Vb], d)
	}
	var wg vrt.WaitGroup
	vrt.Window(true)
	wg.Add(2)
	for vb := uint16(0); vb < 2; vb++ {
		evs := byVb[vb]
		vrt.GoNamed(fmt.Sprintf("acker%d", vb), func() {
			defer wg.Done()
			// out of order on purpose: 2 then 1
			evs[1].Ctx.Ack()
			evs[0].Ctx.Ack()
		})
	}
	if p.WithSaver {
		wg.Add(1)
		vrt.GoNamed("reader", func() {
			defer wg.Done()
			offs, _, _ := e.Stream.GetOffsets()
			offs.Range(func(vb uint16, off *models.Offset) bool {
				if off.SeqNo != 0 && off.SeqNo != 2 {
					vrt.Failf("observed vb%d at %d during racing acknowledgements (only 0 or 2 are legal)", vb, off.SeqNo)
				}
				return true
			})
			e.Stream.Save()
		})
	}
	wg.Wait()
	vrt.Window(false)
	for vb := uint16(0); vb < 2; vb++ {
		if got, _ := e.Tracked(vb); got != 2 {
			vrt.Failf("vb%d tracked %d after acknowledging 2 then 1 concurrently with the other vBucket", vb, got)
		}
		tr := e.Cons.TrackSeq[vb]
		if len(tr) != 1 || tr[0] != 2 {
			vrt.Failf("vb%d offset tracker heard %v, want [2]", vb, tr)
		}
	}
	e.Stream.Save()
	for vb := uint16(0); vb < 2; vb++ {
		st, _ := e.StoredSeq(vb)
		tr, _ := e.Tracked(vb)
		if st > tr {
			vrt.Failf("vb%d stored %d ahead of tracked %d", vb, st, tr)
		}
	}
	s0, _ := e.StoredSeq(0)
	s1, _ := e.StoredSeq(1)
	vrt.SetOutcome(fmt.Sprintf("%v|%d,%d", e.Cons.Tracks, s0, s1))
}
