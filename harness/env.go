package main

import (
	"encoding/json"
	"fmt"
	"os"
	"sort"
	"strings"
	"time"

	"github.com/Trendyol/go-dcp/config"
	"github.com/Trendyol/go-dcp/couchbase"
	"github.com/Trendyol/go-dcp/helpers"
	"github.com/Trendyol/go-dcp/logger"
	"github.com/Trendyol/go-dcp/metadata"
	"github.com/Trendyol/go-dcp/models"
	"github.com/Trendyol/go-dcp/stream"
	"github.com/Trendyol/go-dcp/tracing"
	"github.com/Trendyol/go-dcp/wrapper"
	"github.com/asaskevich/EventBus"
	"github.com/bytedance/sonic"
	"github.com/couchbase/gocbcore/v10"
	"github.com/google/uuid"
	"github.com/prometheus/client_golang/prometheus"

	"verif/vrt"
)

// ---- logging ---------------------------------------------------------------------------------------

type nopLogger struct{}

func (nopLogger) Trace(string, ...interface{}) {}
func (nopLogger) Debug(m string, a ...interface{}) {
	if verbose {
		vrt.Logf("debug "+m, a...)
	}
}
func (nopLogger) Info(m string, a ...interface{}) {
	if verbose {
		vrt.Logf("info "+m, a...)
	}
}
func (nopLogger) Warn(m string, a ...interface{}) {
	if verbose {
		vrt.Logf("warn "+m, a...)
	}
}
func (nopLogger) Error(m string, a ...interface{}) {
	if verbose {
		vrt.Logf("ERRORLOG "+m, a...)
	}
}
func (nopLogger) Log(string, string, ...interface{}) {}

var verbose bool

// deterministic uuid source
type detRand struct{ n byte }

func (d *detRand) Read(p []byte) (int, error) {
	for i := range p {
		d.n++
		p[i] = d.n
	}
	return len(p), nil
}

func resetGlobals() {
	mgmtFault = ""
	mgmtMetaStorage = ""
	logger.Log = nopLogger{}
	uuid.SetRand(&detRand{})
	prometheus.DefaultRegisterer = prometheus.NewRegistry()
}

// ---- recording consumer -----------------------------------------------------------------------------

type Delivered struct {
	Kind   string
	Vb     uint16
	Seq    uint64
	Key    string
	Offset models.Offset
	OffPtr *models.Offset
	Snap   [2]uint64
	Ctx    *models.ListenerContext
	Time   int64
	Acked  bool
}

type RecConsumer struct {
	AutoAck   bool
	Events    []*Delivered
	Tracks    []string
	TrackSeq  map[uint16][]uint64
	OnConsume func(d *Delivered)
	Disabled  bool // set after a simulated crash: late callbacks of the dead process are ignored
}

func NewRecConsumer(auto bool) *RecConsumer {
	return &RecConsumer{AutoAck: auto, TrackSeq: map[uint16][]uint64{}}
}

func describeEvent(ev interface{}) *Delivered {
	d := &Delivered{}
	switch e := ev.(type) {
	case models.DcpMutation:
		d.Kind, d.Vb, d.Seq, d.Key, d.Offset, d.OffPtr = "mutation", e.VbID, e.SeqNo, string(e.Key), *e.Offset, e.Offset
	case models.DcpDeletion:
		d.Kind, d.Vb, d.Seq, d.Key, d.Offset, d.OffPtr = "deletion", e.VbID, e.SeqNo, string(e.Key), *e.Offset, e.Offset
	case models.DcpExpiration:
		d.Kind, d.Vb, d.Seq, d.Key, d.Offset, d.OffPtr = "expiration", e.VbID, e.SeqNo, string(e.Key), *e.Offset, e.Offset
	default:
		d.Kind = fmt.Sprintf("%T", ev)
	}
	if d.Offset.SnapshotMarker != nil {
		d.Snap = [2]uint64{d.Offset.StartSeqNo, d.Offset.EndSeqNo}
	}
	return d
}

func (c *RecConsumer) ConsumeEvent(ctx *models.ListenerContext) {
	if c.Disabled {
		return
	}
	d := describeEvent(ctx.Event)
	d.Ctx = ctx
	d.Time = vrt.NowNanos()
	c.Events = append(c.Events, d)
	vrt.Logf("consume %s vb=%d seq=%d key=%q", d.Kind, d.Vb, d.Seq, d.Key)
	if c.OnConsume != nil {
		c.OnConsume(d)
	}
	if c.AutoAck {
		ctx.Ack()
		d.Acked = true // settled only once Ack() has returned
	}
}

func (c *RecConsumer) TrackOffset(vbID uint16, offset *models.Offset) {
	if c.Disabled {
		return
	}
	c.TrackSeq[vbID] = append(c.TrackSeq[vbID], offset.SeqNo)
	c.Tracks = append(c.Tracks, fmt.Sprintf("%d:%d", vbID, offset.SeqNo))
}

// ---- recording event handler ---------------------------------------------------------------------------

type RecHandler struct {
	Log []string
	On  func(name string)
}

func (h *RecHandler) add(n string) {
	h.Log = append(h.Log, n)
	vrt.Logf("handler %s t=%d", n, vrt.NowNanos())
	if h.On != nil {
		h.On(n)
	}
}
func (h *RecHandler) BeforeRebalanceStart() { h.add("BRS") }
func (h *RecHandler) AfterRebalanceStart()  { h.add("ARS") }
func (h *RecHandler) BeforeRebalanceEnd()   { h.add("BRE") }
func (h *RecHandler) AfterRebalanceEnd()    { h.add("ARE") }
func (h *RecHandler) BeforeStreamStart()    { h.add("BSStart") }
func (h *RecHandler) AfterStreamStart()     { h.add("ASStart") }
func (h *RecHandler) BeforeStreamStop()     { h.add("BSS") }
func (h *RecHandler) AfterStreamStop()      { h.add("ASS") }

// ---- environment ------------------------------------------------------------------------------------------

type EnvOpts struct {
	Nodes, Vbs, Replicas int
	MetaBucket           string // "" = same as source bucket
	Metadata             string // couchbase | file
	FileName             string
	ReadOnly             bool
	CheckpointType       string // auto | manual
	AutoReset            string
	Mode                 config.DcpMode
	Mitigation           bool
	MemberNumber, Total  int
	MembershipType       string
	AutoAck              bool
	CheckpointInterval   time.Duration
	CheckpointTimeout    time.Duration
	ConnectionTimeout    time.Duration // dcp.connectionTimeout (0 = the documented default)
	BucketType           string        // what the REST lookup reported: "" = couchbase (membase), "ephemeral"
	RebalanceDelay       time.Duration
	Version              *couchbase.Version
	SkipUntil            *time.Time
	Collections          []string
	CustomMeta           metadata.Metadata
	WrapMeta             bool // wrap the backend in a recording decorator
	Group                string
}

type Env struct {
	O       EnvOpts
	C       *gocbcore.SimCluster
	Cfg     *config.Dcp
	Client  couchbase.Client
	Meta    metadata.Metadata
	Stream  stream.Stream
	Bus     EventBus.Bus
	VBD     stream.VBucketDiscovery
	Cons    *RecConsumer
	EH      *RecHandler
	StopCh  chan struct{}
	CollIDs map[uint32]string
	RecMeta *RecMeta
	Col     prometheus.Collector // the metric collector, created on the first scrape
	API     any                  // the api object (api.API), created on first use
}

// SaveCall is one call of Metadata.Save as seen at the backend interface.
type SaveCall struct {
	Begin, End int64
	State      map[uint16]uint64 // vb -> seqno handed to the backend
	Docs       map[uint16]models.CheckpointDocument
	Dirty      map[uint16]bool
	Err        error
	Done       bool
}

// RecMeta records every Save/Load at the metadata.Metadata interface.
type RecMeta struct {
	Inner metadata.Metadata
	Saves []*SaveCall
	Loads int
	// OnLoad, when set, runs inside every Load (before the backend is asked) - i.e. while the session that
	// is being opened is loading its checkpoints
	OnLoad func(n int)
}

func (m *RecMeta) Save(state map[uint16]*models.CheckpointDocument, dirty map[uint16]bool, uuid string) error {
	sc := &SaveCall{Begin: vrt.NowNanos(), State: map[uint16]uint64{}, Dirty: map[uint16]bool{}, Docs: map[uint16]models.CheckpointDocument{}}
	for vb, d := range state {
		sc.State[vb] = d.Checkpoint.SeqNo
		cp := *d
		ck := *d.Checkpoint
		sn := *d.Checkpoint.Snapshot
		ck.Snapshot = &sn
		cp.Checkpoint = &ck
		sc.Docs[vb] = cp
	}
	for vb, d := range dirty {
		sc.Dirty[vb] = d
	}
	m.Saves = append(m.Saves, sc)
	err := m.Inner.Save(state, dirty, uuid)
	sc.End, sc.Err, sc.Done = vrt.NowNanos(), err, true
	return err
}

func (m *RecMeta) Load(vbIds []uint16, uuid string) (*wrapper.ConcurrentSwissMap[uint16, *models.CheckpointDocument], bool, error) {
	m.Loads++
	if m.OnLoad != nil {
		m.OnLoad(m.Loads)
	}
	return m.Inner.Load(vbIds, uuid)
}

func (m *RecMeta) Clear(vbIds []uint16) error { return m.Inner.Clear(vbIds) }

const srcBucket = "src"

func (o *EnvOpts) defaults() {
	if o.Nodes == 0 {
		o.Nodes = 1
	}
	if o.Vbs == 0 {
		o.Vbs = 2
	}
	if o.Metadata == "" {
		o.Metadata = "couchbase"
	}
	if o.CheckpointType == "" {
		o.CheckpointType = "manual"
	}
	if o.MemberNumber == 0 {
		o.MemberNumber, o.Total = 1, 1
	}
	if o.MembershipType == "" {
		o.MembershipType = "static"
	}
	if o.CheckpointInterval == 0 {
		o.CheckpointInterval = 10 * time.Second
	}
	if o.CheckpointTimeout == 0 {
		o.CheckpointTimeout = 5 * time.Second
	}
	if o.RebalanceDelay == 0 {
		o.RebalanceDelay = 20 * time.Second
	}
	if o.Version == nil {
		o.Version = &couchbase.Version{Major: 7, Minor: 2}
	}
	if o.Group == "" {
		o.Group = "g"
	}
}

// NewCluster builds the simulated cluster for the options.
func NewCluster(o *EnvOpts) *gocbcore.SimCluster {
	o.defaults()
	c := gocbcore.NewSimCluster(o.Nodes, o.Vbs, o.Replicas)
	c.StreamBucket = srcBucket
	c.Bucket(srcBucket)
	if o.MetaBucket != "" {
		c.Bucket(o.MetaBucket)
	}
	for i, n := range o.Collections {
		c.Collections["_default."+n] = uint32(8 + i)
	}
	return c
}

func (o *EnvOpts) config() *config.Dcp {
	cfg := &config.Dcp{
		Hosts:      []string{"127.0.0.1:8091"},
		Username:   "u",
		Password:   "p",
		BucketName: srcBucket,
	}
	cfg.Dcp.Group.Name = o.Group
	cfg.Dcp.Group.Membership.Type = o.MembershipType
	cfg.Dcp.Group.Membership.MemberNumber = o.MemberNumber
	cfg.Dcp.Group.Membership.TotalMembers = o.Total
	cfg.Dcp.Group.Membership.RebalanceDelay = o.RebalanceDelay
	cfg.Dcp.Mode = o.Mode
	cfg.Dcp.Listener.SkipUntil = o.SkipUntil
	cfg.Checkpoint.Type = o.CheckpointType
	cfg.Checkpoint.AutoReset = o.AutoReset
	cfg.Checkpoint.Interval = o.CheckpointInterval
	cfg.Checkpoint.Timeout = o.CheckpointTimeout
	if o.ConnectionTimeout != 0 {
		cfg.Dcp.ConnectionTimeout = o.ConnectionTimeout
	}
	cfg.RollbackMitigation.Disabled = !o.Mitigation
	cfg.RollbackMitigation.Interval = 500 * time.Millisecond
	cfg.RollbackMitigation.ConfigWatchInterval = 2 * time.Second
	cfg.HealthCheck.Disabled = true
	cfg.API.Disabled = true
	cfg.Metadata.Type = o.Metadata
	cfg.Metadata.ReadOnly = o.ReadOnly
	cfg.Metadata.Config = map[string]string{}
	if o.Metadata == "file" {
		cfg.Metadata.Config["fileName"] = o.FileName
	} else if o.MetaBucket != "" {
		cfg.Metadata.Config["bucket"] = o.MetaBucket
	}
	if len(o.Collections) > 0 {
		cfg.CollectionNames = o.Collections
	}
	cfg.ApplyDefaults()
	return cfg
}

// NewEnv connects a fresh go-dcp client + stream to cluster c (real client.go, metadata.go, stream.go).
func NewEnv(c *gocbcore.SimCluster, o EnvOpts) *Env {
	o.defaults()
	gocbcore.SimInstall(c)
	e := &Env{O: o, C: c, Cfg: o.config()}
	e.Client = couchbase.NewClient(e.Cfg)
	if err := e.Client.Connect(); err != nil {
		panic(fmt.Sprintf("connect: %v", err))
	}
	if err := e.Client.DcpConnect(true, false); err != nil {
		panic(fmt.Sprintf("dcp connect: %v", err))
	}
	switch {
	case o.CustomMeta != nil:
		e.Meta = o.CustomMeta
	case o.Metadata == "file":
		e.Meta = metadata.NewFSMetadata(e.Cfg)
	default:
		e.Meta = couchbase.NewCBMetadata(e.Client, e.Cfg)
	}
	if o.ReadOnly {
		e.Meta = metadata.NewReadMetadata(e.Meta)
	}
	if o.WrapMeta {
		e.RecMeta = &RecMeta{Inner: e.Meta}
		e.Meta = e.RecMeta
	}
	e.Bus = EventBus.New()
	e.VBD = stream.NewVBucketDiscovery(e.Client, e.Cfg, e.Client.GetNumVBuckets(), e.Bus)
	e.Cons = NewRecConsumer(o.AutoAck)
	e.EH = &RecHandler{}
	e.StopCh = make(chan struct{}, 1)
	ids, err := e.Client.GetCollectionIDs(e.Cfg.ScopeName, e.Cfg.CollectionNames)
	if err != nil {
		panic(err)
	}
	e.CollIDs = ids
	bucketType := "couchbase"
	if o.BucketType != "" {
		bucketType = o.BucketType
	}
	e.Stream = stream.NewStream(e.Client, e.Meta, e.Cfg, o.Version, &couchbase.BucketInfo{BucketType: bucketType},
		e.VBD, e.Cons, ids, e.StopCh, e.EH, tracing.NewTracerComponent())
	return e
}

// ---- helpers for oracles ------------------------------------------------------------------------------------

func ckptKey(group string, vb uint16) string {
	return fmt.Sprintf("%s%s:checkpoint:%d", helpers.Prefix, group, vb)
}

// StoredDoc reads the checkpoint document of vb straight from the simulated bucket.
func StoredDoc(c *gocbcore.SimCluster, bucket, group string, vb uint16) (*models.CheckpointDocument, bool) {
	_, x, ok := c.Bucket(bucket).Doc(ckptKey(group, vb))
	if !ok {
		return nil, false
	}
	raw, ok := x[helpers.Name]
	if !ok {
		return nil, false
	}
	var doc models.CheckpointDocument
	if err := sonic.Unmarshal(raw, &doc); err != nil || doc.Checkpoint == nil {
		return nil, false
	}
	return &doc, true
}

func (e *Env) metaBucket() string {
	if e.O.MetaBucket != "" {
		return e.O.MetaBucket
	}
	return srcBucket
}

// StoredSeq returns the stored checkpoint seqno of vb (0,false if none).
func (e *Env) StoredSeq(vb uint16) (uint64, bool) {
	if e.O.Metadata == "file" {
		b, err := os.ReadFile(e.O.FileName)
		if err != nil {
			return 0, false
		}
		m := map[uint16]*models.CheckpointDocument{}
		if json.Unmarshal(b, &m) != nil {
			return 0, false
		}
		d, ok := m[vb]
		if !ok || d.Checkpoint == nil {
			return 0, false
		}
		return d.Checkpoint.SeqNo, true
	}
	d, ok := StoredDoc(e.C, e.metaBucket(), e.O.Group, vb)
	if !ok {
		return 0, false
	}
	return d.Checkpoint.SeqNo, true
}

// Tracked returns the in-memory position of vb.
func (e *Env) Tracked(vb uint16) (uint64, bool) {
	offs, _, _ := e.Stream.GetOffsets()
	o, ok := offs.Load(vb)
	if !ok {
		return 0, false
	}
	return o.SeqNo, true
}

func mut(seq uint64, key string) gocbcore.SimPacket {
	return gocbcore.SimPacket{Kind: "mutation", Seq: seq, Key: []byte(key), Value: []byte("v"), Cas: uint64(1_700_000_000+seq) * 1_000_000_000, RevNo: 1}
}

func marker(a, b uint64) gocbcore.SimPacket {
	return gocbcore.SimPacket{Kind: "marker", SnapStart: a, SnapEnd: b}
}

func sortedKeysU16[V any](m map[uint16]V) []uint16 {
	ks := make([]uint16, 0, len(m))
	for k := range m {
		ks = append(ks, k)
	}
	sort.Slice(ks, func(i, j int) bool { return ks[i] < ks[j] })
	return ks
}

func joinLog(l []string) string { return strings.Join(l, ";") }
