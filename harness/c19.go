package main

import (
	"encoding/json"
	"errors"
	"fmt"
	"github.com/Trendyol/go-dcp/helpers"
	"github.com/Trendyol/go-dcp/membership"
	"strings"
	"time"

	"github.com/Trendyol/go-dcp/config"
	"github.com/Trendyol/go-dcp/couchbase"
	"github.com/Trendyol/go-dcp/models"
	"github.com/couchbase/gocbcore/v10"

	"verif/vrt"
)

// C19 — health checking is fail-stop after five consecutive failures, and stoppable.
// Real couchbase.healthCheck driving the real client.Ping over the simulated cluster, virtual clock.

type HCParams struct {
	Mode     string `json:"mode"`      // patterns | stop | calls
	SlowFail bool   `json:"slow_fail"` // failing pings take 1.5 s instead of 0.2 s
	// TwoStops: Stop() is called from two threads at the same moment (shutdown hook + signal handler)
	TwoStops bool `json:"two_stops"`
	// Timed: Stop()'s duration in virtual time is bounded (only meaningful without schedule deviations: a
	// deviation may delay the calling thread itself)
	Timed bool `json:"timed"`
	// ShortInterval: the check interval (2 s) is shorter than a round with slow failures: a tick is always pending
	ShortInterval bool `json:"short_interval"`
}

func init() {
	scenarios["c19_hc"] = func(raw json.RawMessage) *vrt.Scenario {
		var p HCParams
		_ = json.Unmarshal(raw, &p)
		return &vrt.Scenario{Name: "c19_hc", Main: func() { hcMain(p) }, FreeChoices: true, MaxSteps: 200000, NoTimerAlt: p.Mode != "stop", Classify: hcClassify}
	}
	register(&Property{
		ID:        "C19",
		Technique: "exhaustive enumeration of all 2^5 x 2^5 ping outcome patterns over two rounds, of Stop() arriving at every half-second of a 25 s window (x schedule deviations), and of all Start/Stop call sequences up to length 4, on the real health checker and client.Ping under a virtual clock",
		Rule:      "patterns: every success/failure pattern of two consecutive rounds; stop: patterns {all fail, fail-fail-success, all success} x Stop at t = k*0.5 s for k in 0..50 x deviations within the bound (pre-emption, early timer); calls: every sequence over {Start, Stop} of length <= 4; non-trivial = distinct (ping log, crash point)",
		Assume:    []string{"fail-stop is observed as a captured panic on the checker's goroutine", "ping latency 200 ms (virtual) so that Stop can land while a ping is in flight"},
		Instances: func(tier string) []Instance {
			b := 1
			if tier == "thorough" {
				b = 2
			}
			return []Instance{
				{Scenario: "c19_hc", Params: mustJSON(HCParams{Mode: "patterns"}), Bound: 0, Shards: 4},
				{Scenario: "c19_hc", Params: mustJSON(HCParams{Mode: "stop"}), Bound: b, Shards: 8},
				{Scenario: "c19_hc", Params: mustJSON(HCParams{Mode: "stop", Timed: true}), Bound: 0, Shards: 2, Note: "default schedule: Stop() returns within the ping time-out (it never waits for a retry wait, the rest of the interval or another round)"},
				{Scenario: "c19_hc", Params: mustJSON(HCParams{Mode: "stop", SlowFail: true, Timed: true}), Bound: 0, Shards: 2},
				{Scenario: "c19_hc", Params: mustJSON(HCParams{Mode: "stop", SlowFail: true, TwoStops: true, ShortInterval: true}), Bound: b, Shards: 8, Note: "the same with a check interval shorter than a round (a tick is always pending when the round ends)"},
				{Scenario: "c19_hc", Params: mustJSON(HCParams{Mode: "stop", SlowFail: true, TwoStops: true}), Bound: b, Shards: 8, Note: "two threads call Stop() at the same moment: once either has returned no ping is issued"},
				{Scenario: "c19_hc", Params: mustJSON(HCParams{Mode: "stop", SlowFail: true}), Bound: b, Shards: 8, Note: "failing pings take 1.5 s (longer than the retry wait): Stop() while such a ping is in flight"},
				{Scenario: "c19_hc", Params: mustJSON(HCParams{Mode: "calls"}), Bound: 0},
				{Scenario: "c13_shutdown", Params: mustJSON(ShutdownParams{Case: "idle", Checkpoint: "auto", Mitigation: true, Health: true, Membership: "static", MaxPoint: 1}), Bound: 0, Note: "the checker as wired into the client: Close() of the client stops it (API disabled, the default of the harness): no ping afterwards, no late fail-stop"},
				{Scenario: "c13_shutdown", Params: mustJSON(ShutdownParams{Case: "duringstart", Checkpoint: "auto", Mitigation: true, Health: true, Membership: "static", MaxPoint: 120}), Bound: 0, Shards: 4, Note: "Close() from another goroutine at every point of Start() before readiness: once the client has shut down no ping is issued (a Stop() that precedes the checker's Start() must not disarm the later Stop())"},
				{Scenario: "c13_shutdown", Params: mustJSON(ShutdownParams{Case: "pingfail", Checkpoint: "auto", Health: true, Membership: "static", MaxPoint: 40}), Bound: 0, Shards: 4, Note: "Close() of the client at every point of a failing health-check round"},
				{Scenario: "c19_wired", Params: mustJSON(struct{}{}), Bound: 0, Note: "through the real newDcp/Start() with the HTTP API disabled: five failed pings terminate the process; no ping when the health check is switched off"},
				{Scenario: "c19_endpoints", Params: mustJSON(struct{}{}), Bound: 0, Shards: 2, Note: "what a failed ping is: per-service endpoint lists of a multi-node cluster with some nodes down"},
			}
		},
	})
}

func hcClassify(r *vrt.Result) []string {
	pings, expectAt := 0, 0
	maybe := false
	for _, l := range r.Log {
		if strings.HasPrefix(l, "MAYBE-CRASH") {
			maybe = true
		}
		if strings.HasPrefix(l, "ping ") {
			pings++
		}
		if strings.HasPrefix(l, "EXPECT-CRASH") {
			fmt.Sscanf(l, "EXPECT-CRASH after ping %d", &expectAt)
		}
	}
	switch r.Status {
	case vrt.StatusOK:
		if expectAt > 0 {
			return []string{fmt.Sprintf("five consecutive failed pings in one round (the fifth was ping %d) did not stop the process", expectAt)}
		}
		return nil
	case vrt.StatusCrash:
		if expectAt == 0 && maybe {
			return nil
		}
		if expectAt == 0 {
			return []string{fmt.Sprintf("the process was terminated (%s) although no round had five consecutive failures (%d pings issued)", r.Crash.Value, pings)}
		}
		if pings != expectAt {
			return []string{fmt.Sprintf("terminated after %d pings, want exactly at the fifth failure of the round (ping %d)", pings, expectAt)}
		}
		return nil
	case vrt.StatusDeadlock:
		return []string{"hang: " + strings.Join(r.Blocked, " | ")}
	}
	return []string{"status " + r.Status.String()}
}

func hcMain(p HCParams) {
	resetGlobals()
	o := EnvOpts{Vbs: 2}
	c := NewCluster(&o)
	o.defaults()
	gocbcore.SimInstall(c)
	cfg := o.config()
	cfg.HealthCheck.Disabled = false
	cfg.HealthCheck.Interval = 10 * time.Second
	if p.ShortInterval {
		cfg.HealthCheck.Interval = 2 * time.Second
	}
	cfg.HealthCheck.Timeout = 3 * time.Second
	client := couchbase.NewClient(cfg)
	if err := client.Connect(); err != nil {
		panic(err)
	}
	// scripted ping outcomes, round-aware: the decision is taken when the server picks the ping up
	var rounds [][]bool // rounds[r][i] = ping i of round r fails
	var pingTimes []int64
	// what the checker sees is the result of Client.Ping(): record it at that interface
	rec := &pingRec{Client: client}
	hc := couchbase.NewHealthCheck(&cfg.HealthCheck, rec)
	t0 := vrt.NowNanos()
	// rounds are counted by outcomes (a round ends with its first success or its fifth failure), which
	// stays meaningful when threads are delayed arbitrarily
	perRound := map[int]int{}
	rd := 0
	lastFail := false
	c.Fault = func(r *gocbcore.SimRequest) gocbcore.SimAnswer {
		if r.Kind != "ping" {
			return gocbcore.SimAnswer{}
		}
		pingTimes = append(pingTimes, vrt.NowNanos())
		i := perRound[rd]
		perRound[rd]++
		lastFail = rd < len(rounds) && i < len(rounds[rd]) && rounds[rd][i]
		vrt.Logf("served fail=%v round=%d t=%.1fs", lastFail, rd, float64(vrt.NowNanos()-t0)/1e9)
		if !lastFail {
			rd++
		}
		if lastFail && p.SlowFail {
			// a failure that takes its time (e.g. a node that answers only just inside the ping time-out)
			return gocbcore.SimAnswer{Kind: "delay", Delay: 1500 * time.Millisecond}
		}
		return gocbcore.SimAnswer{Kind: "delay", Delay: 200 * time.Millisecond}
	}
	c.PingErr = func() error {
		if lastFail {
			return errors.New("node unhealthy")
		}
		return nil
	}

	bits := func(x int) []bool {
		out := make([]bool, 5)
		for i := range out {
			out[i] = x&(1<<i) != 0
		}
		return out
	}

	switch p.Mode {
	case "patterns":
		rounds = [][]bool{bits(vrt.Choose(32, true, "round1")), bits(vrt.Choose(32, true, "round2"))}
		vrt.SetOutcome(fmt.Sprintf("%v", rounds))
		hc.Start()
		vrt.Sleep(27 * time.Second)
		// per-round ping counts
		want := []int{}
		for _, rd := range rounds {
			n := 0
			for n < 5 && rd[n] {
				n++
			}
			if n < 5 {
				n++
			}
			want = append(want, n)
		}
		got := []int{perRound[0], perRound[1]}
		if fmt.Sprint(got) != fmt.Sprint(want) {
			vrt.Failf("pings per round %v, want %v for patterns %v (a success must end the round, a failure must be retried)", got, want, rounds)
		}
		hc.Stop()
		n := len(pingTimes)
		vrt.Sleep(30 * time.Second)
		if len(pingTimes) != n {
			vrt.Failf("%d pings were issued after Stop() had returned", len(pingTimes)-n)
		}
	case "stop":
		pat := [][]bool{{true, true, true, true, true}, {true, true, false, false, false}, {false, false, false, false, false}}[vrt.Choose(3, true, "pattern")]
		rounds = [][]bool{pat, pat}
		k := vrt.Choose(51, true, "stop-at")
		stopAt := time.Duration(k) * 500 * time.Millisecond
		vrt.SetOutcome(fmt.Sprintf("stop@%v pat=%v", stopAt, pat))
		vrt.Window(true)
		hc.Start()
		vrt.Sleep(stopAt)
		before := len(pingTimes)
		rec.stopCalled = true
		tStop := vrt.NowNanos()
		var otherReturned int64
		if p.TwoStops {
			vrt.GoNamed("second-stopper", func() {
				hc.Stop()
				otherReturned = vrt.NowNanos()
			})
		}
		hc.Stop()
		firstReturn := vrt.NowNanos()
		// promptly: a Stop() may wait for the ping that is in flight (at most the ping time-out), never for a
		// retry wait, the rest of the check interval or a further round
		if took := time.Duration(firstReturn - tStop); p.Timed && took > cfg.HealthCheck.Timeout+500*time.Millisecond {
			vrt.Failf("Stop() called at %v returned after %v of virtual time (ping time-out %v, check interval %v): it waited for more than the ping in flight", stopAt, took, cfg.HealthCheck.Timeout, cfg.HealthCheck.Interval)
		}
		if p.TwoStops {
			vrt.Quiesce()
			if otherReturned != 0 && otherReturned < firstReturn {
				firstReturn = otherReturned
			}
			for _, pt := range pingTimes {
				if pt > firstReturn {
					vrt.Failf("two concurrent Stop() calls at %v: a ping was issued %v after one of them had returned", stopAt, time.Duration(pt-firstReturn))
					break
				}
			}
		}
		vrt.Window(false)
		// promptness without a wall-clock oracle: Stop may wait for the ping in flight (or one that the
		// loop had already committed to), but not for retries or further rounds; a Stop that never
		// returns is reported as a hang
		// at most: the ping in flight when Stop was called + one more when the loop's select still picks a
		// pending tick (Go chooses among ready cases at random); retries and later rounds must not happen
		if extra := len(pingTimes) - before; extra > 2 {
			vrt.Failf("%d pings were issued between the call of Stop() and its return (stop at %v): Stop does not interrupt the round", extra, stopAt)
		}
		n := len(pingTimes)
		vrt.Quiesce()
		vrt.Sleep(40 * time.Second)
		vrt.Quiesce()
		if len(pingTimes) != n {
			vrt.Failf("%d pings were issued after Stop() had returned (stop at %v)", len(pingTimes)-n, stopAt)
		}
		hc.Stop()
	case "calls":
		seqLen := 1 + vrt.Choose(4, true, "len")
		var calls []string
		for i := 0; i < seqLen; i++ {
			// the first call is Start: a Stop() issued before any Start() is outside the property
			// (observation: it consumes the stop-once guard and leaves a later loop unstoppable)
			if i == 0 || vrt.Choose(2, true, "call") == 0 {
				calls = append(calls, "Start")
			} else {
				calls = append(calls, "Stop")
			}
		}
		vrt.SetOutcome(fmt.Sprintf("%v", calls))
		for _, cl := range calls {
			if cl == "Start" {
				hc.Start()
			} else {
				hc.Stop()
			}
			vrt.Sleep(12 * time.Second)
		}
		// at most one checking loop: at most one ping per interval
		for i := 1; i < len(pingTimes); i++ {
			if pingTimes[i]-pingTimes[i-1] < int64(9*time.Second) {
				vrt.Failf("calls %v: two pings %v apart - more than one checking loop is running", calls, time.Duration(pingTimes[i]-pingTimes[i-1]))
			}
		}
		hc.Stop()
		n := len(pingTimes)
		vrt.Sleep(30 * time.Second)
		if len(pingTimes) != n {
			vrt.Failf("calls %v: pings continue after Stop()", calls)
		}
	}
}

// pingRec decorates the real client: every Ping() result is logged; the fifth consecutive error is where
// the process has to die.
type pingRec struct {
	couchbase.Client
	calls, consec int
	stopCalled    bool
}

func (p *pingRec) Ping() (*models.PingResult, error) {
	p.calls++
	n := p.calls
	afterStop := p.stopCalled
	res, err := p.Client.Ping()
	vrt.Logf("ping #%d err=%v", n, err != nil)
	if err != nil {
		p.consec++
		if p.consec == 5 {
			if afterStop {
				// issued after Stop() was called: it may be the first attempt of a round the loop still
				// picked (select chose the pending tick), which the harness cannot tell from the fifth
				// attempt of the interrupted round; either outcome is legal
				vrt.Logf("MAYBE-CRASH after ping %d", n)
			} else {
				vrt.Logf("EXPECT-CRASH after ping %d", n)
			}
		}
	} else {
		p.consec = 0
	}
	return res, err
}

// c19_endpoints: what counts as a failed ping. gocbcore reports, per service, one entry per node; a ping is
// healthy iff the key-value service AND the management service each have at least one endpoint that answered
// without error in state OK - wherever it stands in the list. Every shape over 1..3 endpoints per service
// goes through the real client.Ping(); then five pings of that shape in a row through the real health
// checker terminate the process iff the shape is a failure.
func init() {
	scenarios["c19_endpoints"] = func(raw json.RawMessage) *vrt.Scenario {
		return &vrt.Scenario{Name: "c19_endpoints", FreeChoices: true, NoTimerAlt: true, Main: endpointsMain,
			Classify: func(r *vrt.Result) []string {
				expectCrash := strings.Contains(r.Outcome, "expect-crash")
				switch {
				case r.Status == vrt.StatusCrash && expectCrash, r.Status == vrt.StatusOK && !expectCrash:
					return nil
				case r.Status == vrt.StatusCrash:
					return []string{"the process was terminated by the health check although every ping was healthy (" + r.Outcome + "): " + r.Crash.Value}
				case r.Status == vrt.StatusOK:
					return []string{"five consecutive failed pings did not terminate the process (" + r.Outcome + ")"}
				}
				return []string{"status " + r.Status.String()}
			}}
	}
}

func endpointsMain() {
	resetGlobals()
	shapes := [][]int{{1}, {0}, {2}, {0, 1}, {1, 0}, {2, 1}, {0, 0}, {0, 2, 1}, {1, 1, 0}, {0, 0, 0}} // 1 ok, 0 error, 2 timeout
	ms := shapes[vrt.Choose(len(shapes), true, "kv-endpoints")]
	gs := shapes[vrt.Choose(len(shapes), true, "mgmt-endpoints")]
	healthy := func(s []int) bool {
		for _, x := range s {
			if x == 1 {
				return true
			}
		}
		return false
	}
	want := healthy(ms) && healthy(gs)
	o := EnvOpts{Vbs: 1}
	c := NewCluster(&o)
	mk := func(s []int, base string) []gocbcore.EndpointPingResult {
		var out []gocbcore.EndpointPingResult
		for i, x := range s {
			ep := gocbcore.EndpointPingResult{Endpoint: fmt.Sprintf("%s-%d", base, i), State: gocbcore.PingStateOK}
			switch x {
			case 0:
				ep.State, ep.Error = gocbcore.PingStateError, gocbcore.ErrSocketClosed
			case 2:
				ep.State, ep.Error = gocbcore.PingStateTimeout, gocbcore.ErrTimeout
			}
			out = append(out, ep)
		}
		return out
	}
	c.PingShape = func() map[gocbcore.ServiceType][]gocbcore.EndpointPingResult {
		return map[gocbcore.ServiceType][]gocbcore.EndpointPingResult{gocbcore.MemdService: mk(ms, "kv"), gocbcore.MgmtService: mk(gs, "mgmt")}
	}
	e := NewEnv(c, o)
	desc := fmt.Sprintf("kv=%v mgmt=%v (1 ok, 0 error, 2 timeout)", ms, gs)
	res, err := e.Client.Ping()
	if (err == nil) != want {
		vrt.Failf("%s: Ping() error = %v, want healthy = %v", desc, err, want)
	}
	if err == nil && (!strings.HasPrefix(res.MemdEndpoint, "kv-") || !strings.HasPrefix(res.MgmtEndpoint, "mgmt-")) {
		vrt.Failf("%s: Ping() reports endpoints %q / %q", desc, res.MemdEndpoint, res.MgmtEndpoint)
	}
	if want {
		vrt.SetOutcome(desc + " healthy")
	} else {
		vrt.SetOutcome(desc + " expect-crash")
	}
	hc := couchbase.NewHealthCheck(&config.HealthCheck{Interval: 2 * time.Second, Timeout: time.Second}, e.Client)
	hc.Start()
	vrt.Sleep(10 * time.Second)
	hc.Stop()
}

// c19_wired: the checker as the client wires it in, through the real newDcp / Start(): the cluster stops
// answering pings; the process has to terminate (fail-stop of the health checker) - whether the HTTP API is
// enabled or not, and never when the health check is switched off.
func init() {
	scenarios["c19_wired"] = func(raw json.RawMessage) *vrt.Scenario {
		return &vrt.Scenario{Name: "c19_wired", FreeChoices: true, NoTimerAlt: true, MaxSteps: 2_000_000, Main: func() {
			resetGlobals()
			health := vrt.Choose(2, true, "health-check-enabled") == 1
			// what the client has been through before the cluster stops answering: nothing / a rebalance (a
			// membership notification; with dynamic membership a new numbering) / a commit
			before := vrt.Choose(4, true, "lifecycle-before-the-failures")
			o := DcpOpts{HealthCheck: health}
			o.Vbs = 2
			o.CheckpointType = "manual"
			o.RebalanceDelay = 2 * time.Second
			if before == 2 {
				o.MembershipType = "dynamic"
			}
			c := NewCluster(&o.EnvOpts)
			e := NewDcpEnv(c, o)
			if e.Err != nil {
				vrt.Failf("newDcp: %v", e.Err)
				return
			}
			if before == 2 {
				vrt.GoNamed("first-membership", func() {
					vrt.Sleep(1)
					e.bus().Publish(helpers.MembershipChangedBusEventName, &membership.Model{MemberNumber: 1, TotalMembers: 1})
				})
			}
			e.Start()
			vrt.Quiesce()
			c.WaitIdle()
			switch before {
			case 1:
				e.bus().Publish(helpers.MembershipChangedBusEventName, &membership.Model{MemberNumber: 1, TotalMembers: 1})
				vrt.Sleep(o.RebalanceDelay + 3*time.Second)
			case 2:
				e.bus().Publish(helpers.MembershipChangedBusEventName, &membership.Model{MemberNumber: 1, TotalMembers: 2})
				vrt.Sleep(3 * time.Second)
			case 3:
				e.D.Commit()
			}
			vrt.Quiesce()
			c.WaitIdle()
			vrt.SetOutcome(fmt.Sprintf("health check enabled=%v api disabled=%v before=%s", health, e.Cfg.API.Disabled, []string{"nothing", "rebalance(static)", "rebalance(dynamic, 1/2)", "commit"}[before]))
			n := 0
			c.Fault = func(r *gocbcore.SimRequest) gocbcore.SimAnswer {
				if r.Kind == "ping" {
					n++
					vrt.Logf("PINGFAIL %d", n)
					return gocbcore.SimAnswer{Kind: "err", Err: gocbcore.ErrTemporaryFailure}
				}
				return gocbcore.SimAnswer{}
			}
			vrt.Sleep(e.Cfg.HealthCheck.Interval + 30*time.Second)
			vrt.Quiesce()
			if health {
				vrt.Failf("the cluster has not answered a ping for %v (%d failed pings), the process is still running", e.Cfg.HealthCheck.Interval+30*time.Second, n)
			} else if n > 0 {
				vrt.Failf("the health check is switched off, %d pings were issued", n)
			}
			e.D.Close()
		}, Classify: func(r *vrt.Result) []string {
			if r.Status == vrt.StatusCrash && strings.Contains(r.Outcome, "enabled=true") && r.Crash != nil && strings.Contains(r.Crash.Stack, "couchbase/healthcheck.go") {
				fails := 0
				for _, l := range r.Log {
					if strings.HasPrefix(l, "PINGFAIL") {
						fails++
					}
				}
				if fails != 5 {
					return []string{fmt.Sprintf("the health checker terminated the process after %d failed pings, want exactly 5", fails)}
				}
				r.Failures = nil
				return nil
			}
			if r.Status != vrt.StatusOK {
				m := "execution ended with status " + r.Status.String()
				if r.Crash != nil {
					m += ": panic in " + r.Crash.Thread + ": " + r.Crash.Value
				}
				return []string{m}
			}
			return nil
		}}
	}
}
