package main

import (
	"bytes"
	"encoding/json"
	"fmt"
	"os"
	"strings"
	"time"

	"github.com/Trendyol/go-dcp/models"
	"github.com/couchbase/gocbcore/v10"

	"verif/vrt"
)

// The pipeline harness: real observer -> stream.listen -> consumer -> Ack -> checkpoint -> metadata over
// the simulated cluster, driven by an explicit enumeration of operation histories
//   deliver(symbol|next script packet), ack(oldest|newest|specific), commit, tick, crash+restart
// with a boring reference model evaluated after every step.  Used by C01, C03, C06 (and reused by others).

type PipeParams struct {
	Mode       string   `json:"mode"`   // "script" (fixed layouts) or "gen" (packets chosen from an alphabet)
	Layout     string   `json:"layout"` // script mode: name of the per-vBucket scripts
	Alphabet   []string `json:"alphabet,omitempty"`
	Depth      int      `json:"depth"`
	Ops        []string `json:"ops"` // deliver0 deliver1 ackold acknew commit tick crash
	Backend    string   `json:"backend"`
	SkipUntil  bool     `json:"skip_until"`
	Colls      bool     `json:"colls"`
	Faults     bool     `json:"faults"` // a save may fail (free choice at the first checkpoint write of a save)
	Auto       bool     `json:"auto"`
	CrashEnd   bool     `json:"crash_end"`   // always finish with crash+restart
	Latest     bool     `json:"latest"`      // checkpoint.autoReset = latest
	SkipFrac   bool     `json:"skip_frac"`   // skipUntil lies half a second after a whole second (event times are whole seconds)
	MetaBucket bool     `json:"meta_bucket"` // checkpoints live in a second bucket, not in the streamed one
}

var skipT = time.Unix(1_700_000_100, 0)

func casFor(class string, seq uint64) uint64 {
	switch class {
	case "before":
		return uint64(skipT.Unix()-50) * 1_000_000_000
	case "at":
		return uint64(skipT.Unix()) * 1_000_000_000
	case "high":
		// a CAS with the top bit set (legal: CAS is an unsigned 64-bit value; such values do not look like
		// timestamps but must be carried and converted as what they are)
		return 1<<63 + uint64(seq)*1_000_000_000
	}
	return uint64(skipT.Unix()+50+int64(seq)) * 1_000_000_000
}

func docPacket(kind string, seq uint64, key string, casClass string, coll uint32) gocbcore.SimPacket {
	p := gocbcore.SimPacket{Kind: kind, Seq: seq, Key: []byte(key), Cas: casFor(casClass, seq), RevNo: seq + 100, CollectionID: coll}
	if kind != "expiration" {
		p.Value = []byte(fmt.Sprintf("v%d", seq))
		p.Datatype = uint8(seq % 4)
	}
	if kind != "mutation" {
		// the tombstone's delete_time, as the server supplies it: another second than the CAS, and on the OTHER
		// side of skipUntil (event time and the skipUntil decision follow the CAS)
		if casClass == "before" {
			p.DeleteTime = uint32(skipT.Unix() + 150)
		} else {
			p.DeleteTime = uint32(skipT.Unix() - 150)
		}
	}
	if kind == "mutation" {
		p.Flags = uint32(seq * 3)
		p.Expiry = uint32(seq * 5)
	}
	return p
}

// symbolPacket builds the packet for an alphabet symbol at sequence number seq.
// the reserved prefixes as the documentation states them (deliberately not the library's constants)
const (
	reservedPrefix = "_connector:cbgo:"
	txnPrefix      = "_txn:"
)

func symbolPacket(sym string, seq uint64) gocbcore.SimPacket {
	switch sym {
	case "M":
		return docPacket("mutation", seq, fmt.Sprintf("doc%d", seq), "after", 0)
	case "D":
		return docPacket("deletion", seq, fmt.Sprintf("doc%d", seq), "after", 0)
	case "E":
		return docPacket("expiration", seq, fmt.Sprintf("doc%d", seq), "after", 0)
	case "Mres":
		return docPacket("mutation", seq, reservedPrefix+"x:checkpoint:1", "after", 0)
	case "Mtxn":
		return docPacket("mutation", seq, txnPrefix+[]string{"abc", "client-record", "atr-1"}[seq%3], "after", 0)
	case "Dres":
		return docPacket("deletion", seq, reservedPrefix+"y", "after", 0)
	case "Eres": // the expiry of a library document with a TTL (a member's heart-beat document)
		return docPacket("expiration", seq, reservedPrefix+"g:instance:00000000-dead", "after", 0)
	case "Mpart":
		return docPacket("mutation", seq, "_connector:cbg", "after", 0)
	case "Minfix": // an application key that merely CONTAINS a reserved prefix
		return docPacket("mutation", seq, "order"+txnPrefix+fmt.Sprint(seq), "after", 0)
	case "Dinfix":
		return docPacket("deletion", seq, "x"+reservedPrefix+"y", "after", 0)
	case "Mhighcas":
		return docPacket("mutation", seq, fmt.Sprintf("hc%d", seq), "high", 0)
	case "Dhighcas":
		return docPacket("deletion", seq, fmt.Sprintf("hc%d", seq), "high", 0)
	case "Mshort": // a user key that is a proper prefix of a reserved prefix
		return docPacket("mutation", seq, []string{"_txn", "_connector", "_"}[seq%3], "after", 0)
	case "Mempty":
		return docPacket("mutation", seq, "", "after", 0)
	case "Mbin":
		return docPacket("mutation", seq, "\xff\xfe\x00", "after", 0)
	case "Mbefore":
		return docPacket("mutation", seq, fmt.Sprintf("old%d", seq), "before", 0)
	case "Mat":
		return docPacket("mutation", seq, fmt.Sprintf("at%d", seq), "at", 0)
	case "Ebefore":
		return docPacket("expiration", seq, fmt.Sprintf("old%d", seq), "before", 0)
	case "Mresc1": // a key under the reserved prefix in a NAMED collection (checkpoints kept in the streamed collection)
		return docPacket("mutation", seq, reservedPrefix+"g:checkpoint:7", "after", 8)
	case "Dtxnc2":
		return docPacket("deletion", seq, txnPrefix+"atr-9", "after", 9)
	case "Mc1":
		return docPacket("mutation", seq, fmt.Sprintf("c1doc%d", seq), "after", 8)
	case "Dc2":
		return docPacket("deletion", seq, fmt.Sprintf("c2doc%d", seq), "after", 9)
	case "Mcx":
		return docPacket("mutation", seq, fmt.Sprintf("cxdoc%d", seq), "after", 77)
	case "SEQ":
		return gocbcore.SimPacket{Kind: "seqadv", Seq: seq}
	case "OSO":
		return gocbcore.SimPacket{Kind: "oso", Flags: 1}
	case "CC":
		return gocbcore.SimPacket{Kind: "collcreate", Seq: seq, CollectionID: 8, Key: []byte("c1")}
	case "CD":
		return gocbcore.SimPacket{Kind: "colldelete", Seq: seq, CollectionID: 8}
	case "CF":
		return gocbcore.SimPacket{Kind: "collflush", Seq: seq, CollectionID: 8}
	case "CM":
		return gocbcore.SimPacket{Kind: "collmodify", Seq: seq, CollectionID: 8}
	case "SC":
		return gocbcore.SimPacket{Kind: "scopecreate", Seq: seq, Key: []byte("s1")}
	case "SD":
		return gocbcore.SimPacket{Kind: "scopedelete", Seq: seq}
	}
	panic("unknown symbol " + sym)
}

func isDoc(k string) bool { return k == "mutation" || k == "deletion" || k == "expiration" }
func isSystem(k string) bool {
	switch k {
	case "collcreate", "colldelete", "collflush", "collmodify", "scopecreate", "scopedelete":
		return true
	}
	return false
}

// fixed per-vBucket scripts (wire order)
func layoutScripts(name string) map[uint16][]gocbcore.SimPacket {
	M := func(s uint64) gocbcore.SimPacket { return symbolPacket("M", s) }
	switch name {
	case "single": // single-item snapshots
		return map[uint16][]gocbcore.SimPacket{
			0: {marker(1, 1), M(1), marker(2, 2), M(2), marker(3, 3), M(3)},
			1: {marker(1, 1), M(1), marker(2, 2), symbolPacket("D", 2)},
		}
	case "multi": // one multi-item snapshot
		return map[uint16][]gocbcore.SimPacket{
			0: {marker(1, 4), M(1), M(2), M(3), M(4)},
			1: {marker(1, 2), M(1), symbolPacket("E", 2)},
		}
	case "backtoback":
		return map[uint16][]gocbcore.SimPacket{
			0: {marker(1, 2), M(1), M(2), marker(3, 4), M(3), M(4)},
			1: {marker(1, 1), M(1), marker(2, 3), M(2), M(3)},
		}
	case "seqadv": // seqno-advanced closing a snapshot, system events in between
		return map[uint16][]gocbcore.SimPacket{
			0: {marker(1, 2), M(1), M(2), marker(3, 3), symbolPacket("SEQ", 3), marker(4, 5), M(4), symbolPacket("CC", 5)},
			1: {marker(1, 1), symbolPacket("SEQ", 1), marker(2, 2), M(2)},
		}
	case "seqadvgap": // a seqno-advanced that does not reach (vb0: lies below; vb1: lies inside) the snapshot announced before it
		return map[uint16][]gocbcore.SimPacket{
			0: {marker(1, 2), M(1), M(2), marker(10, 20), symbolPacket("SEQ", 7), marker(21, 22), M(21)},
			1: {marker(1, 9), M(1), symbolPacket("SEQ", 5), marker(10, 10), M(10)},
		}
	case "reserved": // library-internal keys interleaved
		return map[uint16][]gocbcore.SimPacket{
			0: {marker(1, 3), M(1), symbolPacket("Mres", 2), M(3), marker(4, 4), symbolPacket("Mtxn", 4)},
			1: {marker(1, 2), symbolPacket("Mres", 1), M(2)},
		}
	case "sparse": // gaps in the sequence numbers inside wide snapshots
		return map[uint16][]gocbcore.SimPacket{
			0: {marker(0, 10), M(3), M(7), marker(10, 20), M(15), M(20)},
			1: {marker(5, 5), M(5)},
		}
	}
	panic("unknown layout " + name)
}

type refOffset struct {
	s0, s1, uuid, seq uint64
}

type pipe struct {
	p       PipeParams
	o       EnvOpts
	c       *gocbcore.SimCluster
	e       *Env
	hist    []string
	scripts map[uint16][]gocbcore.SimPacket // script mode: not yet fed
	fed     map[uint16][]gocbcore.SimPacket // packets handed to the server log, in order
	curSnap map[uint16][2]uint64            // gen mode: open snapshot and next seq
	nextSeq map[uint16]uint64
	resume  map[uint16]uint64
	valid   map[uint16]map[refOffset]bool // reference set of legal offset tuples
	// settledAt[vb] = furthest settled seq (cumulative acknowledgement reading)
	acked         map[uint16]uint64
	oblig         map[uint16]uint64 // positions that MUST become durable: advancing acks, system / seqno-advanced events
	file          string
	failSave      bool
	gen           int // stream generation (restart count)
	checkedTracks map[uint16]int
	checkedSaves  int
}

func (pp *pipe) uuid(vb uint16) uint64 { return uint64(pp.c.Vb[vb].Failover[0].VbUUID) }

func (pp *pipe) kept(p gocbcore.SimPacket) bool {
	if !isDoc(p.Kind) {
		return false
	}
	if pp.skipped(p) {
		return false
	}
	return !bytes.HasPrefix(p.Key, []byte(reservedPrefix)) && !bytes.HasPrefix(p.Key, []byte(txnPrefix))
}

func (pp *pipe) skipped(p gocbcore.SimPacket) bool {
	st := skipT
	if pp.p.SkipFrac {
		st = skipT.Add(500 * time.Millisecond)
	}
	return pp.p.SkipUntil && isDoc(p.Kind) && st.After(time.Unix(int64(p.Cas/1000000000), 0))
}

// absorbed: events that advance the position without the consumer
func (pp *pipe) absorbed(p gocbcore.SimPacket) bool {
	if p.Kind == "seqadv" || isSystem(p.Kind) {
		return true
	}
	return isDoc(p.Kind) && !pp.skipped(p) && !pp.kept(p)
}

func (pp *pipe) settled(vb uint16) uint64 {
	s := pp.resume[vb]
	if pp.acked[vb] > s {
		s = pp.acked[vb]
	}
	for _, p := range pp.fed[vb] {
		if pp.absorbed(p) && p.Seq > s && p.Seq > pp.resume[vb] {
			s = p.Seq
		}
	}
	return s
}

func (pp *pipe) fail(format string, a ...any) {
	vrt.Failf("after %v: "+format, append([]any{pp.hist}, a...)...)
}

func newPipe(p PipeParams) *pipe {
	resetGlobals()
	pp := &pipe{p: p, fed: map[uint16][]gocbcore.SimPacket{}, curSnap: map[uint16][2]uint64{}, nextSeq: map[uint16]uint64{0: 1, 1: 1},
		oblig: map[uint16]uint64{}, resume: map[uint16]uint64{}, valid: map[uint16]map[refOffset]bool{0: {}, 1: {}}, acked: map[uint16]uint64{}, checkedTracks: map[uint16]int{}}
	o := EnvOpts{Vbs: 2, CheckpointType: "manual", WrapMeta: true, CheckpointInterval: 10 * time.Second}
	if p.Auto {
		o.CheckpointType = "auto"
	}
	if p.Latest {
		o.AutoReset = "latest"
	}
	if p.SkipUntil {
		t := skipT
		if p.SkipFrac {
			t = skipT.Add(500 * time.Millisecond)
		}
		o.SkipUntil = &t
	}
	if p.Colls {
		o.Collections = []string{"c1", "c2"}
	}
	if p.MetaBucket {
		o.MetaBucket = "meta"
	}
	if p.Backend == "file" {
		f, _ := os.CreateTemp("", "ckpt*.json")
		pp.file = f.Name()
		f.Close()
		os.Remove(pp.file)
		o.Metadata = "file"
		o.FileName = pp.file
	}
	pp.o = o
	pp.c = NewCluster(&pp.o)
	if p.Mode == "script" {
		pp.scripts = layoutScripts(p.Layout)
	}
	if p.Faults {
		pp.c.Fault = func(r *gocbcore.SimRequest) gocbcore.SimAnswer {
			if pp.failSave && r.Kind == "mutatein" && strings.Contains(r.Key, ":checkpoint:") {
				return gocbcore.SimAnswer{Kind: "err", Err: &gocbcore.KeyValueError{InnerError: gocbcore.ErrTemporaryFailure, StatusCode: 0x86}}
			}
			return gocbcore.SimAnswer{}
		}
	}
	pp.start()
	return pp
}

func (pp *pipe) start() {
	pp.e = NewEnv(pp.c, pp.o)
	pp.e.Stream.Open()
	pp.c.WaitIdle()
}

func (pp *pipe) cleanup() {
	if pp.file != "" {
		os.Remove(pp.file)
	}
}

// feed hands packets of vb to the server and records the legal offsets they give rise to.
func (pp *pipe) feed(vb uint16, pkts ...gocbcore.SimPacket) {
	for _, p := range pkts {
		p.Vb = vb
		pp.fed[vb] = append(pp.fed[vb], p)
		switch {
		case p.Kind == "marker":
			pp.curSnap[vb] = [2]uint64{p.SnapStart, p.SnapEnd}
		case p.Kind == "seqadv":
			pp.valid[vb][refOffset{p.Seq, p.Seq, pp.uuid(vb), p.Seq}] = true
			pp.curSnap[vb] = [2]uint64{p.Seq, p.Seq}
			if p.Seq > pp.oblig[vb] && p.Seq > pp.resume[vb] {
				pp.oblig[vb] = p.Seq
			}
		case p.Kind != "oso":
			sn := pp.curSnap[vb]
			pp.valid[vb][refOffset{sn[0], sn[1], pp.uuid(vb), p.Seq}] = true
			if isSystem(p.Kind) && p.Seq > pp.oblig[vb] && p.Seq > pp.resume[vb] {
				pp.oblig[vb] = p.Seq
			}
		}
	}
	pp.c.Append(vb, pkts...)
	pp.c.WaitIdle()
}

func (pp *pipe) deliverScript(vb uint16) bool {
	s := pp.scripts[vb]
	if len(s) == 0 {
		return false
	}
	n := 1
	for n <= len(s) && s[n-1].Kind == "marker" {
		n++
	}
	if n > len(s) {
		n = len(s)
	}
	pp.feed(vb, s[:n]...)
	pp.scripts[vb] = s[n:]
	return true
}

func (pp *pipe) deliverSymbol(vb uint16, sym string, snapLen uint64) {
	seq := pp.nextSeq[vb]
	var pk []gocbcore.SimPacket
	if sym == "OSO" {
		pk = append(pk, symbolPacket(sym, 0))
	} else if sym == "SEQ" {
		pk = append(pk, symbolPacket(sym, seq))
		pp.nextSeq[vb] = seq + 1
		pp.curSnap[vb] = [2]uint64{seq, seq}
	} else {
		sn, open := pp.curSnap[vb]
		if !open || seq > sn[1] || seq < sn[0] {
			pk = append(pk, marker(seq, seq+snapLen-1))
		}
		pk = append(pk, symbolPacket(sym, seq))
		pp.nextSeq[vb] = seq + 1
	}
	pp.feed(vb, pk...)
}

func (pp *pipe) unacked(vb int) []*Delivered {
	var out []*Delivered
	for _, d := range pp.e.Cons.Events {
		if !d.Acked && (vb < 0 || int(d.Vb) == vb) {
			out = append(out, d)
		}
	}
	return out
}

func (pp *pipe) ack(d *Delivered) {
	d.Acked = true
	if before, _ := pp.e.Tracked(d.Vb); d.Seq > before && d.Seq > pp.oblig[d.Vb] {
		pp.oblig[d.Vb] = d.Seq // an acknowledgement at or below the position reached is a no-op by design
	}
	d.Ctx.Ack()
	if d.Seq > pp.acked[d.Vb] {
		pp.acked[d.Vb] = d.Seq
	}
}

// stored returns the durable checkpoint tuple of vb.
func (pp *pipe) stored(vb uint16) (refOffset, bool) {
	if pp.file != "" {
		b, err := os.ReadFile(pp.file)
		if err != nil {
			return refOffset{}, false
		}
		m := map[uint16]*models.CheckpointDocument{}
		if json.Unmarshal(b, &m) != nil {
			return refOffset{}, false
		}
		d, ok := m[vb]
		if !ok || d.Checkpoint == nil {
			return refOffset{}, false
		}
		return refOffset{d.Checkpoint.Snapshot.StartSeqNo, d.Checkpoint.Snapshot.EndSeqNo, d.Checkpoint.VbUUID, d.Checkpoint.SeqNo}, true
	}
	mb := srcBucket
	if pp.p.MetaBucket {
		mb = "meta"
	}
	d, ok := StoredDoc(pp.c, mb, "g", vb)
	if !ok {
		return refOffset{}, false
	}
	return refOffset{d.Checkpoint.Snapshot.StartSeqNo, d.Checkpoint.Snapshot.EndSeqNo, d.Checkpoint.VbUUID, d.Checkpoint.SeqNo}, true
}

func (pp *pipe) legal(vb uint16, t refOffset) bool {
	if t.seq == pp.resume[vb] && pp.gen > 0 {
		return true // the resume tuple itself
	}
	if t == (refOffset{}) {
		return true
	}
	return pp.valid[vb][t]
}

// checkAll evaluates every monitor; called after each step.
func (pp *pipe) checkAll() {
	e := pp.e
	// C03: consumer log = reference filter of what the server sent, field by field
	for vb := uint16(0); vb < 2; vb++ {
		var want []gocbcore.SimPacket
		snaps := map[uint64][2]uint64{}
		var cur [2]uint64
		for _, p := range pp.fed[vb] {
			if p.Kind == "marker" {
				cur = [2]uint64{p.SnapStart, p.SnapEnd}
			}
			if p.Kind == "seqadv" {
				cur = [2]uint64{p.Seq, p.Seq}
			}
			if pp.kept(p) && p.Seq > pp.resume[vb] {
				want = append(want, p)
				snaps[p.Seq] = cur
			}
		}
		var got []*Delivered
		for _, d := range e.Cons.Events {
			if d.Vb == vb {
				got = append(got, d)
			}
		}
		if len(got) != len(want) {
			pp.fail("vb%d: consumer received %d events %v, the server sent %d deliverable ones", vb, len(got), seqsOf(got), len(want))
			continue
		}
		for i, w := range want {
			g := got[i]
			if g.Seq != w.Seq || g.Kind != w.Kind {
				pp.fail("vb%d: event #%d delivered as %s seq %d, server sent %s seq %d (order/duplication/loss)", vb, i, g.Kind, g.Seq, w.Kind, w.Seq)
				continue
			}
			if msg := fieldDiff(g, w, pp.p.Colls); msg != "" {
				pp.fail("vb%d seq %d: %s", vb, w.Seq, msg)
			}
			sn := snaps[w.Seq]
			wantOff := refOffset{sn[0], sn[1], pp.uuid(vb), w.Seq}
			gotOff := refOffset{g.Snap[0], g.Snap[1], uint64(g.Offset.VbUUID), g.Offset.SeqNo}
			if gotOff != wantOff {
				pp.fail("vb%d seq %d: event offset %v, want %v (its own position)", vb, w.Seq, gotOff, wantOff)
			}
			// the offset object of an already delivered event must not change later (untorn)
			if g.OffPtr != nil && g.OffPtr.SnapshotMarker != nil {
				now := refOffset{g.OffPtr.StartSeqNo, g.OffPtr.EndSeqNo, uint64(g.OffPtr.VbUUID), g.OffPtr.SeqNo}
				if now != wantOff {
					pp.fail("vb%d seq %d: the offset handed out with this event changed afterwards to %v (was %v)", vb, w.Seq, now, wantOff)
				}
			}
		}
	}
	for vb := uint16(0); vb < 2; vb++ {
		// C04/C01: tracked position = furthest settled
		want := pp.settled(vb)
		if got, _ := e.Tracked(vb); got != want {
			pp.fail("vb%d tracked position %d, furthest settled %d", vb, got, want)
		}
		// C04: the consumer's offset tracker has been told this position (whatever moved it there: an
		// acknowledgement, a system / seqno-advanced event, a library-internal document)
		if ts := e.Cons.TrackSeq[vb]; want > pp.resume[vb] && (len(ts) == 0 || ts[len(ts)-1] != want) {
			pp.fail("vb%d: the position is %d, the consumer's offset tracker was last told %v", vb, want, ts)
		}
		// C06: every TrackOffset argument is a legal, untorn tuple
		offs, _, _ := e.Stream.GetOffsets()
		if o, ok := offs.Load(vb); ok && o.SnapshotMarker != nil {
			t := refOffset{o.StartSeqNo, o.EndSeqNo, uint64(o.VbUUID), o.SeqNo}
			if !(t.s0 <= t.seq && t.seq <= t.s1) && t.seq != 0 {
				pp.fail("vb%d tracked offset %v violates snapStart <= seq <= snapEnd", vb, t)
			}
			if !pp.legal(vb, t) && o.SeqNo != pp.resume[vb] {
				pp.fail("vb%d tracked offset %v is not the position of any single event (torn tuple)", vb, t)
			}
		}
		// C01/C06: the durable checkpoint
		if st, ok := pp.stored(vb); ok {
			if st.seq > want {
				pp.fail("vb%d durable checkpoint %d is ahead of the furthest settled position %d", vb, st.seq, want)
			}
			if st.seq != 0 && !(st.s0 <= st.seq && st.seq <= st.s1) {
				pp.fail("vb%d durable checkpoint %v violates snapStart <= seq <= snapEnd", vb, st)
			}
			if !pp.legal(vb, st) && st.seq != pp.resume[vb] {
				pp.fail("vb%d durable checkpoint %v is not the position of any single event (torn tuple)", vb, st)
			}
		}
	}
	// C06: documents handed to Metadata.Save
	if e.RecMeta != nil {
		for _, sc := range e.RecMeta.Saves[pp.checkedSaves:] {
			for vb, d := range sc.Docs {
				t := refOffset{d.Checkpoint.Snapshot.StartSeqNo, d.Checkpoint.Snapshot.EndSeqNo, d.Checkpoint.VbUUID, d.Checkpoint.SeqNo}
				if t.seq != 0 && !(t.s0 <= t.seq && t.seq <= t.s1) {
					pp.fail("document handed to the metadata store for vb%d %v violates snapStart <= seq <= snapEnd", vb, t)
				}
				if !pp.legal(vb, t) && t.seq != pp.resume[vb] {
					pp.fail("document handed to the metadata store for vb%d %v is a torn tuple", vb, t)
				}
			}
		}
		pp.checkedSaves = len(e.RecMeta.Saves)
	}
}

// checkStoredOnly: the durable-state clauses alone (used at a crash point inside a save).
func (pp *pipe) checkStoredOnly() {
	for vb := uint16(0); vb < 2; vb++ {
		want := pp.settled(vb)
		if st, ok := pp.stored(vb); ok {
			if st.seq > want {
				pp.fail("vb%d durable checkpoint %d is ahead of the furthest settled position %d", vb, st.seq, want)
			}
			if !pp.legal(vb, st) && st.seq != pp.resume[vb] {
				pp.fail("vb%d durable checkpoint %v is not the position of any single event (torn tuple)", vb, st)
			}
		}
	}
}

func seqsOf(ds []*Delivered) []uint64 {
	var out []uint64
	for _, d := range ds {
		out = append(out, d.Seq)
	}
	return out
}

// fieldDiff compares a delivered event with the wire packet.
func fieldDiff(g *Delivered, w gocbcore.SimPacket, colls bool) string {
	wantColl := "_default"
	if colls {
		switch w.CollectionID {
		case 8:
			wantColl = "c1"
		case 9:
			wantColl = "c2"
		}
	}
	wantTime := time.Unix(int64(w.Cas/1000000000), 0)
	switch ev := g.Ctx.Event.(type) {
	case models.DcpMutation:
		if !bytes.Equal(ev.Key, w.Key) || !bytes.Equal(ev.Value, w.Value) || ev.Cas != w.Cas || ev.SeqNo != w.Seq || ev.RevNo != w.RevNo ||
			ev.Flags != w.Flags || ev.Expiry != w.Expiry || ev.Datatype != w.Datatype || ev.VbID != w.Vb || ev.CollectionID != w.CollectionID {
			return fmt.Sprintf("mutation fields differ from the wire packet: got key=%q value=%q cas=%d rev=%d flags=%d expiry=%d dt=%d vb=%d", ev.Key, ev.Value, ev.Cas, ev.RevNo, ev.Flags, ev.Expiry, ev.Datatype, ev.VbID)
		}
		if ev.CollectionName != wantColl {
			return fmt.Sprintf("collection name %q, want %q", ev.CollectionName, wantColl)
		}
		if !ev.EventTime.Equal(wantTime) {
			return fmt.Sprintf("event time %v, want %v", ev.EventTime, wantTime)
		}
	case models.DcpDeletion:
		if !bytes.Equal(ev.Key, w.Key) || !bytes.Equal(ev.Value, w.Value) || ev.Cas != w.Cas || ev.SeqNo != w.Seq || ev.RevNo != w.RevNo ||
			ev.Datatype != w.Datatype || ev.VbID != w.Vb || ev.CollectionID != w.CollectionID {
			return "deletion fields differ from the wire packet"
		}
		if ev.CollectionName != wantColl {
			return fmt.Sprintf("collection name %q, want %q", ev.CollectionName, wantColl)
		}
		if !ev.EventTime.Equal(wantTime) {
			return fmt.Sprintf("event time %v, want %v", ev.EventTime, wantTime)
		}
	case models.DcpExpiration:
		if !bytes.Equal(ev.Key, w.Key) || ev.Cas != w.Cas || ev.SeqNo != w.Seq || ev.RevNo != w.RevNo || ev.VbID != w.Vb || ev.CollectionID != w.CollectionID {
			return "expiration fields differ from the wire packet"
		}
		if ev.CollectionName != wantColl {
			return fmt.Sprintf("collection name %q, want %q", ev.CollectionName, wantColl)
		}
		if !ev.EventTime.Equal(wantTime) {
			return fmt.Sprintf("event time %v, want %v", ev.EventTime, wantTime)
		}
	default:
		return fmt.Sprintf("unexpected event type %T", ev)
	}
	return ""
}

// crashRestart kills the client process, starts a fresh one on the same cluster and checks the resume.
func (pp *pipe) crashRestart() {
	settledAt := map[uint16]uint64{}
	storedAt := map[uint16]refOffset{}
	hadStored := map[uint16]bool{}
	for vb := uint16(0); vb < 2; vb++ {
		settledAt[vb] = pp.settled(vb)
		storedAt[vb], hadStored[vb] = pp.stored(vb)
	}
	old := pp.e
	old.Cons.Disabled = true
	pp.c.KillAgents()
	nreq := len(pp.c.Requests)
	pp.gen++
	for vb := uint16(0); vb < 2; vb++ {
		pp.resume[vb] = storedAt[vb].seq
		pp.acked[vb] = 0
		pp.oblig[vb] = 0
	}
	pp.checkedSaves = 0
	pp.start()
	// C02/C01: the stream request of every vBucket names exactly the durable checkpoint
	seen := map[uint16]bool{}
	if pp.p.Latest && !hadStored[0] && !hadStored[1] {
		// documented semantics of autoReset=latest: no checkpoint for ANY assigned vBucket -> every vBucket
		// starts at its current high seqno (whatever was delivered before is skipped by configuration)
		for _, r := range pp.c.Requests[nreq:] {
			if r.Kind == "openstream" && r.Args[2] != pp.c.Vb[r.Vb].High {
				pp.fail("restart with autoReset=latest and no checkpoint at all: vb%d requested from %d, its high seqno is %d", r.Vb, r.Args[2], pp.c.Vb[r.Vb].High)
			}
		}
		for vb := uint16(0); vb < 2; vb++ {
			pp.resume[vb] = pp.c.Vb[vb].High
		}
		return
	}
	for _, r := range pp.c.Requests[nreq:] {
		if r.Kind != "openstream" {
			continue
		}
		seen[r.Vb] = true
		st := storedAt[r.Vb]
		got := refOffset{r.Args[4], r.Args[5], r.Args[1], r.Args[2]}
		if got != st {
			pp.fail("restart: vb%d requested from %v, durable checkpoint is %v", r.Vb, got, st)
		}
		if r.Args[2] > settledAt[r.Vb] {
			pp.fail("restart: vb%d resumes at %d, beyond the furthest settled position %d: delivered-but-unacknowledged events are skipped", r.Vb, r.Args[2], settledAt[r.Vb])
		}
	}
	for vb := uint16(0); vb < 2; vb++ {
		if !seen[vb] {
			pp.fail("restart: no stream request for vb%d", vb)
		}
		// the first unsettled deliverable event is delivered again
		var first *gocbcore.SimPacket
		for i := range pp.fed[vb] {
			p := pp.fed[vb][i]
			if pp.kept(p) && p.Seq > settledAt[vb] {
				first = &p
				break
			}
		}
		if first != nil {
			found := false
			for _, d := range pp.e.Cons.Events {
				if d.Vb == vb && d.Seq == first.Seq {
					found = true
				}
			}
			if !found {
				pp.fail("restart: first unsettled event vb%d seq %d was not delivered again", vb, first.Seq)
			}
		}
	}
}

func (pp *pipe) outcome() string {
	var b strings.Builder
	for vb := uint16(0); vb < 2; vb++ {
		st, _ := pp.stored(vb)
		tr, _ := pp.e.Tracked(vb)
		fmt.Fprintf(&b, "vb%d:%v/%d/%v;", vb, st, tr, seqsOf(pp.unacked(int(vb))))
	}
	return b.String()
}

// pipeMain runs one history.
func pipeMain(p PipeParams) {
	pp := newPipe(p)
	defer pp.cleanup()
	pp.checkAll()
	crashed := false
	for step := 0; step < p.Depth && !crashed; step++ {
		op := p.Ops[vrt.Choose(len(p.Ops), true, "op")]
		switch {
		case op == "deliver0" || op == "deliver1":
			vb := uint16(op[len(op)-1] - '0')
			if p.Mode == "script" {
				if !pp.deliverScript(vb) {
					pp.hist = append(pp.hist, op+"-none")
					continue
				}
				pp.hist = append(pp.hist, op)
			} else {
				sym := p.Alphabet[vrt.Choose(len(p.Alphabet), true, "symbol")]
				sl := uint64(1 + vrt.Choose(2, true, "snaplen"))
				pp.hist = append(pp.hist, fmt.Sprintf("%s:%s/%d", op, sym, sl))
				pp.deliverSymbol(vb, sym, sl)
			}
		case op == "ackold":
			u := pp.unacked(-1)
			if len(u) == 0 {
				pp.hist = append(pp.hist, "ack-none")
				continue
			}
			pp.hist = append(pp.hist, fmt.Sprintf("ack(vb%d,%d)", u[0].Vb, u[0].Seq))
			pp.ack(u[0])
		case op == "acknew":
			u := pp.unacked(-1)
			if len(u) == 0 {
				pp.hist = append(pp.hist, "ack-none")
				continue
			}
			d := u[len(u)-1]
			pp.hist = append(pp.hist, fmt.Sprintf("ack(vb%d,%d)", d.Vb, d.Seq))
			pp.ack(d)
		case op == "commit" || op == "ctxcommit":
			var viaCtx *Delivered
			if op == "ctxcommit" {
				// the consumer calls Commit() on the context of an event it has NOT acknowledged (e.g. while
				// still processing it): this saves what was acknowledged so far and must not settle that event
				if un := pp.unacked(-1); len(un) > 0 {
					viaCtx = un[len(un)-1]
				} else if n := len(pp.e.Cons.Events); n > 0 {
					viaCtx = pp.e.Cons.Events[n-1]
				} else {
					pp.hist = append(pp.hist, "ctxcommit-none")
					continue
				}
			}
			pp.failSave = false
			if p.Faults {
				pp.failSave = vrt.Choose(2, true, "save-outcome") == 1
			}
			if viaCtx != nil {
				pp.hist = append(pp.hist, fmt.Sprintf("ctx(vb%d:%d).Commit(fail=%v)", viaCtx.Vb, viaCtx.Seq, pp.failSave))
			} else {
				pp.hist = append(pp.hist, fmt.Sprintf("commit(fail=%v)", pp.failSave))
			}
			before := map[uint16]uint64{}
			storedBefore := map[uint16]refOffset{}
			hadBefore := map[uint16]bool{}
			for vb := uint16(0); vb < 2; vb++ {
				before[vb] = pp.oblig[vb]
				storedBefore[vb], hadBefore[vb] = pp.stored(vb)
			}
			if viaCtx != nil {
				viaCtx.Ctx.Commit()
			} else {
				pp.e.Stream.Save()
			}
			if verbose {
				for _, sc := range pp.e.RecMeta.Saves {
					vrt.Logf("save state=%v dirty=%v err=%v", sc.State, sc.Dirty, sc.Err)
				}
				for _, w := range pp.c.Writes {
					vrt.Logf("write %s %s", w.Op, w.Key)
				}
			}
			if !pp.failSave {
				for vb := uint16(0); vb < 2; vb++ {
					st, _ := pp.stored(vb)
					if before[vb] > pp.resume[vb] && st.seq < before[vb] {
						pp.fail("commit: vb%d stored %d, but %d was settled (acknowledged / system event) before the save", vb, st.seq, before[vb])
					}
					// nothing stored by this or an earlier session is lost or moved backwards by a save
					// (these histories contain no rollback)
					if st2, ok := pp.stored(vb); hadBefore[vb] && (!ok || st2.seq < storedBefore[vb].seq) {
						pp.fail("commit: the stored checkpoint of vb%d was %v before the save and is %v (present=%v) after it: acknowledged and stored work was forgotten", vb, storedBefore[vb], st2, ok)
					}
				}
			}
			pp.failSave = false
		case op == "tick":
			pp.hist = append(pp.hist, "tick")
			vrt.Sleep(pp.o.CheckpointInterval + 1)
			pp.c.WaitIdle()
			// histories are sequential: the periodic save has run to its end (incl. the unmark after the store
			// call returned) before the next operation; acknowledgements racing a save are C05's scenarios
			vrt.Quiesce()
			pp.c.WaitIdle()
		case op == "restart":
			// the process is restarted (a new metadata object over the same store) and the history CONTINUES
			pp.hist = append(pp.hist, "restart")
			pp.checkAll()
			pp.crashRestart()
		case op == "crash":
			pp.hist = append(pp.hist, "crash")
			pp.checkAll()
			pp.crashRestart()
			crashed = true
		case op == "crashsave":
			// the process dies part-way through a multi-vBucket save: exactly the per-vBucket writes of the
			// chosen subset reach the store, the others never do
			subset := vrt.Choose(4, true, "writes-that-reach-the-store")
			pp.hist = append(pp.hist, fmt.Sprintf("crash-in-save(applied=%02b)", subset))
			pp.checkAll()
			pp.c.Fault = func(r *gocbcore.SimRequest) gocbcore.SimAnswer {
				if (r.Kind == "mutatein" || r.Kind == "set") && strings.Contains(r.Key, ":checkpoint:") {
					vb := 0
					if strings.HasSuffix(r.Key, ":1") {
						vb = 1
					}
					if subset&(1<<vb) != 0 {
						return gocbcore.SimAnswer{Kind: "applydrop"} // applied, the reply never arrives
					}
					return gocbcore.SimAnswer{Kind: "drop"}
				}
				return gocbcore.SimAnswer{}
			}
			saver := pp.e
			vrt.GoNamed("dying-saver", func() { saver.Stream.Save() })
			vrt.Quiesce()
			pp.c.Fault = nil
			pp.checkStoredOnly()
			pp.crashRestart()
			crashed = true
		}
		pp.checkAll()
	}
	if p.CrashEnd && !crashed {
		pp.hist = append(pp.hist, "crash")
		pp.crashRestart()
		pp.checkAll()
	}
	vrt.SetOutcome(fmt.Sprintf("%v|%s", pp.hist, pp.outcome()))
}

func init() {
	scenarios["pipe"] = func(raw json.RawMessage) *vrt.Scenario {
		var p PipeParams
		_ = json.Unmarshal(raw, &p)
		return &vrt.Scenario{Name: "pipe", Main: func() { pipeMain(p) }, FreeChoices: true, MaxSteps: 400000}
	}
}
