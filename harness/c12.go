package main

import (
	"encoding/json"
	"fmt"
	"github.com/Trendyol/go-dcp/couchbase"
	"github.com/Trendyol/go-dcp/models"
	"math"
	"os"
	"strings"
	"time"

	"github.com/Trendyol/go-dcp/config"
	"github.com/couchbase/gocbcore/v10"

	"verif/vrt"
)

// C12 — stream ends are recovered, counted and terminate the client correctly.

type EndsParams struct {
	Depth int `json:"depth"`
}

type FiniteParams struct {
	Empty bool `json:"empty"` // a fourth assigned vBucket that has no events at all (high seqno 0)
	// Latest: autoReset=latest and no checkpoint at all: every vBucket starts AT its high seqno, which is also
	// its end - nothing is delivered, every stream ends, the run terminates
	Latest bool `json:"latest"`
	// EndFault: the connection of vb1 breaks right behind its last item (transient end exactly at the end bound)
	EndFault bool `json:"end_fault"`
}

type ReopenFailParams struct {
	Failures int `json:"failures"`
}

type endCause struct {
	name      string
	err       error
	transient bool
}

var endCauses = []endCause{
	{"socket-closed", gocbcore.ErrSocketClosed, true},
	{"backfill-failed", gocbcore.ErrDCPBackfillFailed, true},
	{"state-changed", gocbcore.ErrDCPStreamStateChanged, true},
	{"too-slow", gocbcore.ErrDCPStreamTooSlow, true},
	{"disconnected", gocbcore.ErrDCPStreamDisconnected, true},
	// the same causes as gocbcore may hand them over: wrapped (errors.Is still recognises them)
	{"socket-closed(wrapped in a KeyValueError)", &gocbcore.KeyValueError{InnerError: gocbcore.ErrSocketClosed}, true},
	{"state-changed(wrapped with %w)", fmt.Errorf("stream end: %w", gocbcore.ErrDCPStreamStateChanged), true},
	{"ok", nil, false},
	{"closed", gocbcore.ErrDCPStreamClosed, false},
	{"filter-empty", gocbcore.ErrDCPStreamFilterEmpty, false},
	{"lost-privileges", gocbcore.ErrDCPStreamLostPrivileges, false},
}

const nTransient = 7 // the first entries of endCauses

func init() {
	scenarios["c12_ends"] = func(raw json.RawMessage) *vrt.Scenario {
		var p EndsParams
		_ = json.Unmarshal(raw, &p)
		return &vrt.Scenario{Name: "c12_ends", Main: func() { endsMain(p) }, FreeChoices: true, MaxSteps: 400000}
	}
	scenarios["c12_finite"] = func(raw json.RawMessage) *vrt.Scenario {
		// no early-timer deviations here: they only turn the start-up requests into timeouts (covered by C15/C20)
		var p FiniteParams
		_ = json.Unmarshal(raw, &p)
		return &vrt.Scenario{Name: "c12_finite", Main: func() { finiteMain(p) }, FreeChoices: true, MaxSteps: 400000, NoTimerAlt: true}
	}
	scenarios["c12_reopenfail"] = func(raw json.RawMessage) *vrt.Scenario {
		var p ReopenFailParams
		_ = json.Unmarshal(raw, &p)
		sc := &vrt.Scenario{Name: "c12_reopenfail", Main: func() { reopenFailMain(p) }, MaxSteps: 400000}
		if p.Failures >= 5 {
			sc.Classify = func(r *vrt.Result) []string {
				if r.Status == vrt.StatusCrash {
					return nil
				}
				return []string{"five failed re-open attempts did not stop the client (status " + r.Status.String() + ")"}
			}
		}
		return sc
	}
	register(&Property{
		ID:        "C12",
		Technique: "explicit enumeration of all sequences of stream-end causes (5 transient, 4 final) and deliveries on 3 vBuckets up to a depth, finite-mode scripts, bounded re-open failures and schedule exploration of ends arriving during Open, on the real stream code",
		Rule:      "ends: every sequence of length <= depth over {end(vb, cause) for 3 vBuckets x 9 causes, deliver+ack(vb)}; finite: vBuckets at / below / far below the sampled high seqno, all schedules within the bound; reopenfail: 1..5 consecutive re-open failures; non-trivial = distinct (history, request log, active counts)",
		Assume:    []string{"the end cause is delivered through StreamObserver.End on the node's DCP thread, as gocbcore does"},
		Instances: func(tier string) []Instance {
			d := 3
			b := 2
			if tier == "thorough" {
				d = 4
				b = 3
			}
			out := []Instance{
				{Scenario: "c12_ends", Params: mustJSON(EndsParams{Depth: d}), Bound: 0, Shards: 8},
				{Scenario: "reopen_life", Params: mustJSON(LifeParams{Oracle: "delivery", Segs: 2, RetryAck: true}), Bound: 0, Shards: 8, Note: "a rejected first re-open attempt, acknowledgements during the pause: the retry resumes from the latest settled position"},
				{Scenario: "reopen_life", Params: mustJSON(LifeParams{Oracle: "position", Segs: 2}), Bound: 0, Shards: 8, Note: "'re-opened from its latest settled position' over chains of transient ends with fail-overs / rollbacks and late acknowledgements of earlier segments"},
				{Scenario: "c12_finite", Params: mustJSON(FiniteParams{}), Bound: b, Shards: 8},
				{Scenario: "c12_finite", Params: mustJSON(FiniteParams{Empty: true}), Bound: b - 1, Shards: 8, Note: "one assigned vBucket has no events at all"},
				{Scenario: "c12_finite", Params: mustJSON(FiniteParams{EndFault: true}), Bound: b - 1, Shards: 4, Note: "finite mode: a transient end exactly at the end bound (the connection breaks right behind the last item) - the re-open brings the clean end, the run terminates"},
				{Scenario: "c12_finite", Params: mustJSON(FiniteParams{Latest: true}), Bound: b - 1, Shards: 4, Note: "finite mode with autoReset=latest and no checkpoint: start = end = high seqno, the run terminates at once"},
				{Scenario: "c12_finite", Params: mustJSON(FiniteParams{Latest: true, Empty: true}), Bound: b - 1, Shards: 4},
				{Scenario: "c12_conc", Params: mustJSON(struct{}{}), Bound: b - 1, Shards: 8, Note: "transient end (node 0) and final end (node 1) concurrently with each other and with events on a third vBucket"},
			}
			out = append(out, Instance{Scenario: "c12_afterrebalance", Params: mustJSON(AfterRebParams{CloseFault: true}), Bound: 0, Shards: 8, Note: "a close-stream request of the rebalance fails (lost reply / dead connection): the sessions after it obey the stop rule"})
			out = append(out, Instance{Scenario: "c12_filewider", Params: mustJSON(struct{}{}), Bound: 0, Note: "file metadata whose file holds more vBuckets than are assigned now: count and stop rule follow the assignment"})
			out = append(out, Instance{Scenario: "c12_afterrebalance", Params: mustJSON(AfterRebParams{ReopenPending: true}), Bound: 0, Shards: 4, Note: "dynamic membership: a re-open retry that sleeps through a whole (immediate) rebalance gives up when it wakes"})
			out = append(out, Instance{Scenario: "c12_afterrebalance", Params: mustJSON(AfterRebParams{OldServer: true}), Bound: 1, Shards: 8, Note: "server below 5.5.0 (serial close): the end of the last vBucket against the tail of Close(), all single deviations"})
			out = append(out, Instance{Scenario: "c12_afterrebalance", Params: mustJSON(AfterRebParams{OldServer: true, CloseFault: true}), Bound: 0, Shards: 8, Note: "serial close with a failing close-stream request: ends in the next session are still processed"})
			out = append(out, Instance{Scenario: "c12_afterrebalance", Params: mustJSON(struct{}{}), Bound: 1, Shards: 8, Note: "the stop rule in the sessions after 1..2 real rebalances"})
			out = append(out, Instance{Scenario: "c07_gate", Params: mustJSON(MitigationParams{Replicas: 1, TransientEnd: true, FailoverAtEnd: true}), Bound: 0, Shards: 8, Note: "rollback mitigation on (the default): after a transient end with a fail-over the re-opened vBucket keeps being streamed - an event covered by what the copies reported is delivered although no copy reports anything new"})
			out = append(out, Instance{Scenario: "c07_gate", Params: mustJSON(MitigationParams{Replicas: 1, TransientEnd: true}), Bound: 0, Shards: 8})
			out = append(out, Instance{Scenario: "c12_afterrebalance", Params: mustJSON(AfterRebParams{ReopenedBefore: true}), Bound: 0, Shards: 8, Note: "a vBucket that was re-opened after a transient end before the rebalance: closed and re-opened with the others"})
			out = append(out, Instance{Scenario: "c12_afterrebalance", Params: mustJSON(AfterRebParams{ReopenedBefore: true, OldServer: true}), Bound: 0, Shards: 8})
			out = append(out, Instance{Scenario: "c12_afterrebalance", Params: mustJSON(AfterRebParams{Dynamic: true}), Bound: 1, Shards: 8, Note: "dynamic membership (the re-open follows the close at once), every schedule within one deviation: the sessions after 1..2 rebalances stop exactly when their last vBucket has ended for good"})
			out = append(out, Instance{Scenario: "c12_afterrebalance", Params: mustJSON(AfterRebParams{OldServer: true, Dynamic: true}), Bound: 1, Shards: 8, Note: "the same against a server below 5.5.0"})
			out = append(out, Instance{Scenario: "c12_finite_rebalance", Params: mustJSON(struct{}{}), Bound: 0, Note: "a finite run across a rebalance with a slow application hook: the re-opened session's vBuckets end while the hook runs - the client still stops on its own"})
			out = append(out, Instance{Scenario: "c12_duringopen", Params: mustJSON(struct{}{}), Bound: b - 1, Shards: 4, Note: "a stream ends while Open() still waits for another vBucket (start-up and re-open after a rebalance)"})
			for f := 1; f <= 5; f++ {
				out = append(out, Instance{Scenario: "c12_reopenfail", Params: mustJSON(ReopenFailParams{Failures: f}), Bound: 0})
			}
			return out
		},
	})
}

func activeCount(e *Env) int32 {
	_, n := e.Stream.GetMetric()
	return n
}

func endsMain(p EndsParams) {
	resetGlobals()
	o := EnvOpts{Vbs: 3, CheckpointType: "manual", WrapMeta: true}
	c := NewCluster(&o)
	e := NewEnv(c, o)
	e.Cons.AutoAck = true
	e.Stream.Open()
	c.WaitIdle()
	final := map[uint16]bool{}
	var hist []string
	next := map[uint16]uint64{0: 1, 1: 1, 2: 1}
	for step := 0; step < p.Depth; step++ {
		vb := uint16(vrt.Choose(3, true, "vb"))
		op := vrt.Choose(len(endCauses)+3, true, "op")
		nreq := len(c.Requests)
		switch {
		case op == len(endCauses): // deliver a document (auto-acked): moves the settled position
			if final[vb] {
				hist = append(hist, fmt.Sprintf("deliver%d-ended", vb))
				continue
			}
			s := next[vb]
			next[vb]++
			c.Append(vb, marker(s, s), symbolPacket("M", s))
			hist = append(hist, fmt.Sprintf("deliver%d", vb))
		case op == len(endCauses)+2: // the marker of the next snapshot arrives, its items do not yet
			if final[vb] {
				hist = append(hist, fmt.Sprintf("marker%d-ended", vb))
				continue
			}
			s := next[vb]
			c.Append(vb, marker(s, s+3))
			hist = append(hist, fmt.Sprintf("marker%d", vb))
		case op == len(endCauses)+1: // a seqno-advanced event becomes the last settled event
			if final[vb] {
				hist = append(hist, fmt.Sprintf("seqadv%d-ended", vb))
				continue
			}
			s := next[vb]
			next[vb]++
			c.Append(vb, marker(s, s), symbolPacket("SEQ", s))
			hist = append(hist, fmt.Sprintf("seqadv%d", vb))
		default:
			cause := endCauses[op]
			if final[vb] {
				hist = append(hist, fmt.Sprintf("end%d-already", vb))
				continue
			}
			tracked, _ := e.Tracked(vb)
			offs, _, _ := e.Stream.GetOffsets()
			off, _ := offs.Load(vb)
			if !c.EndStream(vb, cause.err) {
				vrt.Failf("after %v: server has no open stream for vb%d although it never ended for good", hist, vb)
				return
			}
			hist = append(hist, fmt.Sprintf("end%d(%s)", vb, cause.name))
			vrt.Quiesce()
			c.WaitIdle()
			vrt.Quiesce()
			var reopen []*gocbcore.SimRequest
			for _, r := range c.Requests[nreq:] {
				if r.Kind == "openstream" && r.Vb == vb {
					reopen = append(reopen, r)
				}
			}
			if cause.transient {
				if len(reopen) != 1 {
					vrt.Failf("after %v: transient end of vb%d was followed by %d re-open requests, want 1", hist, vb, len(reopen))
				} else {
					a := reopen[0].Args
					wantS0, wantS1 := uint64(0), uint64(0)
					if off != nil && off.SnapshotMarker != nil {
						wantS0, wantS1 = off.StartSeqNo, off.EndSeqNo
					}
					// for a settled document the snapshot is the one the SERVER announced for it (read off the wire
					// log, not off the library's own object)
					var cs [2]uint64
					for _, pk := range c.Vb[vb].Log {
						if pk.Kind == "marker" {
							cs = [2]uint64{pk.SnapStart, pk.SnapEnd}
						} else if isDoc(pk.Kind) && pk.Seq == tracked {
							wantS0, wantS1 = cs[0], cs[1]
						}
					}
					if a[2] != tracked || a[3] != math.MaxUint64 || a[4] != wantS0 || a[5] != wantS1 {
						vrt.Failf("after %v: vb%d re-opened with (start,end,snap)=(%d,%d,[%d,%d]), want latest settled position (%d,%d,[%d,%d])", hist, vb, a[2], a[3], a[4], a[5], tracked, uint64(math.MaxUint64), wantS0, wantS1)
					}
				}
				if !c.StreamOpen(vb) {
					vrt.Failf("after %v: vb%d is not being streamed after a transient end", hist, vb)
				}
			} else {
				final[vb] = true
				if len(reopen) != 0 {
					vrt.Failf("after %v: final end of vb%d (%s) was followed by a re-open", hist, vb, cause.name)
				}
			}
		}
		vrt.Quiesce()
		c.WaitIdle()
		vrt.Quiesce()
		nFinal := 0
		for _, f := range final {
			if f {
				nFinal++
			}
		}
		if got := activeCount(e); int(got) != 3-nFinal {
			vrt.Failf("after %v: active stream count %d, but %d of 3 vBuckets have not finally ended", hist, got, 3-nFinal)
		}
		stopped := vrt.Closed(e.StopCh)
		if stopped != (nFinal == 3) {
			vrt.Failf("after %v: client stop signalled = %v with %d of 3 vBuckets finally ended", hist, stopped, nFinal)
		}
		// streaming continues on every vBucket that has not finally ended
		for v := uint16(0); v < 3; v++ {
			if !final[v] && !c.StreamOpen(v) {
				vrt.Failf("after %v: vb%d has not ended for good but is no longer streamed", hist, v)
			}
		}
	}
	// delivery still works on live vBuckets
	for v := uint16(0); v < 3; v++ {
		if !final[v] {
			before := len(e.Cons.Events)
			s := next[v]
			c.Append(v, marker(s, s), symbolPacket("M", s))
			c.WaitIdle()
			if len(e.Cons.Events) != before+1 {
				vrt.Failf("after %v: vb%d no longer delivers events", hist, v)
			}
		}
	}
	vrt.SetOutcome(fmt.Sprintf("%v|%d|%v", hist, activeCount(e), vrt.Closed(e.StopCh)))
}

// finite mode: vb0 already at its high seqno, vb1 two events below, vb2 far below with a transient end
// in the middle; the client must stop exactly after every event up to the sampled high seqno was delivered.
func finiteMain(p FiniteParams) {
	resetGlobals()
	nvb := uint16(3)
	if p.Empty {
		nvb = 4 // vb3 has no events at all
	}
	o := EnvOpts{Vbs: int(nvb), CheckpointType: "manual", Mode: config.DcpModeFinite, WrapMeta: true}
	if p.Latest {
		o.AutoReset = "latest"
	}
	c := NewCluster(&o)
	for s := uint64(1); s <= 3; s++ {
		c.Append(0, marker(s, s), symbolPacket("M", s))
	}
	for s := uint64(1); s <= 4; s++ {
		c.Append(1, marker(s, s), symbolPacket("M", s))
	}
	// (the last snapshot of vb2 reaches past the end of the finite run: writes went on while the run started)
	c.Append(2, marker(1, 9))
	for s := uint64(1); s <= 5; s++ {
		c.Append(2, symbolPacket("M", s))
	}
	if !p.Latest {
		seedCheckpoint(c, srcBucket, "g", 0, 1000, 3, 3, 3)
		seedCheckpoint(c, srcBucket, "g", 1, 1001, 2, 2, 2)
	}
	withTransient := vrt.Choose(2, true, "transient-end-on-vb2") == 1
	if p.Latest {
		withTransient = false
	}
	// the connection of vb1 breaks right behind its last item: instead of the clean end the stream ends with
	// "socket closed" exactly at the end bound (the re-open, start = end, brings the clean end)
	if p.EndFault {
		c.Vb[1].FiniteEndErr = gocbcore.ErrSocketClosed
	}
	e := NewEnv(c, o)
	e.Cons.AutoAck = true
	if withTransient {
		e.Cons.OnConsume = func(d *Delivered) {
			if d.Vb == 2 && d.Seq == 2 {
				c.EndStream(2, gocbcore.ErrDCPStreamStateChanged)
			}
		}
	}
	vrt.Window(true)
	e.Stream.Open()
	vrt.Window(false)
	vrt.Quiesce()
	c.WaitIdle()
	vrt.Sleep(3e9)
	vrt.Quiesce()
	want := map[uint16][]uint64{0: nil, 1: {3, 4}, 2: {1, 2, 3, 4, 5}, 3: nil}
	if p.Latest {
		want = map[uint16][]uint64{}
	}
	for vb := uint16(0); vb < nvb; vb++ {
		var got []uint64
		for _, d := range e.Cons.Events {
			if d.Vb == vb {
				got = append(got, d.Seq)
			}
		}
		if !withTransient || vb != 2 {
			if fmt.Sprint(got) != fmt.Sprint(want[vb]) {
				vrt.Failf("finite mode: vb%d delivered %v, want every event up to the sampled high seqno %v", vb, got, want[vb])
			}
		} else {
			// after the transient end the stream resumes from the settled position; every event must
			// still arrive (re-delivery of the in-flight one is allowed)
			seen := map[uint64]bool{}
			for _, s := range got {
				seen[s] = true
			}
			for _, s := range want[vb] {
				if !seen[s] {
					vrt.Failf("finite mode: vb2 event %d was never delivered (got %v)", s, got)
				}
			}
		}
	}
	// every delivered event carries the snapshot range the server announced for it (not one cut to the end of the run)
	for _, d := range e.Cons.Events {
		want := [2]uint64{d.Seq, d.Seq}
		if d.Vb == 2 {
			want = [2]uint64{1, 9}
		}
		if d.Snap != want {
			vrt.Failf("finite mode: vb%d event %d carries the snapshot range %v, the server announced %v", d.Vb, d.Seq, d.Snap, want)
		}
	}
	for _, r := range c.RequestsOf("openstream") {
		hi := map[uint16]uint64{0: 3, 1: 4, 2: 5, 3: 0}[r.Vb]
		if r.Args[3] != hi {
			vrt.Failf("finite mode: vb%d requested with end %d, want the sampled high seqno %d", r.Vb, r.Args[3], hi)
		}
		if p.Latest && r.Args[2] != hi {
			vrt.Failf("finite mode, autoReset=latest, no checkpoint: vb%d requested from %d, want its high seqno %d", r.Vb, r.Args[2], hi)
		}
	}
	if got := activeCount(e); got != 0 {
		vrt.Failf("finite mode: active stream count %d after every vBucket reached its high seqno", got)
	}
	if !vrt.Closed(e.StopCh) {
		vrt.Failf("finite mode: the client did not stop after every vBucket reached its high seqno")
	}
	vrt.SetOutcome(fmt.Sprintf("%v|%d", withTransient, len(e.Cons.Events)))
}

func reopenFailMain(p ReopenFailParams) {
	resetGlobals()
	o := EnvOpts{Vbs: 2, CheckpointType: "manual", WrapMeta: true}
	c := NewCluster(&o)
	c.Append(0, marker(1, 1), symbolPacket("M", 1))
	e := NewEnv(c, o)
	e.Cons.AutoAck = true
	e.Stream.Open()
	c.WaitIdle()
	for i := 0; i < p.Failures; i++ {
		c.Vb[0].Opens = append(c.Vb[0].Opens, gocbcore.SimOpen{Kind: "err", Err: gocbcore.ErrTemporaryFailure})
	}
	n := len(c.Requests)
	c.EndStream(0, gocbcore.ErrSocketClosed)
	vrt.Sleep(10e9)
	vrt.Quiesce()
	opens := 0
	for _, r := range c.Requests[n:] {
		if r.Kind == "openstream" && r.Vb == 0 {
			opens++
			if r.Args[2] != 1 {
				vrt.Failf("re-open attempt %d starts at %d, want the settled position 1", opens, r.Args[2])
			}
		}
	}
	if p.Failures >= 5 {
		vrt.Failf("client still running after %d failed re-open attempts", p.Failures)
		return
	}
	if opens != p.Failures+1 {
		vrt.Failf("%d re-open attempts after %d failures, want %d", opens, p.Failures, p.Failures+1)
	}
	if !c.StreamOpen(0) {
		vrt.Failf("vb0 not streamed again after %d failed re-open attempts", p.Failures)
	}
	if activeCount(e) != 2 {
		vrt.Failf("active stream count %d after a recovered transient end", activeCount(e))
	}
	vrt.SetOutcome(fmt.Sprint(opens))
}

// c12_conc: ends arriving concurrently from two nodes and concurrently with events.
func init() {
	scenarios["c12_conc"] = func(raw json.RawMessage) *vrt.Scenario {
		return &vrt.Scenario{Name: "c12_conc", FreeChoices: true, NoTimerAlt: true, MaxSteps: 400000, Main: func() {
			resetGlobals()
			o := EnvOpts{Vbs: 3, Nodes: 2, CheckpointType: "manual", WrapMeta: true}
			c := NewCluster(&o)
			e := NewEnv(c, o)
			e.Cons.AutoAck = true
			e.Stream.Open()
			c.WaitIdle()
			// vb0 (node0) gets a transient end, vb1 (node1) a final one, vb2 (node0) keeps receiving events
			tc := endCauses[vrt.Choose(nTransient, true, "transient-cause")]
			fc := endCauses[nTransient+vrt.Choose(4, true, "final-cause")]
			allOthers := vrt.Choose(2, true, "vb2-ends-too") == 1
			slowReopen := vrt.Choose(2, true, "slow-reopen") == 1
			if slowReopen {
				// the re-open round trip of vb0 takes a while: the other ends are processed meanwhile
				opens := 0
				c.Fault = func(r *gocbcore.SimRequest) gocbcore.SimAnswer {
					if r.Kind == "openstream" && r.Vb == 0 {
						opens++
						return gocbcore.SimAnswer{Kind: "delay", Delay: 500 * time.Millisecond}
					}
					return gocbcore.SimAnswer{}
				}
			}
			vrt.Window(true)
			c.Append(0, marker(1, 1), symbolPacket("M", 1))
			c.Append(2, marker(1, 2), symbolPacket("M", 1), symbolPacket("M", 2))
			c.EndStream(0, tc.err)
			c.EndStream(1, fc.err)
			if allOthers {
				c.EndStream(2, fc.err)
				vrt.Sleep(3e9)
				vrt.Quiesce()
				c.WaitIdle()
				vrt.Quiesce()
				vrt.Window(false)
				if got := activeCount(e); got != 1 {
					vrt.Failf("transient end of vb0 (%s), final end of vb1 and vb2 (%s) while vb0 is being re-opened (slow=%v): active stream count %d, want 1", tc.name, fc.name, slowReopen, got)
				}
				if vrt.Closed(e.StopCh) {
					vrt.Failf("the client stopped on its own although vb0 only ended transiently (%s) and has been re-opened (slow re-open=%v)", tc.name, slowReopen)
				}
				if !c.StreamOpen(0) {
					vrt.Failf("vb0 is not streamed after its transient end")
				}
				vrt.SetOutcome(fmt.Sprintf("all-others %s/%s slow=%v", tc.name, fc.name, slowReopen))
				return
			}
			c.Append(2, marker(3, 3), symbolPacket("M", 3))
			vrt.Sleep(3e9)
			vrt.Quiesce()
			c.WaitIdle()
			vrt.Quiesce()
			vrt.Window(false)
			if got := activeCount(e); got != 2 {
				vrt.Failf("transient end of vb0 (%s) and final end of vb1 (%s) concurrently: active stream count %d, want 2", tc.name, fc.name, got)
			}
			if vrt.Closed(e.StopCh) {
				vrt.Failf("the client stopped although vb0 and vb2 are still assigned")
			}
			if !c.StreamOpen(0) || c.StreamOpen(1) || !c.StreamOpen(2) {
				vrt.Failf("server-side streams open: vb0=%v vb1=%v vb2=%v, want true false true", c.StreamOpen(0), c.StreamOpen(1), c.StreamOpen(2))
			}
			reopens := 0
			for _, r := range c.RequestsOf("openstream") {
				if r.Vb == 0 {
					reopens++
				}
			}
			if reopens != 2 {
				vrt.Failf("vb0 was requested %d times, want 2 (open + one re-open)", reopens)
			}
			n2 := 0
			for _, d := range e.Cons.Events {
				if d.Vb == 2 {
					n2++
				}
			}
			if n2 != 3 {
				vrt.Failf("vb2 delivered %d events while its neighbours ended, want 3", n2)
			}
			// vb0 continues from the settled position: the event at 1 may be re-delivered only if it was not settled
			c.Append(0, marker(2, 2), symbolPacket("M", 2))
			c.WaitIdle()
			seen2 := false
			for _, d := range e.Cons.Events {
				if d.Vb == 0 && d.Seq == 2 {
					seen2 = true
				}
			}
			if !seen2 {
				vrt.Failf("vb0 does not deliver new events after its transient end")
			}
			vrt.SetOutcome(fmt.Sprintf("%s/%s/%d", tc.name, fc.name, len(e.Cons.Events)))
		}}
	}
}

// c12_duringopen: a vBucket whose stream is already open ends while Open() is still waiting for the stream
// of another vBucket (slow round trip) - at the first start-up and at the re-open that ends a rebalance
// (Close + Open). A transient end must be recovered by a re-open, a final end must be counted; in both
// cases the session that Open() reports as started covers every vBucket that has not ended for good.
func init() {
	scenarios["c12_duringopen"] = func(raw json.RawMessage) *vrt.Scenario {
		return &vrt.Scenario{Name: "c12_duringopen", FreeChoices: true, NoTimerAlt: true, MaxSteps: 400000, Main: func() {
			resetGlobals()
			o := EnvOpts{Vbs: 3, Nodes: 2, CheckpointType: "manual", WrapMeta: true}
			c := NewCluster(&o)
			e := NewEnv(c, o)
			e.Cons.AutoAck = true
			phase := vrt.Choose(2, true, "phase") // 0 first start-up, 1 the Open() that ends a rebalance
			cause := endCauses[vrt.Choose(len(endCauses), true, "cause")]
			slowVb := uint16(1 + vrt.Choose(2, true, "slow-vb"))
			armed := false
			c.Fault = func(r *gocbcore.SimRequest) gocbcore.SimAnswer {
				if armed && r.Kind == "openstream" && r.Vb == slowVb {
					armed = false
					return gocbcore.SimAnswer{Kind: "delay", Delay: 2 * time.Second}
				}
				return gocbcore.SimAnswer{}
			}
			opened := false
			nreq := 0
			if phase == 0 {
				armed = true
				vrt.GoNamed("opener", func() {
					e.Stream.Open()
					opened = true
				})
			} else {
				e.Stream.Open()
				c.WaitIdle()
				c.Append(0, marker(1, 1), symbolPacket("M", 1))
				c.WaitIdle()
				e.EH.On = func(n string) {
					if n == "ARE" {
						opened = true
					}
				}
				armed = true
				nreq = len(c.Requests)
				vrt.GoNamed("rebalancer", func() { e.Stream.Rebalance() })
				// the real Rebalance(): Close(false), then after the rebalance delay the re-open
				for i := 0; i < 100 && c.StreamOpen(0); i++ {
					vrt.Sleep(100 * time.Millisecond)
				}
			}
			for i := 0; i < 1000 && !c.StreamOpen(0); i++ {
				vrt.Sleep(100 * time.Millisecond)
			}
			vrt.Sleep(500 * time.Millisecond)
			desc := fmt.Sprintf("%s: vb0 ends (%s) while Open() still waits for vb%d", []string{"start-up", "re-open after a rebalance"}[phase], cause.name, slowVb)
			if opened || !c.StreamOpen(0) {
				vrt.Failf("harness: %s: opened=%v vb0 open=%v", desc, opened, c.StreamOpen(0))
				return
			}
			vrt.Window(true)
			c.EndStream(0, cause.err)
			vrt.Sleep(10 * time.Second)
			vrt.Quiesce()
			c.WaitIdle()
			vrt.Quiesce()
			vrt.Window(false)
			if !opened {
				vrt.Failf("%s: Open() has not returned; blocked: %v", desc, vrt.BlockedThreads())
				return
			}
			reqs := 0
			for _, r := range c.Requests[nreq:] {
				if r.Kind == "openstream" && r.Vb == 0 {
					reqs++
				}
			}
			wantActive, wantReqs := int32(3), 2
			if !cause.transient {
				wantActive, wantReqs = 2, 1
			}
			if reqs != wantReqs {
				vrt.Failf("%s: vb0 was requested %d times in this session, want %d", desc, reqs, wantReqs)
			}
			if c.StreamOpen(0) != cause.transient {
				vrt.Failf("%s: afterwards vb0 is streamed = %v, want %v (the started session silently covers only part of the assignment)", desc, c.StreamOpen(0), cause.transient)
			}
			if !c.StreamOpen(1) || !c.StreamOpen(2) {
				vrt.Failf("%s: vb1 streamed=%v vb2 streamed=%v", desc, c.StreamOpen(1), c.StreamOpen(2))
			}
			if got := activeCount(e); got != wantActive {
				vrt.Failf("%s: active stream count %d, want %d", desc, got, wantActive)
			}
			if vrt.Closed(e.StopCh) {
				vrt.Failf("%s: the client stopped on its own", desc)
			}
			if cause.transient {
				before := len(e.Cons.Events)
				c.Append(0, marker(2, 2), symbolPacket("M", 2))
				c.WaitIdle()
				if len(e.Cons.Events) == before {
					vrt.Failf("%s: vb0 no longer delivers events", desc)
				}
			}
			vrt.SetOutcome(desc)
		}}
	}
}

type AfterRebParams struct {
	OldServer  bool `json:"old_server"`  // below 5.5.0: streams are closed one at a time, END is not announced by the server
	CloseFault bool `json:"close_fault"` // one close-stream request of the first rebalance fails
	// ReopenPending: dynamic membership (immediate re-open). A vBucket ended transiently and its first re-open
	// attempt failed: the retry is sleeping (1 s) when the first rebalance starts - and is over long before it wakes
	ReopenPending bool `json:"reopen_pending"`
	// Dynamic: dynamic membership (the re-open follows the close at once: what the closed session's streams still
	// report lands in the middle of the new session's start-up)
	Dynamic bool `json:"dynamic"`
	// CountOnly: only the active-stream figure is judged (the scenario registered under C16)
	CountOnly bool `json:"count_only"`
	// ReopenedBefore: one vBucket ended transiently and was re-opened by the library before the first rebalance:
	// the close of the rebalance closes that stream like every other (else the next session's request is refused)
	ReopenedBefore bool `json:"reopened_before"`
}

// c12_afterrebalance: the "stops on its own iff every assigned vBucket ended for good" rule in the sessions
// that follow 1..2 real rebalances (Close + re-Open of the same stream object): every vBucket then ends
// with an enumerated final cause in an enumerated order (optionally one transient end first); the stop
// signal must be raised exactly when the last one ended, and the active count must follow.
func init() {
	scenarios["c12_afterrebalance"] = func(raw json.RawMessage) *vrt.Scenario {
		var p AfterRebParams
		_ = json.Unmarshal(raw, &p)
		return &vrt.Scenario{Name: "c12_afterrebalance", FreeChoices: true, NoTimerAlt: true, MaxSteps: 400000, Main: func() {
			resetGlobals()
			o := EnvOpts{Vbs: 3, CheckpointType: "manual", WrapMeta: true, RebalanceDelay: time.Second}
			if p.OldServer {
				o.Version = &couchbase.Version{Major: 5, Minor: 0, Patch: 1}
			}
			if p.ReopenPending || p.Dynamic {
				o.MembershipType = "dynamic"
			}
			c := NewCluster(&o)
			e := NewEnv(c, o)
			e.Cons.AutoAck = true
			if p.ReopenPending || p.Dynamic {
				publishInfo(e, 1, 1)
				vrt.Sleep(1)
			}
			e.Stream.Open()
			c.WaitIdle()
			nreb := 1 + vrt.Choose(2, true, "rebalances")
			lateWait := ""
			// when the re-open of a rebalance begins, the waiter goroutine of the session it closed has taken the close
			// token and is gone; if it is still there it will take its token AFTER Open() has reset the session flags
			// (the listed fourth C11 finding)
			inRebalance := false
			e.EH.On = func(n string) {
				if n == "BRS" {
					inRebalance = true
				}
				if n == "ARE" {
					inRebalance = false
				}
				if n != "BSStart" || !inRebalance {
					return
				}
				// (the re-open begins: Open() is about to reset the session flags and to start the new waiter)
				waiters := 0
				for _, th := range vrt.LiveThreads() {
					if strings.HasPrefix(th, "stream.(*stream).Open:") {
						waiters++
					}
				}
				if waiters > 0 {
					lateWait = " [the wait() goroutine of the session that the rebalance closed was delayed past the end of the rebalance: it competes with the new session's waiter for the finish tokens]"
				}
			}
			if p.ReopenPending {
				pvb := uint16(vrt.Choose(3, true, "vbucket-with-a-pending-re-open"))
				c.Vb[pvb].Opens = append(c.Vb[pvb].Opens, gocbcore.SimOpen{Kind: "err", Err: gocbcore.ErrTemporaryFailure})
				c.EndStream(pvb, gocbcore.ErrDCPStreamTooSlow)
				vrt.Sleep(200 * time.Millisecond) // the first attempt has failed, the retry sleeps
			}
			if p.ReopenedBefore {
				rvb := uint16(vrt.Choose(3, true, "vbucket-re-opened-before-the-rebalance"))
				c.EndStream(rvb, []error{gocbcore.ErrDCPStreamStateChanged, gocbcore.ErrSocketClosed}[vrt.Choose(2, true, "cause")])
				vrt.Sleep(3 * time.Second)
				vrt.Quiesce()
				c.WaitIdle()
				if !c.StreamOpen(rvb) {
					vrt.Failf("harness: vb%d was not re-opened", rvb)
					return
				}
			}
			if p.CloseFault {
				// one close-stream request of the FIRST rebalance fails: rejected, or the connection is gone
				fvb := uint16(vrt.Choose(3, true, "close-fault-vb"))
				how := vrt.Choose(3, true, "close-fault")
				armed := true
				c.Fault = func(r *gocbcore.SimRequest) gocbcore.SimAnswer {
					if armed && r.Kind == "closestream" && r.Vb == fvb {
						armed = false
						switch how {
						case 0:
							return gocbcore.SimAnswer{Kind: "applydrop"} // applied, the reply is lost (time-out)
						case 1:
							c.EndStream(fvb, gocbcore.ErrSocketClosed)
							return gocbcore.SimAnswer{Kind: "err", Err: gocbcore.ErrSocketClosed}
						default:
							c.EndStream(fvb, gocbcore.ErrSocketClosed)
							return gocbcore.SimAnswer{Kind: "err", Err: gocbcore.ErrShutdown}
						}
					}
					return gocbcore.SimAnswer{}
				}
			}
			for i := 0; i < nreb; i++ {
				// (schedule window: the END(closed) notifications of the rebalance's own close may be processed
				// before or after the observers stop forwarding ends)
				vrt.Window(true)
				if p.ReopenPending || p.Dynamic {
					publishInfo(e, 1, 1)
					vrt.Sleep(1)
				}
				e.Stream.Rebalance()
				if p.ReopenPending {
					vrt.Sleep(8 * time.Second) // the sleeping retry wakes up (and, if it carries on, runs out of attempts)
				}
				if p.CloseFault {
					vrt.Sleep(70 * time.Second) // a lost reply runs into the request's one-minute time-out
				}
				vrt.Sleep(3 * time.Second)
				vrt.Quiesce()
				c.WaitIdle()
				vrt.Window(false)
			}
			if vrt.Closed(e.StopCh) {
				if !p.CountOnly {
					vrt.Failf("%d rebalance(s) stopped the client%s", nreb, lateWait)
				}
				return
			}
			if got := activeCount(e); got != 3 {
				vrt.Failf("after %d rebalance(s) the active stream count is %d, want 3", nreb, got)
			}
			ps := perms(3)
			order := ps[vrt.Choose(len(ps), true, "end-order")]
			fc := endCauses[nTransient+vrt.Choose(4, true, "final-cause")]
			transientFirst := vrt.Choose(2, true, "transient-first") == 1
			if transientFirst {
				c.EndStream(uint16(order[0]), gocbcore.ErrDCPStreamTooSlow)
				vrt.Sleep(2 * time.Second)
				vrt.Quiesce()
				c.WaitIdle()
			}
			for i, vb := range order {
				if !c.EndStream(uint16(vb), fc.err) {
					vrt.Failf("after %d rebalance(s): vb%d is not streamed", nreb, vb)
					return
				}
				vrt.Sleep(time.Second)
				vrt.Quiesce()
				c.WaitIdle()
				vrt.Quiesce()
				if got := activeCount(e); int(got) != 2-i {
					vrt.Failf("after %d rebalance(s) and %d final end(s) (%s): active stream count %d, want %d", nreb, i+1, fc.name, got, 2-i)
				}
				if stopped := vrt.Closed(e.StopCh); stopped != (i == 2) && !p.CountOnly {
					vrt.Failf("after %d rebalance(s) and %d of 3 vBuckets ended for good (%s): client stop signalled = %v%s", nreb, i+1, fc.name, stopped, lateWait)
				}
			}
			vrt.SetOutcome(fmt.Sprintf("%d %v %s %v", nreb, order, fc.name, transientFirst))
		}}
	}
}

// c12_filewider: the file metadata backend hands back every vBucket of its file, not only the requested ones.
// A member that restarts over a file written under a larger assignment (group scaled out) is assigned fewer
// vBuckets than the file holds: the active-stream count is the number of ASSIGNED vBuckets, it goes down with
// every final end and the (finite) run stops when the assigned ones have ended.
func init() {
	scenarios["c12_filewider"] = func(raw json.RawMessage) *vrt.Scenario {
		return &vrt.Scenario{Name: "c12_filewider", FreeChoices: true, NoTimerAlt: true, MaxSteps: 400000, Main: func() {
			resetGlobals()
			finite := vrt.Choose(2, true, "finite-mode") == 1
			f, _ := os.CreateTemp("", "c12*.json")
			fn := f.Name()
			f.Close()
			defer os.Remove(fn)
			o := EnvOpts{Vbs: 4, CheckpointType: "manual", Metadata: "file", FileName: fn, MemberNumber: 1, Total: 2}
			if finite {
				o.Mode = config.DcpModeFinite
			}
			c := NewCluster(&o)
			m := map[uint16]*models.CheckpointDocument{}
			for vb := uint16(0); vb < 4; vb++ {
				c.Append(vb, marker(1, 2), symbolPacket("M", 1), symbolPacket("M", 2))
				m[vb] = &models.CheckpointDocument{Checkpoint: &models.CheckpointDocumentCheckpoint{VbUUID: uint64(c.Vb[vb].Failover[0].VbUUID), SeqNo: 1, Snapshot: &models.CheckpointDocumentSnapshot{StartSeqNo: 1, EndSeqNo: 2}}, BucketUUID: "uuid-" + srcBucket}
			}
			b, _ := json.Marshal(m)
			_ = os.WriteFile(fn, b, 0o644)
			e := NewEnv(c, o)
			e.Cons.AutoAck = true
			e.Stream.Open()
			c.WaitIdle()
			vrt.Quiesce()
			desc := fmt.Sprintf("member 1/2 of 4 vBuckets (assigned 0..1) over a checkpoint file that holds 0..3, finite=%v", finite)
			vrt.SetOutcome(desc)
			if finite {
				vrt.Sleep(2 * time.Second)
				vrt.Quiesce()
				if got := activeCount(e); got != 0 {
					vrt.Failf("%s: both assigned vBuckets reached their end, the active stream count is %d", desc, got)
				}
				if !vrt.Closed(e.StopCh) {
					vrt.Failf("%s: both assigned vBuckets reached their end and the client did not stop", desc)
				}
				return
			}
			if got := activeCount(e); got != 2 {
				vrt.Failf("%s: the active stream count after the start is %d, want 2", desc, got)
			}
			for i, vb := range []uint16{1, 0} {
				c.EndStream(vb, gocbcore.ErrDCPStreamFilterEmpty)
				vrt.Sleep(time.Second)
				vrt.Quiesce()
				if got := activeCount(e); int(got) != 1-i {
					vrt.Failf("%s: after %d final end(s) the active stream count is %d, want %d", desc, i+1, got, 1-i)
				}
				if stopped := vrt.Closed(e.StopCh); stopped != (i == 1) {
					vrt.Failf("%s: after %d of 2 assigned vBuckets ended for good: client stop signalled = %v", desc, i+1, stopped)
				}
			}
		}}
	}
}

// c12_finite_rebalance: a finite run goes through a rebalance, and the application's AfterRebalanceEnd hook is
// slow (10 s): the vBuckets of the re-opened session reach their end bound while the hook is still running. "The
// client stops on its own if and only if every assigned vBucket stream has ended for good": it does, with every
// event up to the sampled high seqno delivered.
func init() {
	scenarios["c12_finite_rebalance"] = func(raw json.RawMessage) *vrt.Scenario {
		return &vrt.Scenario{Name: "c12_finite_rebalance", FreeChoices: true, NoTimerAlt: true, MaxSteps: 400000, Main: func() {
			resetGlobals()
			hook := []string{"ARE", "BRE", "ARS", "none", "drained"}[vrt.Choose(5, true, "slow-hook")]
			// "drained" (round 12): the consumer settles the LAST event of vb1 and then stays busy for 5 s - when the
			// rebalance closes the session everything is settled and stored, but the end of vb1 has not been seen; the
			// re-opened session has nothing left to stream: both vBuckets end inside its Open()
			drained := hook == "drained"
			o := EnvOpts{Vbs: 2, CheckpointType: "auto", CheckpointInterval: 1000 * time.Second, Mode: config.DcpModeFinite, WrapMeta: true, RebalanceDelay: 2 * time.Second}
			c := NewCluster(&o)
			for vb := uint16(0); vb < 2; vb++ {
				c.Append(vb, marker(1, 3), symbolPacket("M", 1), symbolPacket("M", 2), symbolPacket("M", 3))
			}
			e := NewEnv(c, o)
			e.Cons.AutoAck = true
			// the consumer is busy with the first event of vb1 for 5 s: the first session is in mid-run when the
			// rebalance arrives
			first := true
			e.Cons.OnConsume = func(d *Delivered) {
				if drained {
					if d.Vb == 1 && d.Seq == 3 && first {
						first = false
						d.Ctx.Ack()
						vrt.Sleep(5 * time.Second)
					}
					return
				}
				if first && d.Vb == 1 {
					first = false
					vrt.Sleep(5 * time.Second)
				}
			}
			e.EH.On = func(n string) {
				if n == hook {
					vrt.Sleep(10 * time.Second) // a slow application hook
				}
			}
			vrt.GoNamed("opener", func() { e.Stream.Open() })
			vrt.Sleep(time.Second)
			vrt.GoNamed("rebalancer", func() { e.Stream.Rebalance() })
			vrt.Sleep(3 * time.Minute)
			vrt.Quiesce()
			desc := fmt.Sprintf("finite run, a rebalance 1 s into it, slow %s hook", hook)
			if drained {
				desc = "finite run, a rebalance 1 s into it with everything settled and stored but the end of vb1 not seen yet (the re-opened session has nothing left to stream; default schedule only)"
			}
			for vb := uint16(0); vb < 2; vb++ {
				seen := map[uint64]bool{}
				for _, d := range e.Cons.Events {
					if d.Vb == vb {
						seen[d.Seq] = true
					}
				}
				for s := uint64(1); s <= 3; s++ {
					if !seen[s] {
						vrt.Failf("%s: event %d of vb%d (at or below the sampled high seqno 3) was never delivered", desc, s, vb)
					}
				}
			}
			if !vrt.Closed(e.StopCh) {
				_, active := e.Stream.GetMetric()
				vrt.Failf("%s: every vBucket has reached its end bound (active streams %d), the client did not stop on its own", desc, active)
			}
			vrt.SetOutcome(desc)
		}}
	}
}
