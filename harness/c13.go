package main

import (
	"encoding/json"
	"fmt"
	"strings"
	"time"

	"github.com/Trendyol/go-dcp/config"
	"github.com/Trendyol/go-dcp/helpers"
	"github.com/Trendyol/go-dcp/membership"
	"github.com/couchbase/gocbcore/v10"

	"verif/vrt"
)

// C13 — graceful shutdown is clean from every lifecycle state.
// The real newDcp -> Start() runs over the simulated cluster; Close() (the SIGTERM path) is injected at
// every scheduling point of the thread that carries the lifecycle activity, crash-point style.

type ShutdownParams struct {
	Case       string `json:"case"` // idle deliver gate save savefail rebalance reopen
	Checkpoint string `json:"checkpoint"`
	Mitigation bool   `json:"mitigation"`
	Health     bool   `json:"health"`
	Membership string `json:"membership"`
	MaxPoint   int    `json:"max_point"`
	// OldServer: a server below 5.5.0 (streams are closed one at a time, the end is synthesised by the client)
	// APIInfo: the membership numbering is supplied through the API's membership-info endpoint (which publishes it
	// on the bus) one second after start-up: the client is ready long before the membership's own start-up delay
	// has passed
	APIInfo bool `json:"api_info"`
	// MetaBucket: the checkpoints live in a second bucket on the same hosts (a separate agent of the client)
	MetaBucket bool `json:"meta_bucket"`
	OldServer  bool `json:"old_server"`
}

func init() {
	scenarios["c13_shutdown"] = func(raw json.RawMessage) *vrt.Scenario {
		var p ShutdownParams
		_ = json.Unmarshal(raw, &p)
		return &vrt.Scenario{Name: "c13_shutdown", Main: func() { shutdownMain(p) }, FreeChoices: true, MaxSteps: 2_000_000, NoTimerAlt: true, Classify: shutdownClassify}
	}
	register(&Property{
		ID:        "C13",
		Technique: "point-indexed injection of Close() into the real Dcp lifecycle (every scheduling point of the thread carrying the activity: event delivery, rollback-mitigation gate, in-flight / failing save, the rebalance call, the rebalance re-open) plus deviation-bounded schedule DFS, with hang, crash and post-return activity observed by the controlled scheduler",
		Rule:      "lifecycle cases {idle, deliver, gate, save, savefail, rebalance, reopen} x configurations of optional components (checkpoint auto/manual, mitigation, health check, membership static/dynamic); Close() injected at point k for every k up to the length of the activity; one further deviation; non-trivial = distinct (case, injection point, outcome)",
		Assume:    []string{"a consumer that does not call back into the library after Close", "'returns in bounded time' = Start() returns within 10 virtual minutes after Close(); background activity = any DCP/KV request, ping or delivery after the return"},
		Instances: func(tier string) []Instance {
			b := 0
			if tier == "thorough" {
				b = 1
			}
			var out []Instance
			add := func(p ShutdownParams, shards int) {
				if p.MaxPoint == 0 {
					p.MaxPoint = 160
				}
				out = append(out, Instance{Scenario: "c13_shutdown", Params: mustJSON(p), Bound: b, Shards: shards})
			}
			for _, cp := range []string{"auto", "manual"} {
				add(ShutdownParams{Case: "idle", Checkpoint: cp, Membership: "static", MaxPoint: 1}, 1)
				add(ShutdownParams{Case: "deliver", Checkpoint: cp, Membership: "static"}, 4)
			}
			add(ShutdownParams{Case: "idle", Checkpoint: "auto", Mitigation: true, Health: true, Membership: "static", MaxPoint: 1}, 1)
			add(ShutdownParams{Case: "deliver", Checkpoint: "auto", Mitigation: true, Health: true, Membership: "static"}, 4)
			add(ShutdownParams{Case: "gate", Checkpoint: "auto", Mitigation: true, Membership: "static"}, 4)
			add(ShutdownParams{Case: "save", Checkpoint: "auto", Membership: "static"}, 4)
			add(ShutdownParams{Case: "savefail", Checkpoint: "auto", Membership: "static"}, 4)
			add(ShutdownParams{Case: "saveack", Checkpoint: "auto", Membership: "static", MaxPoint: 60}, 4)
			add(ShutdownParams{Case: "dropduringclose", Checkpoint: "auto", Membership: "static", MaxPoint: 120}, 4)
			add(ShutdownParams{Case: "rebalance", Checkpoint: "auto", Membership: "dynamic"}, 4)
			add(ShutdownParams{Case: "reopen", Checkpoint: "auto", Membership: "dynamic"}, 4)
			add(ShutdownParams{Case: "rebalance", Checkpoint: "auto", Membership: "static"}, 4)
			add(ShutdownParams{Case: "rebalance", Checkpoint: "auto", Mitigation: true, Membership: "dynamic"}, 4)
			add(ShutdownParams{Case: "absorbed", Checkpoint: "auto", Membership: "static", MaxPoint: 2}, 1)
			add(ShutdownParams{Case: "earlyclose", Checkpoint: "auto", Membership: "couchbase", MaxPoint: 4}, 1)
			add(ShutdownParams{Case: "earlyclose", Checkpoint: "auto", Mitigation: true, Health: true, Membership: "static", MaxPoint: 4}, 1)
			add(ShutdownParams{Case: "earlyclose", Checkpoint: "auto", Membership: "couchbase", APIInfo: true, MaxPoint: 4}, 1)
			add(ShutdownParams{Case: "slowmitigationstart", Checkpoint: "auto", Mitigation: true, Membership: "static", MaxPoint: 8}, 1)
			add(ShutdownParams{Case: "windowack", Checkpoint: "auto", Membership: "static", MaxPoint: 4}, 1)
			out = append(out, Instance{Scenario: "c12_afterrebalance", Params: mustJSON(AfterRebParams{ReopenedBefore: true}), Bound: 0, Shards: 8, Note: "the Close() of a rebalance stops every stream of the session, also one the library had re-opened after a transient end (at a shutdown the connection is closed as well, at a rebalance it is not)"})
			add(ShutdownParams{Case: "reopenedclose", Checkpoint: "auto", Membership: "static", MaxPoint: 4}, 1)
			add(ShutdownParams{Case: "reopenedclose", Checkpoint: "auto", Membership: "static", MaxPoint: 4, OldServer: true}, 1)
			add(ShutdownParams{Case: "duringstart", Checkpoint: "auto", Mitigation: true, Health: true, Membership: "static", MaxPoint: 120}, 4)
			add(ShutdownParams{Case: "duringstart", Checkpoint: "auto", Health: true, Membership: "dynamic", MaxPoint: 120}, 4)
			add(ShutdownParams{Case: "slowfailsave", Checkpoint: "auto", Membership: "static", MaxPoint: 6}, 1)
			add(ShutdownParams{Case: "afterrebalance", Checkpoint: "auto", Membership: "static", MaxPoint: 1}, 1)
			add(ShutdownParams{Case: "afterrebalance", Checkpoint: "auto", Membership: "static", MaxPoint: 1, OldServer: true}, 1)
			add(ShutdownParams{Case: "slowobserve", Checkpoint: "auto", Mitigation: true, Membership: "static", MaxPoint: 24}, 2)
			add(ShutdownParams{Case: "closefault", Checkpoint: "auto", Membership: "static", MaxPoint: 4}, 1)
			add(ShutdownParams{Case: "closefault", Checkpoint: "auto", Membership: "static", MaxPoint: 4, OldServer: true}, 1)
			add(ShutdownParams{Case: "idle", Checkpoint: "auto", Membership: "static", MaxPoint: 1, OldServer: true}, 1)
			add(ShutdownParams{Case: "deliver", Checkpoint: "auto", Membership: "static", MaxPoint: 60, OldServer: true}, 4)
			add(ShutdownParams{Case: "pingfail", Checkpoint: "auto", Health: true, Membership: "static", MaxPoint: 40}, 4)
			add(ShutdownParams{Case: "rebalance2", Checkpoint: "auto", Membership: "static", MaxPoint: 3}, 1)
			add(ShutdownParams{Case: "notifyduringclose", Checkpoint: "auto", Membership: "dynamic", MaxPoint: 120}, 4)
			out = append(out, Instance{Scenario: "c07_gate", Params: mustJSON(MitigationParams{Replicas: 1, CloseAt: true}), Bound: 0, Shards: 8, Note: "the stream is closed while an event waits at the rollback-mitigation gate (every feed combination): it is released, never handed to the consumer, nothing after Close() has returned"})
			out = append(out, Instance{Scenario: "c16_race", Params: mustJSON(ScrapeRaceParams{Against: "close", Inject: true}), Bound: 0, Shards: 4, Note: "a metrics scrape (prometheus runs Collect on its own goroutine) at every scheduling point of the stream's Close(): no crash"})
			add(ShutdownParams{Case: "idle", Checkpoint: "auto", Membership: "static", MaxPoint: 1, MetaBucket: true}, 1)
			add(ShutdownParams{Case: "deliver", Checkpoint: "auto", Membership: "static", MaxPoint: 60, MetaBucket: true}, 4)
			out = append(out, Instance{Scenario: "c13_sdstop", Params: mustJSON(struct{}{}), Bound: b, Note: "leader election enabled: the service-discovery part of the shutdown while a peer has stopped answering without closing its connections (a ping to it never returns)"})
			add(ShutdownParams{Case: "idle", Checkpoint: "auto", Membership: "couchbase", MaxPoint: 1}, 1)
			add(ShutdownParams{Case: "deliver", Checkpoint: "auto", Membership: "couchbase", MaxPoint: 60}, 4)
			return out
		},
	})
}

// shutdownClassify names the lifecycle state in which Close() arrived, so that a failure is identified by
// where it happens and not only by its symptom.
func shutdownClassify(r *vrt.Result) []string {
	// where in the lifecycle was Close() called? (BRS/ARS/BRE/ARE = Before/After Rebalance Start/End)
	var brs, ars, bre, are int
	var lastARS, closeT, delay int64
	seenClose, lateBRS, assAfterClose, veryLateBRS := false, false, false, false
	delay = -1
	for _, l := range r.Log {
		var t int64
		switch {
		case strings.HasPrefix(l, "REBALANCE-DELAY "):
			fmt.Sscanf(l, "REBALANCE-DELAY %d", &delay)
		case strings.HasPrefix(l, "Close() time t="):
			if !seenClose {
				fmt.Sscanf(l, "Close() time t=%d", &closeT)
			}
		case l == "Close() called":
			seenClose = true
		case strings.HasPrefix(l, "handler ASS") && seenClose && brs <= are:
			assAfterClose = true // the shutdown's own stream.Close() has finished
		case strings.HasPrefix(l, "handler BRS"):
			if seenClose {
				lateBRS = true
				if assAfterClose {
					veryLateBRS = true
				}
			} else {
				brs++
			}
		case strings.HasPrefix(l, "handler ARS") && !seenClose:
			ars++
			fmt.Sscanf(l, "handler ARS t=%d", &t)
			lastARS = t
		case strings.HasPrefix(l, "handler BRE") && !seenClose:
			bre++
		case strings.HasPrefix(l, "handler ARE") && !seenClose:
			are++
		}
	}
	// "concurrent with the rebalance path" = some step of the rebalance (the Rebalance() call or the re-open) is
	// running or due while Close() runs; "strictly inside the delay window" = Rebalance() has returned (virtual
	// time has moved on since AfterRebalanceStart) and the re-open timer is not yet due: nothing of the
	// rebalance path is running then.
	const conc = "concurrent with the rebalance path: "
	state := "outside any rebalance"
	switch {
	case brs > are && ars < brs:
		state = conc + "during the close phase of Rebalance() (BeforeRebalanceStart seen, AfterRebalanceStart not yet)"
	case brs > are && bre < brs && closeT-lastARS <= 1000:
		state = conc + "at the very end of Rebalance() (AfterRebalanceStart seen at this very instant, the call may not have returned)"
	case brs > are && bre < brs && delay >= 0 && closeT < lastARS+delay-1000:
		state = "strictly inside the rebalance delay window (Rebalance() has returned, the re-open timer is not due yet)"
	case brs > are:
		state = conc + "the re-open is due or running (AfterRebalanceEnd not yet)"
	case veryLateBRS:
		// by then the client has unsubscribed from membership changes: nothing may start a rebalance any more
		state = "with a Rebalance() that started after the shutdown had already closed the stream"
	case lateBRS:
		state = conc + "a Rebalance() started while Close() was running"
	}
	var msgs []string
	switch r.Status {
	case vrt.StatusOK:
	case vrt.StatusCrash:
		// fail-stop of the health checker after five failed pings one retry interval apart is what C19 demands,
		// whenever Close() arrives
		if strings.Contains(r.Crash.Stack, "couchbase/healthcheck.go") {
			var ts []int64
			for _, l := range r.Log {
				var n int
				var t int64
				if _, err := fmt.Sscanf(l, "PINGFAIL %d t=%d", &n, &t); err == nil {
					ts = append(ts, t)
				}
			}
			spaced := len(ts) >= 5
			for i := len(ts) - 4; spaced && i < len(ts); i++ {
				if i <= 0 || ts[i]-ts[i-1] < int64(time.Second) {
					spaced = false
				}
			}
			if spaced {
				return nil
			}
		}
		site := "?"
		for _, ln := range strings.Split(r.Crash.Stack, "\n") {
			if strings.Contains(ln, "go-dcp/stream.") || strings.Contains(ln, "go-dcp/couchbase.") || strings.Contains(ln, "go-dcp.(") {
				site = strings.TrimSpace(ln)
				if i := strings.Index(site, "("); i > 0 && strings.HasSuffix(site, ")") {
					site = site[:strings.LastIndex(site, "(")]
				}
				break
			}
		}
		msgs = append(msgs, fmt.Sprintf("Close() %s: the process crashed (%s) in %s [thread %s]", state, r.Crash.Value, site, r.Crash.Thread))
	default:
		msgs = append(msgs, fmt.Sprintf("Close() %s: execution ended with status %s; blocked: %s", state, r.Status, strings.Join(r.Blocked, " | ")))
	}
	for i, f := range r.Failures {
		r.Failures[i] = "Close() " + state + ": " + f
	}
	return msgs
}

func shutdownMain(p ShutdownParams) {
	resetGlobals()
	o := DcpOpts{HealthCheck: p.Health}
	if p.OldServer {
		o.ServerVersion = "5.0.1-5003-enterprise"
	}
	o.Vbs = 2
	o.Replicas = 0
	if p.MetaBucket {
		o.MetaBucket = "meta"
	}
	o.CheckpointType = p.Checkpoint
	o.Mitigation = p.Mitigation
	o.MembershipType = p.Membership
	o.AutoAck = p.Case != "windowack"
	o.CheckpointInterval = 10 * time.Second
	o.CheckpointTimeout = 5 * time.Second
	o.RebalanceDelay = 20 * time.Second
	o.Tweak = func(cfg *config.Dcp) {
		cfg.HealthCheck.Interval = 7 * time.Second
		cfg.HealthCheck.Timeout = 3 * time.Second
	}
	c := NewCluster(&o.EnvOpts)
	c.Append(0, marker(1, 2), symbolPacket("M", 1), symbolPacket("M", 2))
	c.Append(1, marker(1, 1), symbolPacket("M", 1))
	if p.Mitigation {
		// nothing persisted yet beyond seq 2 / 1: later events wait at the gate
		c.SetPersist(0, 0, gocbcore.SimPersist{VbUUID: c.Vb[0].Failover[0].VbUUID, Persist: 2, Current: 2})
		c.SetPersist(1, 0, gocbcore.SimPersist{VbUUID: c.Vb[1].Failover[0].VbUUID, Persist: 1, Current: 1})
	}
	if p.Case == "slowmitigationstart" {
		// the fail-over-log queries rollback mitigation issues when a session starts are answered after 5 s: its
		// poll loop has not started yet when Close() arrives
		c.Fault = func(r *gocbcore.SimRequest) gocbcore.SimAnswer {
			if r.Kind == "failoverlog" {
				return gocbcore.SimAnswer{Kind: "latedelay", Delay: 5 * time.Second}
			}
			return gocbcore.SimAnswer{}
		}
	}
	e := NewDcpEnv(c, o)
	if e.Err != nil {
		vrt.Failf("newDcp: %v", e.Err)
		return
	}
	consumedAfterReturn := 0
	e.Cons.OnConsume = func(d *Delivered) {
		if e.Done {
			consumedAfterReturn++
			vrt.Failf("event vb%d seq %d was handed to the consumer after Close() had returned", d.Vb, d.Seq)
		}
	}
	if p.Membership == "dynamic" || p.APIInfo {
		vrt.GoNamed("first-membership", func() {
			vrt.Sleep(1)
			if p.APIInfo {
				vrt.Sleep(time.Second) // (the membership has registered and subscribed by then)
			}
			e.bus().Publish(helpers.MembershipChangedBusEventName, &membership.Model{MemberNumber: 1, TotalMembers: 1})
		})
	}
	if p.Membership == "dynamic" {
		vrt.Logf("REBALANCE-DELAY 0")
	} else {
		vrt.Logf("REBALANCE-DELAY %d", int64(o.RebalanceDelay))
	}
	if p.Case == "duringstart" {
		e.StartNoWait() // Close() arrives from another goroutine while Start() is still on its way to readiness
	} else {
		e.Start()
	}
	early := p.Case == "slowmitigationstart" || p.Case == "earlyclose" || p.Case == "duringstart"
	if !early {
		vrt.Quiesce()
		c.WaitIdle()
		vrt.Quiesce()
	}
	if len(e.Cons.Events) != 3 && !early {
		vrt.Failf("harness: %d events delivered before the scenario", len(e.Cons.Events))
		return
	}
	settledAtCall := map[uint16]uint64{}
	mitigationLoading := false
	closeCalled := false
	inflightSave := false
	var closeCallTime int64
	closeStreamOrder := 0
	_ = closeCallTime
	doClose := func() {
		for vb, s := range maxAcked(e.Cons) {
			settledAtCall[vb] = s
		}
		if closeCalled {
			return
		}
		closeCalled = true
		closeCallTime = vrt.NowNanos()
		if inflightSave {
			// had the slow periodic save already completed when Close() was called?
			done := true
			for _, r := range c.RequestsOf("mutatein") {
				if r.Answer == "delay" && r.Finished == 0 {
					done = false
				}
			}
			e.LateSaveAfterInflight = done
		}
		for _, r := range c.RequestsOf("failoverlog") {
			if r.Finished == 0 {
				mitigationLoading = true
			}
		}
		vrt.Logf("Close() time t=%d", vrt.NowNanos())
		vrt.Logf("Close() called")
		e.D.Close()
	}
	k := 0
	if p.MaxPoint > 1 {
		k = vrt.Choose(p.MaxPoint, true, "close-at-point")
	}
	vrt.Window(true)
	switch p.Case {
	case "idle":
		doClose()
	case "windowack":
		// a consumer that acknowledges asynchronously: the last event is acknowledged AFTER a rebalance has closed
		// the stream, Close() arrives k seconds later, still inside the rebalance delay: the position is settled
		// before the call, so it is in the store afterwards
		ackEv := func(vb uint16, seq uint64) {
			for _, d := range e.Cons.Events {
				if d.Vb == vb && d.Seq == seq && !d.Acked {
					d.Acked = true
					d.Ctx.Ack()
				}
			}
		}
		ackEv(0, 1)
		ackEv(1, 1)
		dcpStream(e).Rebalance()
		vrt.Sleep(2 * time.Second)
		ackEv(0, 2)
		vrt.Sleep(time.Duration(k) * time.Second)
		doClose()
	case "reopenedclose":
		// a stream ends transiently and is re-opened by the library; much later an idle Close(): the re-opened
		// stream is closed like every other
		c.EndStream(uint16(k%2), []error{gocbcore.ErrDCPStreamStateChanged, gocbcore.ErrSocketClosed}[k/2%2])
		vrt.Sleep(5 * time.Second)
		vrt.Quiesce()
		c.WaitIdle()
		doClose()
	case "duringstart":
		// at every scheduling point of Start() before (and just after) readiness; the request is queued and
		// honoured once the session is up - nothing of the session may survive it
		vrt.InjectAt("dcp.Start", k, doClose)
	case "deliver":
		vrt.InjectAt("sim:dcp:events0", k, doClose)
		c.Append(0, marker(3, 4), symbolPacket("M", 3), symbolPacket("M", 4))
		c.Append(1, marker(2, 2), symbolPacket("M", 2))
	case "gate":
		// the DCP thread parks in the rollback-mitigation gate (seq 3 not persisted); Close arrives there
		vrt.InjectAt("sim:dcp:events0", k, doClose)
		c.Append(0, marker(3, 3), symbolPacket("M", 3))
	case "save", "savefail":
		// new progress, then the periodic save runs; Close arrives at every point of that save
		c.Append(0, marker(3, 3), symbolPacket("M", 3))
		c.WaitIdle()
		if p.Case == "savefail" {
			c.Fault = func(r *gocbcore.SimRequest) gocbcore.SimAnswer {
				if r.Kind == "mutatein" && strings.Contains(r.Key, ":checkpoint:") && !closeCalled {
					return gocbcore.SimAnswer{Kind: "drop"}
				}
				return gocbcore.SimAnswer{}
			}
		}
		vrt.InjectAt("StartSchedule", k, doClose)
		vrt.Sleep(o.CheckpointInterval + time.Second)
	case "saveack":
		// the periodic save is slow; while it is in flight another event is delivered and acknowledged,
		// and Close() arrives at every point of that delivery (the closing save queues behind the slow one)
		c.Append(0, marker(3, 3), symbolPacket("M", 3))
		c.WaitIdle()
		c.Fault = func(r *gocbcore.SimRequest) gocbcore.SimAnswer {
			if r.Kind == "mutatein" && strings.Contains(r.Key, ":checkpoint:") && !closeCalled {
				return gocbcore.SimAnswer{Kind: "delay", Delay: 2 * time.Second}
			}
			return gocbcore.SimAnswer{}
		}
		vrt.Sleep(o.CheckpointInterval + 500*time.Millisecond) // the periodic save is now waiting for the store
		inflightSave = true
		vrt.InjectAt("sim:dcp:events0", k, doClose)
		c.Append(0, marker(4, 4), symbolPacket("M", 4))
	case "dropduringclose":
		// the connection drops (stream end with a re-openable cause) at every point of the teardown, or
		// exactly while the close-stream request of vb1 is on the wire
		if k == 0 {
			c.Fault = func(r *gocbcore.SimRequest) gocbcore.SimAnswer {
				if r.Kind == "closestream" && r.Vb == 1 && closeStreamOrder == 0 {
					closeStreamOrder = r.IssuedOrder
					c.EndStream(1, gocbcore.ErrSocketClosed)
					return gocbcore.SimAnswer{Kind: "err", Err: gocbcore.ErrSocketClosed}
				}
				return gocbcore.SimAnswer{}
			}
			doClose()
		} else {
			doClose()
			vrt.InjectAt("dcp.Start", k, func() {
				vrt.Logf("connection dropped during shutdown")
				c.EndStream(1, gocbcore.ErrSocketClosed)
			})
		}
	case "rebalance":
		vrt.InjectAt("rebalancer", k, doClose)
		vrt.GoNamed("rebalancer", func() {
			if p.Membership == "dynamic" {
				// the client's own bus listener turns the notification into stream.Rebalance()
				e.bus().Publish(helpers.MembershipChangedBusEventName, &membership.Model{MemberNumber: 1, TotalMembers: 2})
				vrt.Sleep(1)
				return
			}
			dcpStream(e).Rebalance()
		})
		vrt.Sleep(o.RebalanceDelay / 2)
	case "closefault":
		// one close-stream request of the shutdown is rejected / never answered
		how := k % 2
		armed := true
		c.Fault = func(r *gocbcore.SimRequest) gocbcore.SimAnswer {
			if armed && r.Kind == "closestream" && r.Vb == uint16(k/2%2) {
				armed = false
				if how == 0 {
					return gocbcore.SimAnswer{Kind: "err", Err: gocbcore.ErrTemporaryFailure}
				}
				return gocbcore.SimAnswer{Kind: "drop"}
			}
			return gocbcore.SimAnswer{}
		}
		doClose()
	case "slowfailsave":
		// new progress; the store has become slow AND failing (every checkpoint write is answered with an error
		// after 12 s - longer than the checkpoint interval): the closing save takes its time and fails, the periodic
		// schedule ticks meanwhile and queues behind it. When Close() has returned nothing runs any more.
		c.Append(0, marker(3, 3), symbolPacket("M", 3))
		c.WaitIdle()
		vrt.Quiesce()
		c.Fault = func(r *gocbcore.SimRequest) gocbcore.SimAnswer {
			if (r.Kind == "mutatein" || r.Kind == "set") && strings.Contains(r.Key, ":checkpoint:") {
				return gocbcore.SimAnswer{Kind: "delayerr", Delay: 12 * time.Second, Err: &gocbcore.KeyValueError{InnerError: gocbcore.ErrTemporaryFailure, StatusCode: 0x86}}
			}
			return gocbcore.SimAnswer{}
		}
		vrt.Sleep(time.Duration(k) * 2 * time.Second) // Close() at different phases of the checkpoint interval
		doClose()
		settledAtCall = map[uint16]uint64{} // the store rejects everything: nothing can be demanded of it
	case "earlyclose":
		// Close() k seconds after the client signalled readiness: inside the start-up delays of the periodic loops
		// (membership monitor: the rebalance delay; rollback mitigation; the first health check)
		vrt.Sleep(time.Duration(k) * time.Second)
		doClose()
		settledAtCall = map[uint16]uint64{}
	case "slowmitigationstart":
		vrt.Sleep(time.Duration(k) * time.Second) // before / while / after the fail-over logs arrive
		doClose()
		settledAtCall = map[uint16]uint64{}
	case "afterrebalance":
		// a complete rebalance (close, delay, re-open), then the shutdown
		dcpStream(e).Rebalance()
		vrt.Sleep(o.RebalanceDelay + 5*time.Second)
		vrt.Quiesce()
		c.WaitIdle()
		doClose()
	case "slowobserve":
		// rollback mitigation: the nodes answer the persistence polls slowly (1.2 s - inside the request deadline)
		// or not at all; Close() arrives at every quarter second of two poll rounds, i.e. before a round, while
		// its requests are in flight, and between rounds
		silent := k%2 == 1
		c.Fault = func(r *gocbcore.SimRequest) gocbcore.SimAnswer {
			if r.Kind == "observevb" {
				if silent {
					return gocbcore.SimAnswer{Kind: "drop"}
				}
				return gocbcore.SimAnswer{Kind: "delay", Delay: 1200 * time.Millisecond}
			}
			return gocbcore.SimAnswer{}
		}
		vrt.Sleep(time.Duration(k/2) * 250 * time.Millisecond)
		doClose()
	case "absorbed":
		// the only unsaved progress is an event the library settles itself (seqno-advanced / a collection
		// system event): the closing save stores it
		e.D.Commit() // everything acknowledged so far is stored: nothing is flagged any more
		c.WaitIdle()
		c.Append(0, marker(3, 3), symbolPacket([]string{"SEQ", "CC"}[k%2], 3))
		c.WaitIdle()
		vrt.Quiesce()
		doClose()
		settledAtCall[0] = 3
	case "pingfail":
		// the cluster stops answering pings; Close() arrives at every point of the health checker (between
		// attempts, inside the retry wait, inside a ping). A crash is legitimate only after five failed pings
		// that were one retry interval apart (shutdownClassify).
		npf := 0
		c.Fault = func(r *gocbcore.SimRequest) gocbcore.SimAnswer {
			if r.Kind == "ping" {
				npf++
				vrt.Logf("PINGFAIL %d t=%d", npf, vrt.NowNanos())
				return gocbcore.SimAnswer{Kind: "err", Err: gocbcore.ErrTemporaryFailure}
			}
			return gocbcore.SimAnswer{}
		}
		vrt.InjectAt("healthCheck).Start", k, doClose)
		vrt.Sleep(7*time.Second + 6*time.Second)
	case "notifyduringclose":
		// a membership change is announced at every point of the shutdown itself
		doClose()
		vrt.InjectAt("dcp.Start", k, func() {
			vrt.Logf("membership change announced during the shutdown")
			e.bus().Publish(helpers.MembershipChangedBusEventName, &membership.Model{MemberNumber: 1, TotalMembers: 2})
		})
	case "rebalance2":
		// two notifications inside one delay window (the second one re-arms the timer), then Close() inside
		// the re-armed window: nothing may be re-opened after Close() has returned
		dcpStream(e).Rebalance()
		vrt.Sleep(o.RebalanceDelay / 2)
		dcpStream(e).Rebalance()
		vrt.Sleep([]time.Duration{time.Second, o.RebalanceDelay / 2, o.RebalanceDelay - time.Second}[k%3])
		doClose()
	case "reopen":
		vrt.GoNamed("rebalancer", func() {
			e.bus().Publish(helpers.MembershipChangedBusEventName, &membership.Model{MemberNumber: 1, TotalMembers: 2})
		})
		vrt.InjectAt("timer:afterfunc@stream.(*stream).Rebalance", k, doClose)
		vrt.Sleep(2 * time.Second)
	}
	// let everything run; Start() has to return
	for i := 0; i < 40 && !(closeCalled && e.Done); i++ {
		vrt.Sleep(15 * time.Second)
	}
	vrt.Window(false)
	if !closeCalled {
		// the activity was shorter than k points: close now
		doClose()
		for i := 0; i < 40 && !e.Done; i++ {
			vrt.Sleep(15 * time.Second)
		}
	}
	desc := fmt.Sprintf("case=%s cp=%s mitigation=%v health=%v membership=%s close@%d", p.Case, p.Checkpoint, p.Mitigation, p.Health, p.Membership, k)
	if !e.Done {
		var stuck []string
		for _, b := range vrt.BlockedThreads() {
			if !strings.HasPrefix(b, "sim:") {
				stuck = append(stuck, b)
			}
		}
		vrt.Failf("%s: Start() did not return within 10 virtual minutes after Close(); blocked: %s", desc, strings.Join(stuck, " | "))
		vrt.SetOutcome(desc + "|hang")
		return
	}
	// durable positions (auto mode): everything settled before the call
	if p.Checkpoint == "auto" {
		for vb, want := range settledAtCall {
			got, _ := e.StoredSeq(vb)
			if got < want {
				why := ""
				if inflightSave && e.savesAfterCallSkipped() {
					why = " [acknowledged while a successful save was in flight and the closing save started after that save had finished: the dump..unmark race of C05]"
				}
				vrt.Failf("%s: vb%d stored %d after shutdown, but %d was settled before Close() was called%s", desc, vb, got, want, why)
			}
		}
	}
	// quiet afterwards
	nReq, nEv := len(c.Requests), len(e.Cons.Events)
	vrt.Sleep(3 * 30 * time.Second)
	vrt.Quiesce()
	{
		var kinds []string
		for _, r := range c.Requests[nReq:] {
			if r.Answer == "shutdown" {
				continue // refused by the closed client library, never reached the cluster (the last turn of a polling loop)
			}
			kinds = append(kinds, r.Agent+":"+r.Kind)
		}
		if len(kinds) > 0 {
			vrt.Failf("%s: background activity after Close() returned: requests %v", desc, kinds)
		}
	}
	if len(e.Cons.Events) != nEv {
		vrt.Failf("%s: %d events delivered after Close() returned", desc, len(e.Cons.Events)-nEv)
	}
	// the library's periodic loops have ended: a thread of theirs that still exists two minutes after Close()
	// returned makes no further step during another two minutes (a thread that is blocked for good is a leak,
	// not activity)
	{
		before := vrt.ThreadPoints()
		vrt.Sleep(2 * time.Minute)
		vrt.Quiesce()
		for th, n := range vrt.ThreadPoints() {
			for _, loop := range []string{"checkpoint).StartSchedule", "healthCheck).", "rollbackMitigation).", "cbMembership)."} {
				if strings.Contains(th, loop) && n > before[th] {
					why := ""
					if mitigationLoading && loop == "rollbackMitigation)." {
						why = " [Close() arrived while rollback mitigation was still loading its fail-over logs: Stop() found no ticker to stop, the poll loop started afterwards]"
					}
					vrt.Failf("%s: background activity after Close() returned: the periodic loop %s is still running (%d further steps in two minutes)%s", desc, th[:strings.LastIndex(th, "~")], n-before[th], why)
				}
			}
		}
	}
	for vb := uint16(0); vb < 2; vb++ {
		if c.StreamOpen(vb) {
			vrt.Failf("%s: the stream of vb%d was never closed", desc, vb)
		}
	}
	// every connection of the client (source agent, metadata agent, DCP agent) has been closed
	if open := c.OpenAgents(); len(open) > 0 {
		vrt.Failf("%s: connections of the client are still open after Close() returned: %v", desc, open)
	}
	if closeStreamOrder > 0 {
		for _, r := range c.RequestsOf("openstream") {
			if r.Vb == 1 && r.IssuedOrder > closeStreamOrder {
				vrt.Failf("%s: vb1 was re-opened after the shutdown had already requested its stream to be closed (the connection dropped during the close-stream request)", desc)
			}
		}
	}
	vrt.SetOutcome(fmt.Sprintf("%s|ok|%v", desc, settledAtCall))
}
