package main

import (
	"encoding/json"
	"fmt"
	"github.com/Trendyol/go-dcp/config"
	"github.com/Trendyol/go-dcp/couchbase"
	"github.com/couchbase/gocbcore/v10"
	"strings"
	"time"

	dcp "github.com/Trendyol/go-dcp"
	"github.com/Trendyol/go-dcp/stream"

	"verif/vrt"
)

// C18 gates: for every version tuple of the grid and every bucket kind the REAL newDcp runs against the
// simulated cluster (+ loopback /pools); the gate decisions are read off the DCPConfig the DCP agent was
// created with and off the close behaviour (serial below 5.5.0) and compared with the thresholds, which
// makes each gate an up-set of the version order.

type GateParams struct {
	Tier string `json:"tier"`
	Part int    `json:"part"`
	Of   int    `json:"of"`
}

func init() {
	scenarios["c18_gates"] = func(raw json.RawMessage) *vrt.Scenario {
		var p GateParams
		_ = json.Unmarshal(raw, &p)
		return &vrt.Scenario{Name: "c18_gates", Main: func() { gatesMain(p) }, MaxSteps: 5_000_000}
	}
	register(&Property{
		ID:        "C18",
		Technique: "exhaustive enumeration: all pairs/triples of a version grid against the lexicographic reference, every rendering through the real parser, and the real newDcp gate decisions for every grid tuple x bucket kind",
		Rule:      "grid of version tuples around every gate; pairs (trichotomy, antisymmetry, Lower=not Higher and not Equal), triples (transitivity), parser renderings, and one real newDcp run per (tuple, bucket kind); a case is non-trivial when the tuples differ",
		Assume:    []string{"simulated cluster + loopback HTTP /pools for the gate runs", "values outside the grid are not enumerated"},
		Pure:      c18Pure,
		Instances: func(tier string) []Instance {
			parts := 8
			var out []Instance
			for i := 0; i < parts; i++ {
				out = append(out, Instance{Scenario: "c18_gates", Params: mustJSON(GateParams{Tier: tier, Part: i, Of: parts}), Bound: 0})
			}
			out = append(out, Instance{Scenario: "c18_restversion", Params: mustJSON(struct{}{}), Bound: 0, Note: "the version the client works with = what the parser makes of the string the cluster reports (19 renderings, well-formed and not)"})
			out = append(out, Instance{Scenario: "c18_shrinkclose", Params: mustJSON(struct{}{}), Bound: 0, Note: "a rebalance that shrinks the assignment closes every stream the session had opened on either side of the 5.5.0 gate (the gate decides how, not which)"})
			out = append(out, Instance{Scenario: "c18_serialclose", Params: mustJSON(struct{}{}), Bound: 0, Shards: 2, Note: "the serial-close gate observed at the wire through lifecycles (a re-opened vBucket) and configurations (slow answers, short connection time-out)"})
			out = append(out, Instance{Scenario: "c18_connectfault", Params: mustJSON(struct{}{}), Bound: 0, Shards: 2, Note: "the first DCP connect fails: no session with features other than those the version gates"})
			return out
		},
	})
}

func geq(a, b [4]int) bool { return !lexLess(a, b) }

func gatesMain(p GateParams) {
	g := c18Grid(p.Tier)
	kinds := [][2]string{{"membase", "couchstore"}, {"membase", "magma"}, {"ephemeral", ""}}
	n := 0
	var sig string
	for i, t := range g {
		if i%p.Of != p.Part {
			continue
		}
		for _, k := range kinds {
			resetGlobals()
			o := DcpOpts{ServerVersion: versionString(t), BucketType: k[0], Storage: k[1]}
			o.Vbs = 2
			o.CheckpointType = "manual"
			c := NewCluster(&o.EnvOpts)
			e := NewDcpEnv(c, o)
			if e.Err != nil {
				vrt.Failf("newDcp failed for %v %v: %v", t, k, e.Err)
				return
			}
			if len(c.DcpConfigs) != 1 {
				vrt.Failf("no DCP agent created for %v", t)
				return
			}
			dc := c.DcpConfigs[0]
			wantExp := geq(t, [4]int{6, 5, 0, 0})
			wantCS := k[1] == "magma" && geq(t, [4]int{7, 2, 0, 0})
			if dc.UseExpiryOpcode != wantExp {
				vrt.Failf("version %v: expiry opcode gate = %v, want %v", t, dc.UseExpiryOpcode, wantExp)
			}
			if dc.UseChangeStreams != wantCS {
				vrt.Failf("version %v bucket %v: change streams gate = %v, want %v", t, k, dc.UseChangeStreams, wantCS)
			}
			v := e.D.GetVersion()
			if [4]int{v.Major, v.Minor, v.Patch, v.Build} != t {
				vrt.Failf("version %v parsed from /pools as %+v", t, *v)
			}
			// close behaviour: serial (one close-stream at a time) below 5.5.0
			e.Start()
			e.D.Close()
			vrt.Block("dcp closed", func() bool { return e.Done })
			serial := stream.VerifSerialClose(dcp.VerifStream(e.D))
			if wantSerial := lexLess(t, [4]int{5, 5, 0, 0}); serial != wantSerial {
				vrt.Failf("version %v: serial stream closing = %v, want %v", t, serial, wantSerial)
			}
			if cl := c.RequestsOf("closestream"); len(cl) != 2 {
				vrt.Failf("version %v: %d close-stream requests, want 2", t, len(cl))
			}
			n++
			sig += fmt.Sprintf("%v%v%v;", dc.UseExpiryOpcode, dc.UseChangeStreams, t[0])
		}
	}
	vrt.SetOutcome(fmt.Sprintf("part%d:%d:%s", p.Part, n, hashShort(sig)))
}

func hashShort(s string) string { return vrtHash(s) }

// c18_connectfault: the first attempt to open the DCP connection fails (transient). Either the construction
// fails, or the session that comes up was opened with exactly the features the server version gates -
// the features in effect never depend on anything but the version (and the bucket kind).
func init() {
	scenarios["c18_connectfault"] = func(raw json.RawMessage) *vrt.Scenario {
		return &vrt.Scenario{Name: "c18_connectfault", FreeChoices: true, MaxSteps: 2_000_000, Main: func() {
			vs := [][4]int{{5, 0, 0, 0}, {6, 4, 9, 0}, {6, 5, 0, 0}, {7, 1, 9, 0}, {7, 2, 0, 0}, {7, 6, 0, 0}}
			t := vs[vrt.Choose(len(vs), true, "version")]
			k := [][2]string{{"membase", "couchstore"}, {"membase", "magma"}}[vrt.Choose(2, true, "bucket")]
			fault := vrt.Choose(3, true, "first-connect") // 0 fine, 1 error, 2 never answered
			rest := vrt.Choose(3, true, "rest-lookup")    // 0 fine, 1 /pools answered 404, 2 bucket lookup answered 404
			bufSize := []any{nil, 0, "0", "1mb"}[vrt.Choose(4, true, "dcp.bufferSize")]
			metaOther := vrt.Choose(2, true, "checkpoints-in-a-second-bucket-with-the-OTHER-storage-back-end") == 1
			resetGlobals()
			mgmtFault = []string{"", "pools", "bucket"}[rest]
			o := DcpOpts{ServerVersion: versionString(t), BucketType: k[0], Storage: k[1]}
			if metaOther {
				o.MetaBucket = "meta"
				mgmtMetaStorage = map[string]string{"magma": "couchstore", "couchstore": "magma"}[k[1]]
			}
			o.Vbs = 2
			o.CheckpointType = "manual"
			if bufSize != nil {
				o.Tweak = func(cfg *config.Dcp) { cfg.Dcp.BufferSize = bufSize }
			}
			c := NewCluster(&o.EnvOpts)
			armed := fault != 0
			c.Fault = func(r *gocbcore.SimRequest) gocbcore.SimAnswer {
				if armed && r.Kind == "waitready" && r.Agent == "dcp" {
					armed = false
					if fault == 1 {
						return gocbcore.SimAnswer{Kind: "err", Err: gocbcore.ErrTemporaryFailure}
					}
					return gocbcore.SimAnswer{Kind: "drop"}
				}
				return gocbcore.SimAnswer{}
			}
			e := NewDcpEnv(c, o)
			desc := fmt.Sprintf("version %v bucket %v (metadata bucket with the other back end: %v), first DCP connect: %s, REST: %s, dcp.bufferSize=%v", t, k, metaOther, []string{"fine", "rejected", "never answered"}[fault], []string{"fine", "/pools answered 404", "bucket lookup answered 404"}[rest], bufSize)
			vrt.SetOutcome(desc)
			if e.Err != nil {
				if fault == 0 && rest == 0 {
					vrt.Failf("%s: newDcp failed: %v", desc, e.Err)
				}
				return
			}
			if len(c.DcpConfigs) == 0 {
				vrt.Failf("%s: no DCP connection was configured", desc)
				return
			}
			dc := c.DcpConfigs[len(c.DcpConfigs)-1]
			wantExp := geq(t, [4]int{6, 5, 0, 0})
			wantCS := k[1] == "magma" && geq(t, [4]int{7, 2, 0, 0})
			if dc.UseExpiryOpcode != wantExp || dc.UseChangeStreams != wantCS {
				vrt.Failf("%s: the session runs with expiry opcode=%v change streams=%v, the server version gates %v / %v", desc, dc.UseExpiryOpcode, dc.UseChangeStreams, wantExp, wantCS)
			}
		}}
	}
}

// c18_serialclose: the gate "streams are closed one at a time below 5.5.0" observed at the wire, through
// lifecycles and configurations: versions around the gate x {fresh session, a vBucket that went through a
// transient end and a re-open} x close-stream answers {prompt, 3 s} x dcp.connectionTimeout {default, 1 s}.
// Close() returns; below 5.5.0 no two close-stream requests are ever outstanding at the same time, from
// 5.5.0 on they are all sent at once.
func init() {
	scenarios["c18_serialclose"] = func(raw json.RawMessage) *vrt.Scenario {
		return &vrt.Scenario{Name: "c18_serialclose", FreeChoices: true, NoTimerAlt: true, MaxSteps: 400000, Main: func() {
			resetGlobals()
			vs := [][4]int{{4, 6, 5, 0}, {5, 0, 0, 0}, {5, 4, 9, 0}, {5, 5, 0, 0}, {6, 5, 0, 0}, {7, 2, 0, 0}}
			t := vs[vrt.Choose(len(vs), true, "version")]
			reopened := vrt.Choose(2, true, "a-vbucket-was-re-opened-after-a-transient-end") == 1
			slow := vrt.Choose(2, true, "close-stream-answers-take-3s") == 1
			shortTimeout := vrt.Choose(2, true, "dcp.connectionTimeout=1s") == 1
			finite := vrt.Choose(2, true, "dcp.mode=finite") == 1
			o := EnvOpts{Vbs: 3, CheckpointType: "manual", WrapMeta: true, Version: ver(t)}
			if finite {
				o.Mode = config.DcpModeFinite
			}
			if shortTimeout {
				o.ConnectionTimeout = time.Second
			}
			c := NewCluster(&o)
			for vb := uint16(0); vb < 3; vb++ {
				c.Append(vb, marker(1, 1), symbolPacket("M", 1))
			}
			e := NewEnv(c, o)
			e.Cons.AutoAck = true
			if finite {
				// the run is closed before it has reached its end: the consumer is still busy with the first event of
				// every vBucket (the events behind it, and the stream ends, wait in the DCP queue)
				e.Cons.OnConsume = func(d *Delivered) { vrt.Sleep(time.Hour) }
				for vb := uint16(0); vb < 3; vb++ {
					c.Append(vb, marker(2, 2), symbolPacket("M", 2))
				}
				reopened = false
			}
			e.Stream.Open()
			if !finite {
				c.WaitIdle()
			}
			desc := fmt.Sprintf("server %v, re-opened vBucket: %v, slow close answers: %v, connectionTimeout 1s: %v, finite: %v", t, reopened, slow, shortTimeout, finite)
			vrt.SetOutcome(desc)
			if reopened {
				c.EndStream(1, gocbcore.ErrDCPStreamStateChanged)
				vrt.Sleep(2 * time.Second)
				vrt.Quiesce()
				c.WaitIdle()
				if !c.StreamOpen(1) {
					vrt.Failf("%s: vb1 was not re-opened after a transient end", desc)
					return
				}
			}
			if slow {
				c.Fault = func(r *gocbcore.SimRequest) gocbcore.SimAnswer {
					if r.Kind == "closestream" {
						return gocbcore.SimAnswer{Kind: "delay", Delay: 3 * time.Second}
					}
					return gocbcore.SimAnswer{}
				}
			}
			n0 := len(c.Requests)
			closed := false
			vrt.GoNamed("closer", func() { e.Stream.Close(true); closed = true })
			vrt.Sleep(5 * time.Minute)
			vrt.Quiesce()
			if !closed {
				vrt.Failf("%s: Close() did not return; blocked: %v", desc, vrt.BlockedThreads())
				return
			}
			var cs []*gocbcore.SimRequest
			for _, r := range c.Requests[n0:] {
				if r.Kind == "closestream" {
					cs = append(cs, r)
				}
			}
			if len(cs) != 3 {
				vrt.Failf("%s: %d close-stream requests for 3 streams", desc, len(cs))
			}
			overlap := false
			for i := range cs {
				for j := i + 1; j < len(cs); j++ {
					fi, fj := cs[i].Finished, cs[j].Finished
					if fi == 0 {
						fi = 1 << 62
					}
					if fj == 0 {
						fj = 1 << 62
					}
					if cs[i].Issued < fj && cs[j].Issued < fi && (cs[i].Issued != fi || cs[j].Issued != fj) {
						overlap = true
					}
				}
			}
			serial := lexLess(t, [4]int{5, 5, 0, 0})
			if serial && overlap {
				vrt.Failf("%s: two close-stream requests were outstanding at the same time on a server below 5.5.0", desc)
			}
			if !serial && slow && !overlap {
				vrt.Failf("%s: the close-stream requests were sent one at a time on a server at or above 5.5.0", desc)
			}
		}}
	}
}

// c18_restversion: "version strings parse to the tuple they denote" on the path a session actually uses: the
// REST answer of the cluster -> GetVersion() -> the version the client works with. For every rendering the
// client's version is what the parser makes of the reported string - a string the parser rejects fails the
// construction.
func init() {
	scenarios["c18_restversion"] = func(raw json.RawMessage) *vrt.Scenario {
		return &vrt.Scenario{Name: "c18_restversion", FreeChoices: true, NoTimerAlt: true, MaxSteps: 2_000_000, Main: func() {
			strs := []string{
				"7.2.0-5325-enterprise", "7.2.0-5325-community", "6.5.0-4960-enterprise", "5.0.1-5003-enterprise", "7.6.2-3721-rel-enterprise",
				"7.2.0-5325", "6.5.0-1", "7.2.0", "6.5", "7",
				"6.5-4960", "6.5-4960-enterprise", "7.2-x-enterprise", "7.2.0-", "-5325-enterprise", "7.2.0-53a5-enterprise", "v7.2.0-5325-enterprise", "", "7..0-1-enterprise",
			}
			s := strs[vrt.Choose(len(strs), true, "reported-version-string")]
			resetGlobals()
			want, perr := couchbase.VerifParseVersion(s)
			o := DcpOpts{ServerVersion: s}
			o.Vbs = 1
			o.CheckpointType = "manual"
			c := NewCluster(&o.EnvOpts)
			if s == "" {
				o.ServerVersion = "<empty>" // (the harness default would replace an empty string; the loopback server reports "")
			}
			vrt.SetOutcome(fmt.Sprintf("%q parser: %v %v", s, want, perr))
			e := NewDcpEnv(c, o)
			if perr != nil {
				if e.Err == nil {
					vrt.Failf("the cluster reports the version %q, which the parser rejects (%v); the client was constructed with version %+v", s, perr, e.D.GetVersion())
				}
				return
			}
			if e.Err != nil {
				vrt.Failf("the cluster reports the well-formed version %q (= %+v): construction failed: %v", s, *want, e.Err)
				return
			}
			if got := e.D.GetVersion(); got == nil || *got != *want {
				vrt.Failf("the cluster reports the version %q = %+v; the client works with %+v", s, *want, got)
			}
		}, Classify: func(r *vrt.Result) []string {
			if r.Status == vrt.StatusCrash && strings.Contains(r.Outcome, "parser: <nil>") {
				r.Failures = nil
				return nil // a rejected string terminated the construction
			}
			if r.Status != vrt.StatusOK {
				m := "execution ended with status " + r.Status.String()
				if r.Crash != nil {
					m += ": " + r.Crash.Value
				}
				return []string{m}
			}
			return nil
		}}
	}
}

// c18_shrinkclose: the version gate decides HOW the streams of a session are closed, never WHICH: a rebalance that
// shrinks this member's assignment (dynamic membership, 1/1 -> 1/2 of 4 vBuckets) closes every stream the
// session had opened, on servers on either side of 5.5.0; afterwards exactly the new assignment is streamed.
func init() {
	scenarios["c18_shrinkclose"] = func(raw json.RawMessage) *vrt.Scenario {
		return &vrt.Scenario{Name: "c18_shrinkclose", FreeChoices: true, NoTimerAlt: true, MaxSteps: 400000, Main: func() {
			resetGlobals()
			vs := [][4]int{{4, 6, 5, 0}, {5, 0, 1, 0}, {5, 4, 9, 0}, {5, 5, 0, 0}, {6, 5, 0, 0}, {7, 2, 0, 0}}
			t := vs[vrt.Choose(len(vs), true, "version")]
			to := [][2]int{{1, 2}, {2, 2}, {1, 4}}[vrt.Choose(3, true, "new-numbering")]
			o := EnvOpts{Vbs: 4, CheckpointType: "manual", MembershipType: "dynamic", WrapMeta: true, Version: ver(t)}
			c := NewCluster(&o)
			for vb := uint16(0); vb < 4; vb++ {
				c.Append(vb, marker(1, 1), symbolPacket("M", 1))
			}
			e := NewEnv(c, o)
			e.Cons.AutoAck = true
			publishInfo(e, 1, 1)
			vrt.Sleep(1)
			e.Stream.Open()
			c.WaitIdle()
			desc := fmt.Sprintf("server %v, member 1/1 of 4 vBuckets becomes %d/%d", t, to[0], to[1])
			vrt.SetOutcome(desc)
			n0 := len(c.Requests)
			publishInfo(e, to[0], to[1])
			vrt.Sleep(1)
			e.Stream.Rebalance()
			vrt.Sleep(5 * time.Second)
			vrt.Quiesce()
			c.WaitIdle()
			closedReq := map[uint16]bool{}
			for _, r := range c.Requests[n0:] {
				if r.Kind == "closestream" {
					closedReq[r.Vb] = true
				}
			}
			for vb := uint16(0); vb < 4; vb++ {
				if !closedReq[vb] {
					vrt.Failf("%s: the stream of vb%d, opened by the first session, was never asked to close", desc, vb)
				}
			}
			want := map[[2]int][2]uint16{{1, 2}: {0, 1}, {2, 2}: {2, 3}, {1, 4}: {0, 0}}[to]
			for vb := uint16(0); vb < 4; vb++ {
				in := vb >= want[0] && vb <= want[1]
				if c.StreamOpen(vb) != in {
					vrt.Failf("%s: after the rebalance vb%d streamed=%v, the new assignment is %d..%d", desc, vb, c.StreamOpen(vb), want[0], want[1])
				}
			}
			e.Stream.Close(false)
		}}
	}
}
