package main

import (
	"encoding/json"
	"fmt"
	"strings"
	"time"

	"github.com/Trendyol/go-dcp/helpers"
	"github.com/Trendyol/go-dcp/leaderelector"
	"github.com/Trendyol/go-dcp/membership"
	"github.com/Trendyol/go-dcp/models"
	"github.com/Trendyol/go-dcp/servicediscovery"
	"github.com/Trendyol/go-dcp/stream"
	"github.com/asaskevich/EventBus"

	"verif/vrt"
	"verif/vrt/vrpc"
)

// c10_register: the leader-assigned variant over the library's REAL RPC client and handler code (rpc_client.go,
// rpc_server.go; net/rpc replaced by an in-memory transport in which a connection belongs to the server
// incarnation it was dialled to). One leader, one or two followers that register through Handler.Register;
// then a follower dies for good, or dies and is restarted under the same name and address (stateful-set
// style) and registers again - before or after the leader's next heart-beat round. Afterwards every living
// instance holds its number in join order and all agree on the size.

const sdPort = 8081

type rpcNode struct {
	id     *models.Identity
	sd     servicediscovery.ServiceDiscovery
	events [][2]int
	alive  bool
	le     leaderelector.Handler // the real election callbacks of stream/leader_election.go
}

func init() {
	scenarios["c10_register"] = func(raw json.RawMessage) *vrt.Scenario {
		var p RegisterParams
		_ = json.Unmarshal(raw, &p)
		return &vrt.Scenario{Name: "c10_register", Main: func() { registerMain(p) }, FreeChoices: true, MaxSteps: 2_000_000, NoTimerAlt: true, Classify: sdClassify}
	}
}

// RegisterParams: InPhase - the start-up delay of the monitor loop is a multiple of the 5 s period both loops
// share (as with the default rebalanceDelay), so the leader's heart-beat round and its monitor round fall on the
// same instants; otherwise the monitor runs one second after the heart-beat.
type RegisterParams struct {
	InPhase bool `json:"in_phase"`
}

func registerMain(p RegisterParams) {
	resetGlobals()
	vrpc.Reset()
	o := EnvOpts{RebalanceDelay: time.Second}
	if p.InPhase {
		o.RebalanceDelay = 5 * time.Second
	}
	o.defaults()
	addr := func(id *models.Identity) string { return fmt.Sprintf("%s:%d", id.IP, sdPort) }
	var hist []string
	var boot func(name, ip string, join int64) *rpcNode
	listen := true
	boot = func(name, ip string, join int64) *rpcNode {
		n := &rpcNode{id: &models.Identity{IP: ip, Name: name, ClusterJoinTime: join}, alive: true}
		bus := EventBus.New()
		_ = bus.Subscribe(helpers.MembershipChangedBusEventName, func(m *membership.Model) {
			n.events = append(n.events, [2]int{m.MemberNumber, m.TotalMembers})
			// a numbering is announced to the stream only when it differs from the one in effect (every
			// announcement closes and re-opens the stream)
			if k := len(n.events); k >= 2 && n.events[k-1] == n.events[k-2] {
				vrt.Failf("after %v: %s announced the numbering %d/%d although it is already in effect (the stream is interrupted for nothing)", hist, name, m.MemberNumber, m.TotalMembers)
			}
		})
		cfg := o.config()
		cfg.LeaderElection.RPC.Port = sdPort
		n.sd = servicediscovery.NewServiceDiscovery(cfg, bus)
		n.le = stream.VerifLeaderHandler(cfg, n.sd, bus, n.id)
		if listen {
			vrpc.Serve(addr(n.id), servicediscovery.VerifNewHandler(sdPort, n.id, n.sd))
		}
		n.sd.StartHeartbeat()
		n.sd.StartMonitor()
		return n
	}
	leader := boot("L", "10.0.0.1", 1)
	leader.le.OnBecomeLeader()
	// the real OnBecomeFollower: drop everything, connect to the leader, register. It panics when the
	// registration fails (the process dies and is restarted by its supervisor); tryJoin reports that.
	tryJoin := func(n *rpcNode) (died bool) {
		defer func() {
			if r := recover(); r != nil {
				died = true
				hist = append(hist, fmt.Sprintf("register(%s@%d) failed: process exits (%v)", n.id.Name, n.id.ClusterJoinTime, r))
			}
		}()
		n.le.OnBecomeFollower(leader.id)
		hist = append(hist, fmt.Sprintf("register(%s@%d)", n.id.Name, n.id.ClusterJoinTime))
		return false
	}
	join := func(n *rpcNode) {
		if tryJoin(n) {
			vrt.Failf("after %v: the registration of %s failed", hist, n.id.Name)
		}
	}
	kill := func(n *rpcNode) {
		n.alive = false
		vrpc.Kill(addr(n.id))
		n.sd.StopHeartbeat()
		n.sd.StopMonitor()
	}
	nf := 1 + vrt.Choose(2, true, "followers")
	nodes := []*rpcNode{}
	for i := 0; i < nf; i++ {
		f := boot(fmt.Sprintf("F%d", i), fmt.Sprintf("10.0.0.%d", 2+i), int64(100+i))
		nodes = append(nodes, f)
		join(f)
	}
	check := func(when string) {
		var live []*rpcNode
		for _, n := range nodes {
			if n.alive {
				live = append(live, n)
			}
		}
		// join order
		for i := range live {
			for j := i + 1; j < len(live); j++ {
				if live[j].id.ClusterJoinTime < live[i].id.ClusterJoinTime {
					live[i], live[j] = live[j], live[i]
				}
			}
		}
		total := len(live) + 1
		if got := lastOf(leader.events); got != [2]int{1, total} {
			vrt.Failf("%s after %v: the leader holds %v, want 1/%d", when, hist, got, total)
		}
		for i, n := range live {
			if got := lastOf(n.events); got != [2]int{i + 2, total} {
				vrt.Failf("%s after %v: follower %s (joined %d) holds %v, want %d/%d", when, hist, n.id.Name, n.id.ClusterJoinTime, got, i+2, total)
			}
		}
	}
	vrt.Sleep(13 * time.Second)
	vrt.Quiesce()
	check("after registration")
	victim := nodes[vrt.Choose(nf, true, "victim")]
	vrt.Window(true)
	switch vrt.Choose(8, true, "disturbance") {
	case 0:
	case 7:
		// transient call failures: the next one or two calls to one follower fail (busy handler, lost request),
		// the connection stays up. A ping is attempted three times: nobody is dropped, the numbering stays.
		n := 1 + vrt.Choose(2, true, "failed-calls")
		vrpc.FailCalls(addr(victim.id), n)
		hist = append(hist, fmt.Sprintf("the next %d call(s) to %s fail", n, victim.id.Name))
	case 6:
		// one follower's connection TO the leader breaks while that follower cannot be dialled for a while (its
		// listener is unreachable; the leader's established connection to it keeps working). The follower
		// notices, reconnects, registers again; the leader cannot dial back and answers with an error. Nobody
		// died: the numbering in effect stays what it is (the leader still reaches the follower over the old
		// connection).
		vrpc.ResetTo(addr(leader.id))
		vrpc.Refuse(addr(victim.id), true)
		hist = append(hist, fmt.Sprintf("connections to the leader reset, %s not reachable for new connections for 12 s", victim.id.Name))
		vrt.Sleep(12 * time.Second)
		vrpc.Refuse(addr(victim.id), false)
		if nf == 2 && vrt.Choose(2, true, "then-the-other-follower-dies") == 1 {
			// a later change of the group: the follower that gave up on its leader connection is still a member
			// (the leader reaches it) and has to learn the new numbering
			for _, n := range nodes {
				if n != victim && n.alive {
					kill(n)
					hist = append(hist, "then dies("+n.id.Name+")")
					break
				}
			}
		}
	case 5:
		// a new instance registers while its own RPC listener is not reachable yet: the leader cannot connect
		// back, the registration fails, the process exits and is restarted by its supervisor - this time with
		// the listener up. It is admitted then.
		listen = false
		nw := boot(fmt.Sprintf("F%d", nf), fmt.Sprintf("10.0.0.%d", 2+nf), 200)
		listen = true
		hist = append(hist, "new instance, listener not reachable yet")
		if tryJoin(nw) {
			nw.sd.StopHeartbeat()
			nw.sd.StopMonitor()
			nw = boot(nw.id.Name, nw.id.IP, 201)
			hist = append(hist, "restarted")
			join(nw)
		} else {
			// the registration was accepted: from now on the listener is up (it came up a moment later)
			vrpc.Serve(addr(nw.id), servicediscovery.VerifNewHandler(sdPort, nw.id, nw.sd))
		}
		nodes = append(nodes, nw)
	case 4:
		// leader fail-over: the leader dies, a new instance takes over the lease; every follower is told
		// (OnBecomeFollower: drop the old leader, connect to the new one, register). The new leader numbers
		// the followers as before - for them nothing changes.
		kill(leader)
		leader = boot("L2", "10.0.0.9", 2)
		// the new leader's own OnBecomeLeader callback runs on the elector's thread (after a Kubernetes API
		// call); the followers see the new lease holder at once: their registrations are served before or
		// after that callback
		cbAfter := vrt.Choose(nf+1, true, "registrations-served-before-the-become-leader-callback")
		served := 0
		if cbAfter == 0 {
			leader.le.OnBecomeLeader()
		}
		for _, n := range nodes {
			if n.alive {
				join(n)
				served++
				if served == cbAfter {
					leader.le.OnBecomeLeader()
				}
			}
		}
		hist = append(hist, fmt.Sprintf("leader-failover(callback after %d registrations)", cbAfter))
	case 3:
		// a network interruption resets every connection; all processes stay alive. The leader drops the
		// followers it cannot ping; each follower notices that its leader connection is dead, reconnects and
		// registers again.
		vrpc.Blip()
		hist = append(hist, "network-blip")
	case 1:
		kill(victim)
		hist = append(hist, "dies("+victim.id.Name+")")
	case 2:
		kill(victim)
		hist = append(hist, "dies("+victim.id.Name+")")
		if vrt.Choose(2, true, "leader-round-before-restart") == 1 {
			vrt.Sleep(6 * time.Second)
			hist = append(hist, "+6s")
		}
		nw := boot(victim.id.Name, victim.id.IP, 300)
		nodes = append(nodes, nw)
		join(nw)
	}
	vrt.Sleep(23 * time.Second)
	vrt.Quiesce()
	vrt.Window(false)
	check("after the disturbance")
	for _, n := range append([]*rpcNode{leader}, nodes...) {
		n.sd.StopMonitor()
		n.sd.StopHeartbeat()
	}
	vrt.SetOutcome(fmt.Sprintf("%v|%v", hist, lastOf(leader.events)))
}

// c13_sdstop: the service-discovery part of the shutdown (dcp.close(): StopMonitor, StopHeartbeat) while a peer
// has stopped answering without closing its connections - a ping or a numbering call to it never returns
// (net/rpc calls have no deadline). The shutdown does not wait for such a call: it returns in bounded time
// whenever it arrives, also while the heart-beat round is parked inside the call.
func init() {
	scenarios["c13_sdstop"] = func(raw json.RawMessage) *vrt.Scenario {
		return &vrt.Scenario{Name: "c13_sdstop", FreeChoices: true, MaxSteps: 2_000_000, NoTimerAlt: true, Classify: sdClassify, Main: func() {
			resetGlobals()
			vrpc.Reset()
			o := EnvOpts{RebalanceDelay: time.Second}
			o.defaults()
			addr := func(id *models.Identity) string { return fmt.Sprintf("%s:%d", id.IP, sdPort) }
			boot := func(name, ip string, join int64) *rpcNode {
				n := &rpcNode{id: &models.Identity{IP: ip, Name: name, ClusterJoinTime: join}, alive: true}
				bus := EventBus.New()
				cfg := o.config()
				cfg.LeaderElection.RPC.Port = sdPort
				n.sd = servicediscovery.NewServiceDiscovery(cfg, bus)
				n.le = stream.VerifLeaderHandler(cfg, n.sd, bus, n.id)
				vrpc.Serve(addr(n.id), servicediscovery.VerifNewHandler(sdPort, n.id, n.sd))
				n.sd.StartHeartbeat()
				n.sd.StartMonitor()
				return n
			}
			leader := boot("L", "10.0.0.1", 1)
			leader.le.OnBecomeLeader()
			f := boot("F0", "10.0.0.2", 100)
			f.le.OnBecomeFollower(leader.id)
			vrt.Sleep(12 * time.Second)
			who := vrt.Choose(2, true, "who-shuts-down") // 0: the leader while the follower hangs, 1: the follower while the leader hangs
			closing, hung := leader, f
			if who == 1 {
				closing, hung = f, leader
			}
			k := vrt.Choose(8, true, "seconds-after-the-peer-stopped-answering")
			vrpc.Hang(addr(hung.id), true)
			vrt.Sleep(time.Duration(k) * time.Second)
			returned := false
			vrt.GoNamed("shutdown", func() {
				// (the order of dcp.close())
				closing.sd.StopMonitor()
				closing.sd.StopHeartbeat()
				returned = true
			})
			vrt.Sleep(10 * time.Minute)
			desc := fmt.Sprintf("%s shuts down %d s after %s stopped answering (connections up)", closing.id.Name, k, hung.id.Name)
			if !returned {
				vrt.Failf("%s: the service-discovery part of Close() has not returned after 10 virtual minutes; blocked: %s", desc, strings.Join(vrt.BlockedThreads(), " | "))
			}
			hung.sd.StopMonitor()
			hung.sd.StopHeartbeat()
			vrt.SetOutcome(desc)
		}}
	}
}
