package main

import (
	"fmt"

	_ "github.com/Trendyol/go-dcp"
	"github.com/couchbase/gocbcore/v10"
)

func main() { fmt.Println(gocbcore.NewSimCluster(1, 2, 0) != nil) }
