// vcheck: decides the go-dcp properties by exhaustive exploration of the real (instrumented) code.
//
//	vcheck check <property> <quick|thorough>     master: runs every scenario of the property, writes evidence
//	vcheck worker ...                            one shard of one scenario (spawned by the master)
//	vcheck replay <file>                         re-executes a recorded violation 5x with labels
package main

import (
	"bytes"
	"encoding/json"
	"flag"
	"fmt"
	"os"
	"os/exec"
	"path/filepath"
	"runtime"
	"runtime/debug"
	"sort"
	"strconv"
	"strings"
	"sync"
	"time"

	"verif/vrt"
)

// Instance is one closed scenario instance (a named scenario with parameters).
type Instance struct {
	Scenario string          `json:"scenario"`
	Params   json.RawMessage `json:"params"`
	Bound    int             `json:"bound"`
	Shards   int             `json:"shards"`   // worker processes for this instance (default 1)
	Seconds  int             `json:"seconds"`  // per-worker time budget (0 = tier default)
	MaxExec  int64           `json:"max_exec"` // per-worker execution cap (0 = none)
	Note     string          `json:"note,omitempty"`
}

// ScenarioFactory builds the runnable scenario from parameters.
type ScenarioFactory func(params json.RawMessage) *vrt.Scenario

var scenarios = map[string]ScenarioFactory{}

// Property describes how one property is decided.
type Property struct {
	ID        string
	Technique string
	Rule      string
	Assume    []string
	// Instances enumerates the scenario instances of a tier.
	Instances func(tier string) []Instance
	// Pure runs scheduler-free exhaustive enumerations (E3); returns stats.
	Pure func(tier string) *PureResult
}

// PureResult is the outcome of a scheduler-free exhaustive enumeration.
type PureResult struct {
	Evaluations int64
	Distinct    int64
	States      int64
	Transitions int64
	Samples     []any
	Violations  []vrt.Violation
	Exhaustive  bool
	Notes       []string
}

var properties = map[string]*Property{}

func register(p *Property) { properties[p.ID] = p }

func mustJSON(v any) json.RawMessage {
	b, err := json.Marshal(v)
	if err != nil {
		panic(err)
	}
	return b
}

func main() {
	if len(os.Args) < 2 {
		fmt.Fprintln(os.Stderr, "usage: vcheck check|worker|replay|list ...")
		os.Exit(2)
	}
	switch os.Args[1] {
	case "check":
		os.Exit(cmdCheck(os.Args[2:]))
	case "worker":
		os.Exit(cmdWorker(os.Args[2:]))
	case "replay":
		os.Exit(cmdReplay(os.Args[2:]))
	case "list":
		ids := []string{}
		for id := range properties {
			ids = append(ids, id)
		}
		sort.Strings(ids)
		fmt.Println(strings.Join(ids, " "))
	default:
		fmt.Fprintln(os.Stderr, "unknown command", os.Args[1])
		os.Exit(2)
	}
}

// ---- worker ---------------------------------------------------------------------------------------------

func cmdWorker(args []string) int {
	fs := flag.NewFlagSet("worker", flag.ExitOnError)
	inst := fs.String("instance", "", "instance JSON")
	shard := fs.Int("shard", 0, "")
	shards := fs.Int("shards", 1, "")
	seconds := fs.Int("seconds", 60, "")
	_ = fs.Parse(args)
	var in Instance
	if err := json.Unmarshal([]byte(*inst), &in); err != nil {
		fmt.Fprintln(os.Stderr, "bad instance:", err)
		return 2
	}
	f, ok := scenarios[in.Scenario]
	if !ok {
		fmt.Fprintln(os.Stderr, "unknown scenario", in.Scenario)
		return 2
	}
	runtime.GOMAXPROCS(1) // one P: faster hand-offs and deterministic sync.Pool behaviour
	sc := f(in.Params)
	sc.Bound = in.Bound
	e := &vrt.Explorer{Sc: sc, Shard: *shard, Shards: *shards, MaxExec: in.MaxExec}
	if *seconds > 0 {
		e.Deadline = time.Now().Add(time.Duration(*seconds) * time.Second)
	}
	st := e.Explore()
	out, _ := json.Marshal(st)
	os.Stdout.Write(out)
	return 0
}

// ---- replay ---------------------------------------------------------------------------------------------

// ReplayFile is a self-contained violation artefact.
type ReplayFile struct {
	Property  string        `json:"property"`
	Instance  Instance      `json:"instance"`
	Violation vrt.Violation `json:"violation"`
	Pure      bool          `json:"pure,omitempty"`
}

func cmdReplay(args []string) int {
	if len(args) < 1 {
		fmt.Fprintln(os.Stderr, "usage: vcheck replay <file>")
		return 2
	}
	b, err := os.ReadFile(args[0])
	if err != nil {
		fmt.Fprintln(os.Stderr, err)
		return 2
	}
	var rf ReplayFile
	if err := json.Unmarshal(b, &rf); err != nil {
		fmt.Fprintln(os.Stderr, err)
		return 2
	}
	if rf.Pure {
		fmt.Printf("pure-enumeration violation of %s:\n", rf.Property)
		for _, m := range rf.Violation.Messages {
			fmt.Println("  ", m)
		}
		fmt.Println("re-run: bin/check", rf.Property, "quick")
		return 1
	}
	f, ok := scenarios[rf.Instance.Scenario]
	if !ok {
		fmt.Fprintln(os.Stderr, "unknown scenario", rf.Instance.Scenario)
		return 2
	}
	verbose = true
	var first string
	reproduced := 0
	for i := 0; i < 5; i++ {
		sc := f(rf.Instance.Params)
		sc.Bound = rf.Instance.Bound
		e := &vrt.Explorer{Sc: sc}
		r := e.RunOnce(rf.Violation.Choices, true)
		msgs := e.Check(r)
		obs := fmt.Sprintf("%s|%v|%v", r.Status, msgs, r.Log)
		if i == 0 {
			first = obs
			fmt.Printf("status=%s outcome=%s\n", r.Status, r.Outcome)
			for _, p := range r.Trace {
				if p.Chosen != 0 {
					fmt.Printf("  deviation: alt %d of %d at %s\n", p.Chosen, p.N, p.Label)
				}
			}
			for _, l := range r.Log {
				fmt.Println("  log:", l)
			}
			if r.Crash != nil {
				fmt.Printf("  crash in %s: %s\n%s\n", r.Crash.Thread, r.Crash.Value, r.Crash.Stack)
			}
			for _, bl := range r.Blocked {
				fmt.Println("  blocked:", bl)
			}
			for _, m := range msgs {
				fmt.Println("  VIOLATED:", m)
			}
		} else if obs != first {
			fmt.Fprintln(os.Stderr, "replay diverged between runs (engine error)")
			return 2
		}
		if len(msgs) > 0 {
			reproduced++
		}
	}
	fmt.Printf("reproduced %d/5\n", reproduced)
	if reproduced == 5 {
		return 1
	}
	return 0
}

// ---- master ---------------------------------------------------------------------------------------------

type knownFinding struct {
	Property   string   `json:"property"`
	Match      string   `json:"match"`               // substring every oracle message of the violation must contain
	MatchAll   []string `json:"match_all,omitempty"` // further substrings, all required
	ExecStatus string   `json:"exec_status"`         // execution status of the failing run (ok, deadlock, crash)
	CrashMatch string   `json:"crash_match,omitempty"`
	What       string   `json:"what"`
	Status     string   `json:"status"` // "known" or "fixed" (fixed entries suppress nothing)
}

// knownMatch returns the finding that explains v completely (every message), or nil.
func knownMatch(known []knownFinding, id string, v *vrt.Violation) *knownFinding {
	var hit *knownFinding
	for _, m := range v.Messages {
		found := false
		for i := range known {
			k := &known[i]
			if k.Status != "known" || k.Property != id || k.Match == "" {
				continue
			}
			st := k.ExecStatus
			if st == "" {
				st = "ok"
			}
			if st != v.Status || !strings.Contains(m, k.Match) {
				continue
			}
			all := true
			for _, sub := range k.MatchAll {
				if !strings.Contains(m, sub) {
					all = false
				}
			}
			if !all {
				continue
			}
			if k.CrashMatch != "" && (v.Crash == nil || !strings.Contains(v.Crash.Value+v.Crash.Stack, k.CrashMatch)) {
				continue
			}
			found = true
			hit = k
		}
		if !found {
			return nil
		}
	}
	return hit
}

func loadKnown() []knownFinding {
	b, err := os.ReadFile(filepath.Join(verifDir(), "known_findings.json"))
	if err != nil {
		return nil
	}
	var out struct {
		Findings []knownFinding `json:"findings"`
	}
	if err := json.Unmarshal(b, &out); err != nil {
		fmt.Fprintln(os.Stderr, "known_findings.json:", err)
		os.Exit(2)
	}
	return out.Findings
}

func verifDir() string {
	if d := os.Getenv("VERIF_DIR"); d != "" {
		return d
	}
	return "/verif"
}

type job struct {
	inst  Instance
	shard int
	stats *vrt.Stats
	err   error
}

func cmdCheck(args []string) int {
	if len(args) < 2 {
		fmt.Fprintln(os.Stderr, "usage: vcheck check <property> <quick|thorough>")
		return 2
	}
	id, tier := args[0], args[1]
	p, ok := properties[id]
	if !ok {
		fmt.Fprintln(os.Stderr, "unknown property", id)
		return 2
	}
	start := time.Now()
	seed := 0
	if s := os.Getenv("VERIF_SEED"); s != "" {
		seed, _ = strconv.Atoi(s)
	}
	total := vrt.NewStats()
	var perInstance []map[string]any
	engineErr := false

	if p.Instances != nil {
		insts := p.Instances(tier)
		if only := os.Getenv("VERIF_ONLY"); only != "" { // development aid: run the instances of one scenario only
			var f []Instance
			for _, in := range insts {
				if in.Scenario == only {
					f = append(f, in)
				}
			}
			insts = f
		}
		defSeconds := 90
		if tier == "thorough" {
			defSeconds = 900
		}
		var jobs []*job
		for _, in := range insts {
			if in.Shards <= 0 {
				in.Shards = 1
			}
			if in.Seconds == 0 {
				in.Seconds = defSeconds
			}
			for s := 0; s < in.Shards; s++ {
				jobs = append(jobs, &job{inst: in, shard: s})
			}
		}
		par := runtime.NumCPU()
		if par > 16 {
			par = 16
		}
		sem := make(chan struct{}, par)
		var wg sync.WaitGroup
		// run the workers from a private copy of this binary: the build cache may be rotated by other
		// invocations while a long exploration is still spawning workers
		self, cleanup := privateCopy()
		defer cleanup()
		for _, j := range jobs {
			wg.Add(1)
			sem <- struct{}{}
			go func(j *job) {
				defer wg.Done()
				defer func() { <-sem }()
				ib, _ := json.Marshal(j.inst)
				cmd := exec.Command(self, "worker", "-instance", string(ib), "-shard", strconv.Itoa(j.shard),
					"-shards", strconv.Itoa(j.inst.Shards), "-seconds", strconv.Itoa(j.inst.Seconds))
				cmd.Env = append(os.Environ(), "GOMAXPROCS=1")
				var out, errb bytes.Buffer
				cmd.Stdout, cmd.Stderr = &out, &errb
				if err := cmd.Run(); err != nil {
					j.err = fmt.Errorf("%v: %s", err, tail(errb.String(), 2000))
					return
				}
				st := vrt.NewStats()
				if err := json.Unmarshal(out.Bytes(), st); err != nil {
					j.err = fmt.Errorf("worker output: %v: %s", err, tail(out.String(), 500))
					return
				}
				j.stats = st
			}(j)
		}
		wg.Wait()
		// merge per instance
		byInst := map[string]*vrt.Stats{}
		order := []string{}
		instOf := map[string]Instance{}
		for _, j := range jobs {
			key := j.inst.Scenario + "|" + string(j.inst.Params) + "|" + strconv.Itoa(j.inst.Bound)
			if j.err != nil {
				fmt.Fprintf(os.Stderr, "ENGINE ERROR in %s shard %d: %v\n", j.inst.Scenario, j.shard, j.err)
				engineErr = true
				continue
			}
			if _, ok := byInst[key]; !ok {
				byInst[key] = vrt.NewStats()
				order = append(order, key)
				instOf[key] = j.inst
			}
			byInst[key].Merge(j.stats)
		}
		for _, key := range order {
			st := byInst[key]
			in := instOf[key]
			// violations carry their instance for replay
			for i := range st.Violations {
				st.Violations[i].Scenario = in.Scenario
			}
			perInstance = append(perInstance, map[string]any{
				"scenario": in.Scenario, "params": in.Params, "bound": in.Bound, "note": in.Note,
				"executions": st.Executions, "points": st.Points, "distinct_outcomes": len(st.Outcomes),
				"status_count": st.StatusCount, "exhaustive": st.Exhaustive, "cap_hit": st.CapHit,
				"max_points_per_execution": st.MaxPoints, "violations": st.ViolCount,
			})
			writeViolations(id, in, st, false)
			total.Merge(st)
		}
	}

	var pure *PureResult
	if p.Pure != nil && os.Getenv("VERIF_ONLY") == "" {
		pure = runPure(p, id, tier)
		if !pure.Exhaustive {
			total.Exhaustive = false
		}
		st := vrt.NewStats()
		st.Violations = pure.Violations
		st.ViolCount = int64(len(pure.Violations))
		writeViolations(id, Instance{Scenario: "pure"}, st, true)
		total.ViolCount += st.ViolCount
		total.Violations = append(total.Violations, pure.Violations...)
	}

	// classify violations against the known-findings file
	known := loadKnown()
	newViol := 0
	seenKnown := map[string]bool{}
	for _, v := range allViolations {
		isKnown := false
		if k := knownMatch(known, id, &v.v); k != nil {
			isKnown = true
			if !seenKnown[k.What] {
				seenKnown[k.What] = true
				fmt.Printf("KNOWN-FINDING: property=%s %s\n", id, k.What)
			}
		}
		if !isKnown {
			newViol++
			fmt.Printf("VIOLATION property=%s replay=%s\n", id, v.path)
			for _, m := range v.v.Messages {
				fmt.Printf("  %s\n", m)
			}
		}
	}
	// every listed finding of this property is reported, also when this tier / run did not reach it
	for _, k := range known {
		if k.Property == id && k.Status == "known" && !seenKnown[k.What] {
			seenKnown[k.What] = true
			fmt.Printf("KNOWN-FINDING: property=%s %s [listed; not reproduced by this run]\n", id, k.What)
		}
	}

	// evidence
	cov := map[string]any{}
	distinct := int64(len(total.Outcomes))
	evals := total.Executions
	states := int64(len(total.Outcomes))
	trans := total.Points + total.Executions
	var samples []any
	for _, s := range total.Samples {
		samples = append(samples, s)
	}
	if pure != nil {
		evals += pure.Evaluations
		distinct += pure.Distinct
		states += pure.States
		trans += pure.Transitions
		samples = append(samples, pure.Samples...)
		cov["pure_notes"] = pure.Notes
	}
	if len(samples) == 0 {
		samples = append(samples, "none")
	}
	cov["evaluations"] = evals
	cov["distinct_nontrivial"] = distinct
	cov["states"] = states
	cov["transitions"] = trans
	cov["traces_validated_against_impl"] = total.Executions
	cov["rule"] = p.Rule
	cov["samples"] = samples
	cov["exhaustive"] = total.Exhaustive && !engineErr
	cov["cap_hit"] = total.CapHit
	cov["executions"] = total.Executions
	cov["scheduling_points"] = total.Points
	cov["distinct_outcomes"] = len(total.Outcomes)
	cov["status_count"] = total.StatusCount
	cov["instances"] = perInstance
	cov["technique"] = p.Technique
	ev := map[string]any{
		"property_id": id, "tier": tier, "seed": seed, "level": "model_checking",
		"coverage": cov, "assumptions": p.Assume, "wall_s": time.Since(start).Seconds(),
		"violations": newViol,
	}
	eb, _ := json.MarshalIndent(ev, "", " ")
	_ = os.MkdirAll(filepath.Join(verifDir(), "evidence"), 0o755)
	if err := os.WriteFile(filepath.Join(verifDir(), "evidence", id+".json"), eb, 0o644); err != nil {
		fmt.Fprintln(os.Stderr, err)
		return 2
	}
	fmt.Printf("%s %s: executions=%d points=%d outcomes=%d pure_evals=%d exhaustive=%v violations=%d wall=%.1fs\n",
		id, tier, total.Executions, total.Points, len(total.Outcomes), evals-total.Executions, cov["exhaustive"], newViol, time.Since(start).Seconds())
	if engineErr {
		return 2
	}
	if newViol > 0 {
		return 1
	}
	return 0
}

func privateCopy() (string, func()) {
	self, err := os.Executable()
	if err != nil {
		return self, func() {}
	}
	dir := filepath.Join(verifDir(), ".cache", "run")
	if os.MkdirAll(dir, 0o755) != nil {
		return self, func() {}
	}
	// drop copies left behind by killed runs
	if ents, err := os.ReadDir(dir); err == nil {
		for _, e := range ents {
			if info, err := e.Info(); err == nil && time.Since(info.ModTime()) > 12*time.Hour {
				os.Remove(filepath.Join(dir, e.Name()))
			}
		}
	}
	dst := filepath.Join(dir, fmt.Sprintf("vcheck-%d", os.Getpid()))
	if os.Link(self, dst) != nil {
		b, err := os.ReadFile(self)
		if err != nil || os.WriteFile(dst, b, 0o755) != nil {
			return self, func() {}
		}
	}
	return dst, func() { os.Remove(dst) }
}

type recordedViolation struct {
	v    vrt.Violation
	path string
}

var allViolations []recordedViolation

func writeViolations(id string, in Instance, st *vrt.Stats, pure bool) {
	seen := map[string]bool{}
	for _, v := range st.Violations {
		if seen[v.Key] {
			continue // one artefact per fingerprint and instance
		}
		seen[v.Key] = true
		rf := ReplayFile{Property: id, Instance: in, Violation: v, Pure: pure}
		b, _ := json.MarshalIndent(rf, "", " ")
		h := vrtHash(string(b))
		dir := filepath.Join(verifDir(), "replays")
		_ = os.MkdirAll(dir, 0o755)
		path := filepath.Join(dir, fmt.Sprintf("%s-%s.json", id, h))
		_ = os.WriteFile(path, b, 0o644)
		allViolations = append(allViolations, recordedViolation{v: v, path: path})
	}
}

func vrtHash(s string) string {
	var h uint64 = 1469598103934665603
	for i := 0; i < len(s); i++ {
		h ^= uint64(s[i])
		h *= 1099511628211
	}
	return strconv.FormatUint(h, 16)
}

func tail(s string, n int) string {
	if len(s) > n {
		return s[len(s)-n:]
	}
	return s
}

// runPure runs the enumeration kernel of a property; a panic of the code under test inside it is a violation
// (with the panic value and the innermost frames as its message), not a broken check.
func runPure(p *Property, id, tier string) (res *PureResult) {
	defer func() {
		if r := recover(); r != nil {
			var frames []string
			for _, l := range strings.Split(string(debug.Stack()), "\n") {
				if i := strings.Index(l, "github.com/Trendyol/go-dcp/"); i >= 0 && !strings.HasPrefix(l, "\t") {
					f := l[i+len("github.com/Trendyol/go-dcp/"):]
					if j := strings.Index(f, "("); j > 0 && !strings.HasPrefix(f[j:], "(*") {
						f = f[:j]
					}
					frames = append(frames, f)
				}
				if len(frames) == 3 {
					break
				}
			}
			res = &PureResult{Exhaustive: false}
			res.Violations = append(res.Violations, pureViolation(id, fmt.Sprintf("the enumeration was stopped by a panic of the code under test: %v (at %s)", r, strings.Join(frames, " <- "))))
		}
	}()
	return p.Pure(tier)
}
