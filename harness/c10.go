package main

import (
	"context"
	"encoding/json"
	"fmt"
	"github.com/couchbase/gocbcore/v10/memd"
	"os"
	"sort"
	"strings"
	"time"

	dcp "github.com/Trendyol/go-dcp"
	"github.com/Trendyol/go-dcp/api"
	"github.com/Trendyol/go-dcp/config"
	"github.com/Trendyol/go-dcp/couchbase"
	"github.com/Trendyol/go-dcp/helpers"
	"github.com/Trendyol/go-dcp/kubernetes"
	"github.com/Trendyol/go-dcp/membership"
	"github.com/Trendyol/go-dcp/servicediscovery"
	"github.com/Trendyol/go-dcp/stream"
	"github.com/asaskevich/EventBus"
	"github.com/couchbase/gocbcore/v10"
	"github.com/prometheus/client_golang/prometheus"

	"verif/vrt"
)

// C10 — group members derive a consistent, collision-free numbering.

type CBParams struct {
	Initial int    `json:"initial"`
	Event   string `json:"event"` // none join die leave
	Perms   int    `json:"perms"` // rounds whose monitor order is enumerated
	// Timing: 0 = default heart-beat interval / tolerance (10s + 60s); 1 = 1s + 1500ms (a fractional number of
	// seconds); 2 = 500ms + 400ms (less than one second in total)
	Timing int `json:"timing"`
}

type cbInst struct {
	m       membership.Membership
	bus     EventBus.Bus
	events  [][2]int
	alive   bool
	mute    bool // its heart-beats no longer reach the bucket, the process goes on
	joinIdx int
}

func perms(n int) [][]int {
	if n == 0 {
		return [][]int{{}}
	}
	var out [][]int
	for _, p := range perms(n - 1) {
		for i := 0; i <= len(p); i++ {
			q := append(append(append([]int{}, p[:i]...), n-1), p[i:]...)
			out = append(out, q)
		}
	}
	return out
}

func init() {
	scenarios["c10_cb"] = func(raw json.RawMessage) *vrt.Scenario {
		var p CBParams
		_ = json.Unmarshal(raw, &p)
		sc := &vrt.Scenario{Name: "c10_cb", Main: func() { cbMain(p) }, FreeChoices: true, MaxSteps: 2_000_000, NoTimerAlt: true}
		if p.Event == "hblost" {
			// an instance whose heart-beats no longer reach the bucket finds itself missing from the group: it
			// must stop (fail-stop) rather than go on streaming the share of a numbering that is no longer valid
			sc.Classify = func(r *vrt.Result) []string {
				if r.Status == vrt.StatusCrash && strings.Contains(r.Crash.Value, "self") {
					return nil
				}
				if r.Status != vrt.StatusOK {
					return []string{"status " + r.Status.String()}
				}
				return nil
			}
		}
		return sc
	}
	scenarios["c10_sd"] = func(raw json.RawMessage) *vrt.Scenario {
		return &vrt.Scenario{Name: "c10_sd", Main: sdMain, FreeChoices: true, MaxSteps: 2_000_000, NoTimerAlt: true}
	}
	scenarios["c10_simple"] = func(raw json.RawMessage) *vrt.Scenario {
		return &vrt.Scenario{Name: "c10_simple", Main: simpleMembershipMain, FreeChoices: true, MaxSteps: 200000, NoTimerAlt: true}
	}
	register(&Property{
		ID:        "C10",
		Technique: "explicit-state enumeration over the real membership code: several real cbMembership instances on one simulated bucket with heartbeat / monitor rounds driven in every order; real serviceDiscovery leader + followers wired by in-memory RPC clients with enumerated join/leave/ping-failure/rebalance-failure patterns; static / dynamic membership through the real API handler",
		Rule:      "couchbase: initial group of 1..4, one further event {none, join, die, leave}, the first rounds after each change with every permutation of the members' monitor rounds, invariants after 5 quiet rounds; leader-assigned: leader + up to 4 followers, joins in every order, one leave, ping failures, one failed Rebalance RPC, leadership hand-over; static/dynamic: every (number,total) with total <= 4; non-trivial = distinct (history, final numbering, announcements)",
		Assume:    []string{"a monitor round and a heartbeat are atomic (the property quantifies over orders of rounds, not over KV-level interleavings inside a round)", "Kubernetes lease election itself (client-go) is modelled by calling the elector's callbacks"},
		Instances: func(tier string) []Instance {
			var out []Instance
			maxInit, pr := 3, 2
			if tier == "thorough" {
				maxInit, pr = 4, 2
			}
			for n := 1; n <= maxInit; n++ {
				for _, ev := range []string{"none", "join", "die", "leave"} {
					if n == 1 && (ev == "die" || ev == "leave") {
						continue
					}
					q := pr
					if (tier != "thorough" && n >= 3) || n >= 4 {
						q = 1 // (4 members: 24 orders per enumerated round; two enumerated rounds after each of two changes do not finish in an hour)
					}
					out = append(out, Instance{Scenario: "c10_cb", Params: mustJSON(CBParams{Initial: n, Event: ev, Perms: q}), Bound: 0, Shards: 8})
				}
			}
			out = append(out, Instance{Scenario: "c10_cb", Params: mustJSON(CBParams{Initial: 2, Event: "ghost", Perms: 1}), Bound: 0, Shards: 2, Note: "the index lists an instance whose document does not exist (died during registration)"})
			out = append(out, Instance{Scenario: "c10_cb", Params: mustJSON(CBParams{Initial: 3, Event: "replace", Perms: 1}), Bound: 0, Shards: 4, Note: "an instance is replaced (dies, another registers before the death is noticed): the members that keep number and size announce nothing"})
			out = append(out, Instance{Scenario: "c10_cb", Params: mustJSON(CBParams{Initial: 2, Event: "replace", Perms: 1}), Bound: 0, Shards: 2})
			out = append(out, Instance{Scenario: "c10_cb", Params: mustJSON(CBParams{Initial: 3, Event: "die-writefail", Perms: 1}), Bound: 0, Shards: 2, Note: "the index rewrite of the round that notices a death fails: a later round carries the change out"})
			out = append(out, Instance{Scenario: "c10_cb", Params: mustJSON(CBParams{Initial: 2, Event: "die-writefail", Perms: 1}), Bound: 0, Shards: 2})
			out = append(out, Instance{Scenario: "c10_cb", Params: mustJSON(CBParams{Initial: 3, Event: "die-join-race", Perms: 1}), Bound: 0, Shards: 4, Note: "a registration at every point of the monitor round that is about to drop a dead instance (between its read of the index and its rewrite): the newcomer is admitted"})
			out = append(out, Instance{Scenario: "c10_cb", Params: mustJSON(CBParams{Initial: 3, Event: "hblost", Perms: 1}), Bound: 0, Shards: 4, Note: "the heart-beats of one running instance no longer reach the bucket"})
			for tm := 1; tm <= 2; tm++ {
				for _, ev := range []string{"join", "die"} {
					out = append(out, Instance{Scenario: "c10_cb", Params: mustJSON(CBParams{Initial: 2, Event: ev, Perms: 1, Timing: tm}), Bound: 0, Shards: 2, Note: "heart-beat interval + tolerance that is not a whole number of seconds / below one second"})
				}
			}
			out = append(out, Instance{Scenario: "c10_cb", Params: mustJSON(CBParams{Initial: 2, Event: "join-race", Perms: 1}), Bound: 0, Shards: 4, Note: "a monitor round of an existing member injected at every scheduling point of the newcomer's registration"})
			out = append(out, Instance{Scenario: "c10_sd", Params: mustJSON(struct{}{}), Bound: 0, Shards: 4})
			out = append(out, Instance{Scenario: "c10_simple", Params: mustJSON(struct{}{}), Bound: 0})
			rb := 1
			if tier == "thorough" {
				rb = 2
			}
			out = append(out, Instance{Scenario: "c10_register", Params: mustJSON(struct{}{}), Bound: rb, Shards: 16, Note: "the same under every schedule within the bound during and after the disturbance"})
			out = append(out, Instance{Scenario: "c10_staticenv", Params: mustJSON(struct{}{}), Bound: 0, Note: "static membership sized through the environment overrides while the file carries other values: same size, distinct numbers, every vBucket owned once"})
			out = append(out, Instance{Scenario: "c10_apiretry", Params: mustJSON(struct{}{}), Bound: 0, Note: "dynamic membership: a PUT that is retried while the first one still waits inside its publication is answered 'not changed' - every numbering is announced once"})
			out = append(out, Instance{Scenario: "c10_register", Params: mustJSON(RegisterParams{InPhase: true}), Bound: rb, Shards: 16, Note: "the leader's heart-beat and monitor rounds fall on the same instants (start-up delay a multiple of the 5 s period, as with the default)"})
			out = append(out, Instance{Scenario: "c10_register", Params: mustJSON(struct{}{}), Bound: 0, Note: "real RPC client / handler code over an in-memory transport: registration, death, restart under the same name before / after the leader's next round"})
			out = append(out, Instance{Scenario: "c11_burst", Params: mustJSON(BurstParams{Membership: "dynamic", MaxN: 2}), Bound: 0, Shards: 8, Note: "the numbering in effect is the one the STREAM follows: after bursts of renumberings (one arriving while the re-open of the previous one runs) exactly the vBuckets of the latest numbering are streamed"})
			out = append(out, Instance{Scenario: "c10_lease", Params: mustJSON(struct{}{}), Bound: 0, Note: "driven from the lease: real leader_elector.go callbacks + real election handler + real RPC code; first election, leader restart in its pod while its former incarnation holds the lease, fail-over to the oldest follower"})
			out = append(out, Instance{Scenario: "c10_lease", Params: mustJSON(struct{}{}), Bound: 1, Shards: 4, Note: "the same under every schedule within the bound during the disturbance"})
			out = append(out, Instance{Scenario: "c10_first", Params: mustJSON(FirstParams{Inject: true}), Bound: 0, Note: "first numbering injected at every scheduling point of the first GetInfo()"})
			out = append(out, Instance{Scenario: "c10_first", Params: mustJSON(FirstParams{Two: true}), Bound: 0, Note: "two numberings announced before the first GetInfo(): the latest one is returned"})
			out = append(out, Instance{Scenario: "c10_first", Params: mustJSON(FirstParams{BackToBack: true}), Bound: 2, Note: "two numberings announced back to back: every schedule of the bus' delivery threads ends with the latest"})
			out = append(out, Instance{Scenario: "c10_first", Params: mustJSON(FirstParams{}), Bound: 3, Note: "first numbering vs first GetInfo(), every schedule with <=3 deviations"})
			return out
		},
	})
}

func cbMain(p CBParams) {
	resetGlobals()
	o := EnvOpts{Vbs: 2, MembershipType: "couchbase", RebalanceDelay: time.Second}
	c := NewCluster(&o)
	o.defaults()
	gocbcore.SimInstall(c)
	// the members' own loops are parked for ever: rounds are driven explicitly, in every order
	vrt.Hold("cbMembership).startHeartbeat", func() bool { return false })
	vrt.Hold("cbMembership).startMonitor", func() bool { return false })
	var insts []*cbInst
	join := func() *cbInst {
		cfg := o.config()
		switch p.Timing {
		case 1:
			cfg.Dcp.Group.Membership.Config = map[string]string{"heartbeatInterval": "1s", "heartbeatToleranceDuration": "1500ms"}
		case 2:
			cfg.Dcp.Group.Membership.Config = map[string]string{"heartbeatInterval": "500ms", "heartbeatToleranceDuration": "400ms"}
		}
		cl := couchbase.NewClient(cfg)
		if err := cl.Connect(); err != nil {
			panic(err)
		}
		in := &cbInst{bus: EventBus.New(), alive: true, joinIdx: len(insts)}
		_ = in.bus.Subscribe(helpers.MembershipChangedBusEventName, func(m *membership.Model) {
			in.events = append(in.events, [2]int{m.MemberNumber, m.TotalMembers})
		})
		in.m = couchbase.NewCBMembership(cfg, cl, in.bus)
		insts = append(insts, in)
		return in
	}
	var hist []string
	live := func() []*cbInst {
		var l []*cbInst
		for _, in := range insts {
			if in.alive {
				l = append(l, in)
			}
		}
		return l
	}
	round := func(enumerate bool) {
		vrt.Sleep(30 * time.Second)
		l := live()
		for _, in := range l {
			if !in.mute {
				couchbase.VerifCBHeartbeat(in.m)
			}
		}
		order := make([]int, len(l))
		for i := range order {
			order[i] = i
		}
		if enumerate && len(l) > 1 {
			ps := perms(len(l))
			order = ps[vrt.Choose(len(ps), true, "monitor-order")]
		}
		var names []string
		for _, i := range order {
			couchbase.VerifCBMonitor(l[i].m)
			names = append(names, fmt.Sprint(l[i].joinIdx))
		}
		hist = append(hist, "round["+strings.Join(names, "")+"]")
		vrt.Quiesce()
	}
	check := func(when string) {
		l := live()
		for rank, in := range l {
			info := in.m.GetInfo()
			if info.TotalMembers != len(l) {
				vrt.Failf("%s after %v: instance %d reports group size %d, %d instances are alive", when, hist, in.joinIdx, info.TotalMembers, len(l))
			}
			if info.MemberNumber != rank+1 {
				vrt.Failf("%s after %v: instance %d (join rank %d among the living) has member number %d", when, hist, in.joinIdx, rank+1, info.MemberNumber)
			}
		}
		for _, in := range insts {
			for i := 1; i < len(in.events); i++ {
				if in.events[i] == in.events[i-1] {
					vrt.Failf("%s after %v: instance %d announced the numbering %v twice in a row (not a change)", when, hist, in.joinIdx, in.events[i])
				}
			}
		}
	}
	for i := 0; i < p.Initial; i++ {
		join()
		hist = append(hist, "join")
		vrt.Sleep(time.Second)
		if i < p.Initial-1 && vrt.Choose(2, true, "round-between-joins") == 1 {
			round(false)
		}
	}
	for r := 0; r < 4; r++ {
		round(r < p.Perms)
	}
	check("initial group")
	switch p.Event {
	case "join-race":
		// the newcomer registers on its own thread; a monitor round of an existing member is injected at
		// every scheduling point of that registration (KV-level interleaving of join and monitor)
		k := vrt.Choose(60, true, "monitor-at-point")
		who := vrt.Choose(2, true, "which-member")
		done := false
		vrt.Window(true)
		vrt.InjectAt("joiner", k, func() { couchbase.VerifCBMonitor(insts[who].m) })
		vrt.GoNamed("joiner", func() { join(); done = true })
		vrt.Block("join finished", func() bool { return done })
		vrt.Window(false)
		vrt.Quiesce()
		hist = append(hist, fmt.Sprintf("join||monitor(%d)@%d", who, k))
	case "join":
		join()
		hist = append(hist, "join")
	case "ghost":
		// an instance that died during its registration: the shared index lists it, its own document was never
		// written. The others must get over it (drop it from the index) and keep their numbering.
		cfg := o.config()
		cl := couchbase.NewClient(cfg)
		if err := cl.Connect(); err != nil {
			panic(err)
		}
		md := cfg.GetCouchbaseMetadata()
		ghost := helpers.Prefix + cfg.Dcp.Group.Name + ":instance:00000000-dead-4000-8000-000000000000"
		ctx, cancel := context.WithTimeout(context.Background(), 10*time.Second)
		if err := couchbase.CreatePath(ctx, cl.GetMetaAgent(), md.Scope, md.Collection, []byte(helpers.Prefix+cfg.Dcp.Group.Name+":instance:all"), []byte(ghost), []byte(fmt.Sprint(vrt.NowNanos())), memd.SubdocDocFlagMkDoc); err != nil {
			vrt.Failf("harness: cannot plant the ghost entry: %v", err)
		}
		cancel()
		hist = append(hist, "ghost-entry-in-the-index")
	case "replace":
		// the youngest instance dies and another one registers before its death is noticed (a re-created pod): the
		// round that sees both changes leaves every other member with the number and the group size it had
		l := live()
		v := l[len(l)-1]
		v.alive = false
		hist = append(hist, fmt.Sprintf("die(%d)", v.joinIdx))
		round(false)
		round(false) // its last heart-beat is 60 s old now: still inside the tolerance
		join()
		hist = append(hist, "join")
	case "die-writefail":
		// an instance dies; in the round in which the oldest member notices it, its rewrite of the shared index is
		// answered with a temporary failure (or loses the compare-and-swap race to nobody in particular): the
		// change has not taken effect - a later round notices it again and carries it out
		l := live()
		v := l[len(l)-1]
		v.alive = false
		hist = append(hist, fmt.Sprintf("die(%d)", v.joinIdx))
		round(false)
		round(false)
		kind := vrt.Choose(2, true, "index-write-fault")
		armed := true
		c.Fault = func(r *gocbcore.SimRequest) gocbcore.SimAnswer {
			if armed && r.Kind == "mutatein" && strings.HasSuffix(r.Key, ":all") {
				armed = false
				if kind == 0 {
					return gocbcore.SimAnswer{Kind: "err", Err: &gocbcore.KeyValueError{InnerError: gocbcore.ErrTemporaryFailure, StatusCode: memd.StatusTmpFail}}
				}
				return gocbcore.SimAnswer{Kind: "drop"}
			}
			return gocbcore.SimAnswer{}
		}
		hist = append(hist, []string{"next index rewrite: temporary failure", "next index rewrite: never answered"}[kind])
	case "die-join-race":
		// an instance has died and its death is about to be noticed by the oldest member; a new instance registers
		// at every scheduling point of that member's monitor round (between its read of the index and its rewrite)
		l := live()
		v := l[len(l)-1]
		v.alive = false
		hist = append(hist, fmt.Sprintf("die(%d)", v.joinIdx))
		round(false)
		round(false)
		vrt.Sleep(30 * time.Second)
		for _, in := range live() {
			couchbase.VerifCBHeartbeat(in.m)
		}
		k := vrt.Choose(40, true, "join-at-point")
		done := false
		vrt.Window(true)
		vrt.InjectAtomic("monitor0", k, func() { join() })
		vrt.GoNamed("monitor0", func() { couchbase.VerifCBMonitor(insts[0].m); done = true })
		vrt.Block("monitor finished", func() bool { return done })
		vrt.Window(false)
		vrt.Quiesce()
		hist = append(hist, fmt.Sprintf("monitor(0)||join@%d", k))
	case "hblost":
		l := live()
		v := l[vrt.Choose(len(l), true, "victim")]
		v.mute = true
		hist = append(hist, fmt.Sprintf("heartbeats-lost(%d)", v.joinIdx))
	case "die", "leave":
		l := live()
		v := l[vrt.Choose(len(l), true, "victim")]
		v.alive = false
		if p.Event == "leave" {
			v.m.Close()
		}
		hist = append(hist, fmt.Sprintf("%s(%d)", p.Event, v.joinIdx))
	}
	if p.Event != "none" {
		for r := 0; r < 6; r++ {
			round(r < p.Perms)
		}
		check("after " + p.Event)
	}
	var fin []string
	for _, in := range live() {
		i := in.m.GetInfo()
		fin = append(fin, fmt.Sprintf("%d:%d/%d", in.joinIdx, i.MemberNumber, i.TotalMembers))
	}
	vrt.SetOutcome(fmt.Sprintf("%v|%v", hist, fin))
}

// ---- leader-assigned numbering (servicediscovery) ------------------------------------------------------

type fakeRPC struct {
	name      string
	target    servicediscovery.ServiceDiscovery // whose SetInfo a Rebalance reaches (what Handler.Rebalance does)
	pingFail  func() bool
	rebalFail func() bool
	closed    bool
	calls     [][2]int
}

func (f *fakeRPC) Close() error      { f.closed = true; return nil }
func (f *fakeRPC) IsConnected() bool { return !f.closed }
func (f *fakeRPC) Reconnect() error  { return nil }
func (f *fakeRPC) Register() error   { return nil }
func (f *fakeRPC) Ping() error {
	if f.closed || (f.pingFail != nil && f.pingFail()) {
		return fmt.Errorf("ping %s failed", f.name)
	}
	return nil
}
func (f *fakeRPC) Rebalance(n, t int) error {
	if f.closed {
		return fmt.Errorf("closed")
	}
	if f.rebalFail != nil && f.rebalFail() {
		return fmt.Errorf("rebalance rpc to %s failed", f.name)
	}
	f.calls = append(f.calls, [2]int{n, t})
	f.target.SetInfo(n, t)
	return nil
}

type sdNode struct {
	name   string
	sd     servicediscovery.ServiceDiscovery
	events [][2]int
	joined int64
}

func sdMain() {
	resetGlobals()
	o := EnvOpts{RebalanceDelay: time.Second}
	o.defaults()
	var all []*sdNode
	var hist []string
	mk := func(name string) *sdNode {
		cfg := o.config()
		n := &sdNode{name: name}
		all = append(all, n)
		bus := EventBus.New()
		_ = bus.Subscribe(helpers.MembershipChangedBusEventName, func(m *membership.Model) {
			n.events = append(n.events, [2]int{m.MemberNumber, m.TotalMembers})
			// at every instant: members that agree on the group size hold pairwise distinct numbers
			for _, x := range all {
				if x != n && len(x.events) > 0 && lastOf(x.events) == lastOf(n.events) {
					vrt.Failf("after %v: %s and %s both hold %d/%d (two owners for one chunk, another chunk has none)", hist, x.name, n.name, m.MemberNumber, m.TotalMembers)
				}
			}
		})
		n.sd = servicediscovery.NewServiceDiscovery(cfg, bus)
		n.sd.StartHeartbeat()
		n.sd.StartMonitor()
		return n
	}
	leader := mk("L")
	leader.sd.BeLeader()
	nf := 1 + vrt.Choose(4, true, "followers")
	var followers []*sdNode
	var rpcs []*fakeRPC
	pingDown := map[string]bool{}
	rebalFailOnce := map[string]bool{}
	addFollower := func(f *sdNode, joinTime int64) {
		f.joined = joinTime
		r := &fakeRPC{name: f.name, target: f.sd}
		r.pingFail = func() bool { return pingDown[f.name] }
		r.rebalFail = func() bool {
			if rebalFailOnce[f.name] {
				rebalFailOnce[f.name] = false
				return true
			}
			return false
		}
		rpcs = append(rpcs, r)
		leader.sd.Add(servicediscovery.NewService(r, f.name, joinTime))
	}
	// followers register with the leader in an enumerated order; their join times decide the numbering
	orderPs := perms(nf)
	regOrder := orderPs[vrt.Choose(len(orderPs), true, "register-order")]
	for i := 0; i < nf; i++ {
		followers = append(followers, mk(fmt.Sprintf("F%d", i)))
	}
	for _, i := range regOrder {
		addFollower(followers[i], int64(100+i)) // join time = index: F0 oldest
		hist = append(hist, "register(F"+fmt.Sprint(i)+")")
		if vrt.Choose(2, true, "round-between") == 1 {
			vrt.Sleep(6 * time.Second)
		}
	}
	vrt.Sleep(13 * time.Second)
	vrt.Quiesce()
	present := map[string]bool{}
	for _, f := range followers {
		present[f.name] = true
	}
	check := func(when string) {
		var names []string
		for _, f := range followers {
			if present[f.name] {
				names = append(names, f.name)
			}
		}
		sort.Strings(names)
		total := len(names) + 1
		if got := lastOf(leader.events); got != [2]int{1, total} {
			vrt.Failf("%s after %v: leader numbering %v, want 1/%d", when, hist, got, total)
		}
		for i, n := range names {
			var f *sdNode
			for _, x := range followers {
				if x.name == n {
					f = x
				}
			}
			if got := lastOf(f.events); got != [2]int{i + 2, total} {
				vrt.Failf("%s after %v: follower %s numbering %v, want %d/%d (join order)", when, hist, n, got, i+2, total)
			}
		}
		for _, n := range append([]*sdNode{leader}, followers...) {
			for i := 1; i < len(n.events); i++ {
				if n.events[i] == n.events[i-1] {
					vrt.Failf("%s after %v: %s announced %v twice in a row", when, hist, n.name, n.events[i])
				}
			}
		}
	}
	check("after registration")
	// one disturbance
	switch vrt.Choose(6, true, "disturbance") {
	case 0:
	case 5: // steady state: one Rebalance RPC to one follower fails, nothing else changes
		v := followers[vrt.Choose(nf, true, "victim")]
		rebalFailOnce[v.name] = true
		hist = append(hist, "rebalance-rpc-fails-once-in-steady-state("+v.name+")")
	case 1: // a follower's pings start failing: it is dropped
		v := followers[vrt.Choose(nf, true, "victim")]
		pingDown[v.name] = true
		present[v.name] = false
		hist = append(hist, "pingdown("+v.name+")")
	case 2: // one Rebalance RPC fails although the follower is healthy: must be retried next round
		v := followers[vrt.Choose(nf, true, "victim")]
		// force a renumbering so that an RPC is due: drop the oldest other follower if any, else none
		rebalFailOnce[v.name] = true
		if nf > 1 {
			var other *sdNode
			for _, f := range followers {
				if f != v {
					other = f
					break
				}
			}
			pingDown[other.name] = true
			present[other.name] = false
			hist = append(hist, "pingdown("+other.name+")")
		}
		hist = append(hist, "rebalance-rpc-fails-once("+v.name+")")
	case 3: // a follower leaves gracefully
		v := followers[vrt.Choose(nf, true, "victim")]
		leader.sd.Remove(v.name)
		present[v.name] = false
		hist = append(hist, "remove("+v.name+")")
	case 4: // the leader loses and regains leadership; the followers register again
		leader.sd.DontBeLeader()
		leader.sd.RemoveAll()
		vrt.Sleep(6 * time.Second)
		leader.sd.BeLeader()
		for _, i := range regOrder {
			addFollower(followers[i], int64(100+i))
		}
		hist = append(hist, "leadership-lost-and-regained")
	}
	vrt.Sleep(17 * time.Second)
	vrt.Quiesce()
	check("after disturbance")
	for _, n := range append([]*sdNode{leader}, followers...) {
		n.sd.StopMonitor()
		n.sd.StopHeartbeat()
	}
	vrt.SetOutcome(fmt.Sprintf("%v|%v", hist, lastOf(leader.events)))
}

func lastOf(ev [][2]int) [2]int {
	if len(ev) == 0 {
		return [2]int{}
	}
	return ev[len(ev)-1]
}

// static and dynamic membership: the numbering is what was configured / what the API was told
func simpleMembershipMain() {
	resetGlobals()
	total := 1 + vrt.Choose(4, true, "total")
	number := 1 + vrt.Choose(total, true, "number")
	o := EnvOpts{MemberNumber: number, Total: total}
	o.defaults()
	cfg := o.config()
	st := membership.NewStaticMembership(cfg)
	if i := st.GetInfo(); i.MemberNumber != number || i.TotalMembers != total {
		vrt.Failf("static membership %d/%d reports %d/%d", number, total, i.MemberNumber, i.TotalMembers)
	}
	bus := EventBus.New()
	dm := membership.NewDynamicMembership(bus)
	var events [][2]int
	_ = bus.Subscribe(helpers.MembershipChangedBusEventName, func(m *membership.Model) { events = append(events, [2]int{m.MemberNumber, m.TotalMembers}) })
	a := apiFor(cfg, bus)
	put := func(n, t int) {
		body := fmt.Sprintf(`{"memberNumber":%d,"totalMembers":%d}`, n, t)
		if _, _, err := apiPut(a, body); err != nil {
			vrt.Failf("PUT failed: %v", err)
		}
		vrt.Quiesce()
	}
	// ownership is derived by the real discovery object from whatever numbering is in effect
	const nvb = 64
	cfgDyn := o.config()
	cfgDyn.Dcp.Group.Membership.Type = "dynamic"
	disc := stream.NewVBucketDiscovery(nil, cfgDyn, nvb, bus)
	all := make([]uint16, nvb)
	for i := range all {
		all[i] = uint16(i)
	}
	owned := func(n, t int) string { return fmt.Sprint(helpers.ChunkSlice[uint16](all, t)[n-1]) }
	put(number, total)
	if got := fmt.Sprint(disc.Get()); got != owned(number, total) {
		vrt.Failf("member %d/%d derives vBuckets %s, the partition rule gives %s", number, total, got, owned(number, total))
	}
	put(number, total) // a repetition is not announced
	if i := dm.GetInfo(); i.MemberNumber != number || i.TotalMembers != total {
		vrt.Failf("dynamic membership told %d/%d reports %d/%d", number, total, i.MemberNumber, i.TotalMembers)
	}
	if len(events) != 1 {
		vrt.Failf("PUT %d/%d twice produced %d announcements, want 1", number, total, len(events))
	}
	other := number%total + 1
	put(other, total)
	if i := dm.GetInfo(); total > 1 && i.MemberNumber != other {
		vrt.Failf("dynamic membership not updated to %d/%d: %d/%d", other, total, i.MemberNumber, i.TotalMembers)
	}
	// renumbered at the same group size: the same discovery object must follow
	if got := fmt.Sprint(disc.Get()); got != owned(other, total) {
		vrt.Failf("after renumbering to %d/%d the member still derives vBuckets %s, the partition rule gives %s (two owners / orphaned vBuckets)", other, total, got, owned(other, total))
	}
	vrt.SetOutcome(fmt.Sprintf("%d/%d", number, total))
	_ = config.Dcp{}
}

// c09_regets: the SAME discovery object asked again after the numbering changed (any (number,total) to any
// other, including a renumbering at the same group size) must return exactly the partition-rule chunk.
func init() {
	scenarios["c09_regets"] = func(raw json.RawMessage) *vrt.Scenario {
		return &vrt.Scenario{Name: "c09_regets", FreeChoices: true, NoTimerAlt: true, Main: func() {
			resetGlobals()
			nvb := []int{64, 128, 1024}[vrt.Choose(3, true, "N")]
			o := EnvOpts{MembershipType: "dynamic"}
			o.defaults()
			cfg := o.config()
			bus := EventBus.New()
			disc := stream.NewVBucketDiscovery(nil, cfg, nvb, bus)
			all := make([]uint16, nvb)
			for i := range all {
				all[i] = uint16(i)
			}
			var hist []string
			for step := 0; step < 3; step++ {
				t := 1 + vrt.Choose(4, true, "total")
				n := 1 + vrt.Choose(t, true, "number")
				bus.Publish(helpers.MembershipChangedBusEventName, &membership.Model{MemberNumber: n, TotalMembers: t})
				vrt.Quiesce()
				hist = append(hist, fmt.Sprintf("%d/%d", n, t))
				got := disc.Get()
				want := helpers.ChunkSlice[uint16](all, t)[n-1]
				if fmt.Sprint(got) != fmt.Sprint(want) {
					vrt.Failf("N=%d after %v: Get() returns %d..%d, the partition rule gives %d..%d", nvb, hist, got[0], got[len(got)-1], want[0], want[len(want)-1])
				}
				m := disc.GetMetric()
				if m.MemberNumber != n || m.TotalMembers != t || m.VBucketRangeStart != want[0] || m.VBucketRangeEnd != want[len(want)-1] {
					vrt.Failf("N=%d after %v: discovery metric %+v", nvb, hist, *m)
				}
			}
			vrt.SetOutcome(fmt.Sprintf("%d %v", nvb, hist))
		}}
	}
}

// c10_first: the first numbering of a dynamic / leader-assigned member races the first GetInfo() of the
// stream: the announcement is injected at every scheduling point of the waiting caller (and, with a schedule
// bound, every interleaving of caller, publisher and bus handler is explored); the caller must obtain exactly
// the announced numbering within bounded time, and a later renumbering must replace it.
type FirstParams struct {
	Inject     bool `json:"inject"`
	Two        bool `json:"two"` // two announcements before the first GetInfo()
	BackToBack bool `json:"back_to_back"`
}

func init() {
	scenarios["c10_first"] = func(raw json.RawMessage) *vrt.Scenario {
		var p FirstParams
		_ = json.Unmarshal(raw, &p)
		return &vrt.Scenario{Name: "c10_first", Main: func() { firstInfoMain(p) }, FreeChoices: true, MaxSteps: 200000, NoTimerAlt: true}
	}
}

func firstInfoMain(p FirstParams) {
	resetGlobals()
	kind := vrt.Choose(2, true, "kind")
	bus := EventBus.New()
	var m membership.Membership
	o := EnvOpts{}
	o.defaults()
	if kind == 0 {
		m = membership.NewDynamicMembership(bus)
	} else {
		m = kubernetes.NewHaMembership(o.config(), bus)
	}
	name := []string{"dynamic", "leader-assigned"}[kind]
	first := &membership.Model{MemberNumber: 2, TotalMembers: 3}
	var got *membership.Model
	returned := false
	announce := func() {
		bus.Publish(helpers.MembershipChangedBusEventName, first)
		bus.WaitAsync()
	}
	k := -1
	if p.Two {
		// two numberings are announced before anybody asked: the first caller gets the LATEST one
		announce()
		latest := &membership.Model{MemberNumber: 1, TotalMembers: 2}
		bus.Publish(helpers.MembershipChangedBusEventName, latest)
		bus.WaitAsync()
		vrt.GoNamed("waiter", func() {
			got = m.GetInfo()
			returned = true
		})
		vrt.Sleep(time.Minute)
		vrt.Quiesce()
		if !returned {
			vrt.Failf("%s membership: two numberings (2/3, then 1/2) were announced before the first GetInfo(), which never returned; blocked: %v", name, vrt.BlockedThreads())
		} else if got.MemberNumber != 1 || got.TotalMembers != 2 {
			vrt.Failf("%s membership: 2/3 and then 1/2 were announced before the first GetInfo(); it returned %d/%d (a superseded numbering)", name, got.MemberNumber, got.TotalMembers)
		} else if again := m.GetInfo(); again.MemberNumber != 1 || again.TotalMembers != 2 {
			vrt.Failf("%s membership: a second GetInfo() returned %d/%d, the latest numbering is 1/2", name, again.MemberNumber, again.TotalMembers)
		}
		vrt.SetOutcome(name + " two-before-first")
		return
	}
	if p.BackToBack {
		// two numberings are announced back to back (Publish, Publish - nobody waits in between) while nobody
		// or somebody is asking: whatever the schedule of the bus' delivery threads, the membership ends with
		// the numbering announced LAST
		waiting := vrt.Choose(2, true, "a-GetInfo-is-waiting") == 1
		if waiting {
			vrt.GoNamed("waiter", func() {
				got = m.GetInfo()
				returned = true
			})
			vrt.Quiesce()
		}
		vrt.Window(true)
		vrt.GoNamed("publisher", func() {
			bus.Publish(helpers.MembershipChangedBusEventName, first)
			bus.Publish(helpers.MembershipChangedBusEventName, &membership.Model{MemberNumber: 1, TotalMembers: 2})
			bus.WaitAsync()
		})
		vrt.Sleep(time.Minute)
		vrt.Window(false)
		vrt.Quiesce()
		if waiting && !returned {
			vrt.Failf("%s membership: 2/3 and 1/2 were announced back to back, the waiting GetInfo() never returned; blocked: %v", name, vrt.BlockedThreads())
		}
		if i := m.GetInfo(); i.MemberNumber != 1 || i.TotalMembers != 2 {
			vrt.Failf("%s membership: 2/3 and then 1/2 were announced back to back; GetInfo() now reports %d/%d (the superseded numbering): the member keeps a vBucket set derived from a numbering that is no longer in effect", name, i.MemberNumber, i.TotalMembers)
		}
		vrt.SetOutcome(fmt.Sprintf("%s back-to-back waiting=%v", name, waiting))
		return
	}
	if p.Inject {
		k = vrt.Choose(8, true, "announce-at")
		vrt.InjectAtomic("waiter", k, announce)
	}
	vrt.Window(true)
	vrt.GoNamed("waiter", func() {
		got = m.GetInfo()
		returned = true
	})
	if !p.Inject {
		vrt.GoNamed("publisher", announce)
	}
	vrt.Sleep(time.Minute)
	vrt.Window(false)
	vrt.Quiesce()
	if p.Inject && !vrt.Injected() {
		// the waiting caller has fewer than k scheduling points before it blocks: nothing was announced
		vrt.SetOutcome(fmt.Sprintf("%s k=%d beyond the caller's points", name, k))
		return
	}
	if !returned {
		vrt.Failf("%s membership: the numbering 2/3 was announced (at point %d of the waiting GetInfo) but GetInfo() never returned - the member never starts streaming, its vBuckets have no owner; blocked: %v", name, k, vrt.BlockedThreads())
	} else if got == nil || got.MemberNumber != 2 || got.TotalMembers != 3 {
		vrt.Failf("%s membership: GetInfo() returned %+v, announced 2/3", name, got)
	}
	// a renumbering replaces it for every later caller
	bus.Publish(helpers.MembershipChangedBusEventName, &membership.Model{MemberNumber: 1, TotalMembers: 2})
	bus.WaitAsync()
	vrt.Quiesce()
	if returned {
		if i := m.GetInfo(); i.MemberNumber != 1 || i.TotalMembers != 2 {
			vrt.Failf("%s membership: after the renumbering to 1/2 GetInfo() reports %d/%d", name, i.MemberNumber, i.TotalMembers)
		}
	}
	vrt.SetOutcome(fmt.Sprintf("%s k=%d returned=%v", name, k, returned))
}

// c10_apiretry: dynamic membership through the API. PUT 1/2 starts a slow rebalance (the close-stream answers
// take 3 s); PUT 1/3 arrives meanwhile and waits inside the publication (the stream's listener is busy); the
// orchestrator retries PUT 1/3 on another connection. "A numbering is announced only when it differs from the
// one in effect": the retry is answered "not changed", the bus sees 1/1, 1/2, 1/3 - each once.
func init() {
	scenarios["c10_apiretry"] = func(raw json.RawMessage) *vrt.Scenario {
		return &vrt.Scenario{Name: "c10_apiretry", FreeChoices: true, NoTimerAlt: true, MaxSteps: 2_000_000, Main: func() {
			resetGlobals()
			gap := []time.Duration{0, time.Millisecond, 500 * time.Millisecond, 2 * time.Second}[vrt.Choose(4, true, "gap-before-the-retry")]
			o := DcpOpts{}
			o.Vbs = 4
			o.CheckpointType = "auto"
			o.MembershipType = "dynamic"
			o.AutoAck = true
			o.CheckpointInterval = 1000 * time.Second
			c := NewCluster(&o.EnvOpts)
			for vb := uint16(0); vb < 4; vb++ {
				c.Append(vb, marker(1, 1), mut(1, "a"))
			}
			e := NewDcpEnv(c, o)
			if e.Err != nil {
				vrt.Failf("newDcp: %v", e.Err)
				return
			}
			var seen [][2]int
			_ = e.bus().Subscribe(helpers.MembershipChangedBusEventName, func(m *membership.Model) {
				seen = append(seen, [2]int{m.MemberNumber, m.TotalMembers})
			})
			vrt.GoNamed("first-membership", func() {
				vrt.Sleep(1)
				e.bus().Publish(helpers.MembershipChangedBusEventName, &membership.Model{MemberNumber: 1, TotalMembers: 1})
			})
			e.Start()
			vrt.Quiesce()
			c.WaitIdle()
			a := newAPI(e.Cfg, e.D.GetClient(), dcpStream(e), []prometheus.Collector{}, e.bus(), dcp.VerifDiscovery(e.D))
			c.Fault = func(r *gocbcore.SimRequest) gocbcore.SimAnswer {
				if r.Kind == "closestream" {
					return gocbcore.SimAnswer{Kind: "latedelay", Delay: 3 * time.Second}
				}
				return gocbcore.SimAnswer{}
			}
			put := func(name string, m, t int) {
				vrt.GoNamed(name, func() {
					body := fmt.Sprintf(`{"memberNumber":%d,"totalMembers":%d}`, m, t)
					if _, _, err := api.VerifPutInfo(a, []byte(body)); err != nil {
						vrt.Failf("PUT /membership/info failed: %v", err)
					}
				})
			}
			vrt.Window(true)
			put("put-1/2", 1, 2)
			vrt.Sleep(200 * time.Millisecond)
			put("put-1/3", 1, 3)
			vrt.Sleep(gap)
			put("put-1/3-retry", 1, 3)
			vrt.Sleep(40 * time.Second)
			vrt.Quiesce()
			vrt.Window(false)
			c.WaitIdle()
			desc := fmt.Sprintf("PUT 1/2 (slow rebalance), PUT 1/3 200 ms later, the same PUT 1/3 again after %v", gap)
			for i := 1; i < len(seen); i++ {
				if seen[i] == seen[i-1] {
					vrt.Failf("%s: the numbering %d/%d was announced twice in a row (announcements %v)", desc, seen[i][0], seen[i][1], seen)
				}
			}
			if len(seen) == 0 || seen[len(seen)-1] != [2]int{1, 3} {
				vrt.Failf("%s: the last announcement is %v, want 1/3", desc, seen)
			}
			vrt.SetOutcome(fmt.Sprintf("%s|%v", desc, seen))
			e.D.Close()
		}}
	}
}

// c10_staticenv: static / stateful-set deployments whose group is sized through the environment (the documented
// GO_DCP__DCP_GROUP_MEMBERSHIP_TOTALMEMBERS / _MEMBERNUMBER overrides) while the shared configuration file still
// carries older values: the instances the environment describes obtain the same group size, pairwise distinct
// numbers 1..size, and together own every vBucket exactly once.
func init() {
	scenarios["c10_staticenv"] = func(raw json.RawMessage) *vrt.Scenario {
		return &vrt.Scenario{Name: "c10_staticenv", FreeChoices: true, NoTimerAlt: true, Main: func() {
			resetGlobals()
			fileTotal := []int{0, 1, 3, 5}[vrt.Choose(4, true, "totalMembers-in-the-file")]
			fileMember := []int{0, 1, 3}[vrt.Choose(3, true, "memberNumber-in-the-file")]
			envTotal := 2 + vrt.Choose(3, true, "TOTALMEMBERS-in-the-environment")
			const nvb = 64
			defer os.Unsetenv("GO_DCP__DCP_GROUP_MEMBERSHIP_TOTALMEMBERS")
			defer os.Unsetenv("GO_DCP__DCP_GROUP_MEMBERSHIP_MEMBERNUMBER")
			owners := make([]int, nvb)
			desc := fmt.Sprintf("file: totalMembers=%d memberNumber=%d; environment: TOTALMEMBERS=%d and MEMBERNUMBER=1..%d", fileTotal, fileMember, envTotal, envTotal)
			for m := 1; m <= envTotal; m++ {
				os.Setenv("GO_DCP__DCP_GROUP_MEMBERSHIP_TOTALMEMBERS", fmt.Sprint(envTotal))
				os.Setenv("GO_DCP__DCP_GROUP_MEMBERSHIP_MEMBERNUMBER", fmt.Sprint(m))
				o := EnvOpts{MembershipType: "static"}
				o.defaults()
				cfg := o.config()
				cfg.Dcp.Group.Membership.TotalMembers = fileTotal
				cfg.Dcp.Group.Membership.MemberNumber = fileMember
				cfg.ApplyDefaults()
				disc := stream.NewVBucketDiscovery(nil, cfg, nvb, EventBus.New())
				for _, vb := range disc.Get() {
					owners[vb]++
				}
				mt := disc.GetMetric()
				if mt.TotalMembers != envTotal || mt.MemberNumber != m {
					vrt.Failf("%s: the instance started with MEMBERNUMBER=%d runs as member %d of %d", desc, m, mt.MemberNumber, mt.TotalMembers)
				}
			}
			none, many := 0, 0
			for _, n := range owners {
				if n == 0 {
					none++
				}
				if n > 1 {
					many++
				}
			}
			if none+many > 0 {
				vrt.Failf("%s: %d of %d vBuckets have no owner, %d have more than one", desc, none, nvb, many)
			}
			vrt.SetOutcome(desc)
		}}
	}
}
