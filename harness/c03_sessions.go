package main

import (
	"encoding/json"
	"fmt"
	"sort"
	"strings"
	"time"

	"github.com/Trendyol/go-dcp/models"
	"github.com/couchbase/gocbcore/v10"

	"verif/vrt"
)

// c03_twosessions: TWO complete Dcp sessions in ONE process (constructor, Start, events, Close; then again), the
// second with its own collection configuration and, in some histories, against a bucket whose collection was
// dropped and re-created (new id) in between. Clause: "every delivered event carries ... the configured
// collection's name (or _default for an unlisted id)" - of the session that delivers it - and the stream
// request filters on exactly the ids of the configured collections as the cluster reports them now.
func init() {
	scenarios["c03_twosessions"] = func(raw json.RawMessage) *vrt.Scenario {
		return &vrt.Scenario{Name: "c03_twosessions", FreeChoices: true, NoTimerAlt: true, MaxSteps: 2_000_000, Main: twoSessionsMain}
	}
}

func eventColl(d *Delivered) (uint32, string) {
	switch e := d.Ctx.Event.(type) {
	case models.DcpMutation:
		return e.CollectionID, e.CollectionName
	case models.DcpDeletion:
		return e.CollectionID, e.CollectionName
	case models.DcpExpiration:
		return e.CollectionID, e.CollectionName
	}
	return 0, ""
}

func twoSessionsMain() {
	resetGlobals()
	configs := [][]string{nil, {"c1"}, {"c2"}, {"c1", "c2"}}
	first := vrt.Choose(len(configs), true, "first-session-collections")
	second := vrt.Choose(len(configs), true, "second-session-collections")
	recreated := vrt.Choose(2, true, "c1-recreated-between") == 1
	desc := fmt.Sprintf("session 1 collections %v, session 2 collections %v, c1 dropped and re-created in between: %v", configs[first], configs[second], recreated)
	vrt.SetOutcome(desc)
	for s, ci := range []int{first, second} {
		ids := map[string]uint32{"c1": 8, "c2": 9}
		if s == 1 && recreated {
			ids["c1"] = 10
		}
		o := DcpOpts{}
		o.Vbs = 1
		o.CheckpointType = "manual"
		o.Collections = configs[ci]
		c := NewCluster(&o.EnvOpts)
		for n, id := range ids {
			c.Collections["_default."+n] = id
		}
		e := NewDcpEnv(c, o)
		if e.Err != nil {
			vrt.Failf("%s: session %d: newDcp: %v", desc, s+1, e.Err)
			return
		}
		e.Start()
		c.WaitIdle()
		var sent []uint32
		seq := uint64(0)
		for _, id := range []uint32{0, ids["c1"], ids["c2"], 77} {
			seq++
			c.Append(0, marker(seq, seq), docPacket("mutation", seq, fmt.Sprintf("k%d", seq), "after", id))
			sent = append(sent, id)
		}
		c.WaitIdle()
		vrt.Quiesce()
		want := map[uint32]string{}
		var wantFilter []uint64
		for _, n := range configs[ci] {
			want[ids[n]] = n
			wantFilter = append(wantFilter, uint64(ids[n]))
		}
		if len(configs[ci]) == 0 {
			wantFilter = []uint64{0} // the documented default: collectionNames = [_default]
		}
		if len(e.Cons.Events) != len(sent) {
			vrt.Failf("%s: session %d delivered %d of %d events", desc, s+1, len(e.Cons.Events), len(sent))
		}
		for _, d := range e.Cons.Events {
			id, name := eventColl(d)
			w, ok := want[id]
			if !ok {
				w = "_default"
			}
			if name != w {
				vrt.Failf("%s: session %d delivered seq %d of collection id %d under the name %q; the session's configuration names it %q", desc, s+1, d.Seq, id, name, w)
			}
		}
		for _, r := range c.RequestsOf("openstream") {
			got := append([]uint64{}, r.Args[6:]...)
			sort.Slice(got, func(i, j int) bool { return got[i] < got[j] })
			sort.Slice(wantFilter, func(i, j int) bool { return wantFilter[i] < wantFilter[j] })
			if fmt.Sprint(got) != fmt.Sprint(wantFilter) {
				vrt.Failf("%s: session %d requested vb%d with the collection filter %v; the configured collections have the ids %v", desc, s+1, r.Vb, got, wantFilter)
			}
		}
		e.D.Close()
		vrt.Quiesce()
		if !e.Done {
			vrt.Failf("%s: session %d: Start() did not return after Close()", desc, s+1)
			return
		}
	}
}

var _ = strings.Contains
var _ gocbcore.SimAnswer

// c03_ephemeral: the bucket is ephemeral - no copy ever reports a persisted sequence number, the library
// switches rollback mitigation off for it although the configuration leaves it enabled (the default). Every
// event the server sends is delivered, in the first session and in the one after a rebalance.
func init() {
	scenarios["c03_ephemeral"] = func(raw json.RawMessage) *vrt.Scenario {
		return &vrt.Scenario{Name: "c03_ephemeral", FreeChoices: true, NoTimerAlt: true, MaxSteps: 400000, Main: func() {
			resetGlobals()
			rebalance := vrt.Choose(2, true, "then-a-rebalance") == 1
			o := EnvOpts{Vbs: 2, CheckpointType: "manual", Mitigation: true, BucketType: "ephemeral", WrapMeta: true, RebalanceDelay: time.Second}
			c := NewCluster(&o)
			for vb := uint16(0); vb < 2; vb++ {
				c.Append(vb, marker(1, 2), symbolPacket("M", 1), symbolPacket("D", 2))
			}
			e := NewEnv(c, o)
			e.Cons.AutoAck = true
			e.Stream.Open()
			vrt.Sleep(3 * time.Second)
			vrt.Quiesce()
			if n := len(e.Cons.Events); n != 4 {
				vrt.Failf("ephemeral bucket, first session: %d of the 4 events the server sent were delivered", n)
			}
			if rebalance {
				e.Stream.Save()
				e.Stream.Rebalance()
				vrt.Sleep(3 * time.Second)
				vrt.Quiesce()
				n0 := len(e.Cons.Events)
				for vb := uint16(0); vb < 2; vb++ {
					c.Append(vb, marker(3, 3), symbolPacket("M", 3))
				}
				vrt.Sleep(3 * time.Second)
				vrt.Quiesce()
				if n := len(e.Cons.Events) - n0; n != 2 {
					vrt.Failf("ephemeral bucket, session after a rebalance: %d of the 2 events the server sent were delivered", n)
				}
			}
			vrt.SetOutcome(fmt.Sprintf("rebalance=%v", rebalance))
			e.Stream.Close(true)
		}}
	}
}
