package main

import (
	"encoding/json"
	"fmt"
	"time"

	"github.com/couchbase/gocbcore/v10"

	"verif/vrt"
)

// reopen_life — one vBucket through a whole chain of session segments on the real stream / client /
// observer code: initial open, then up to two transient ends, each re-open answered in one of the ways a
// server can answer (same history; a new history branch that still contains the client's position = fail-over
// without rollback; a rollback to R onto a new branch with new content), with every combination of
// acknowledgements between the segments: none / the first / all of the newly delivered events, and none /
// the oldest / all of the events left unacknowledged in EARLIER segments (stale acknowledgements that name
// the old branch), in both orders.
//
// One reference model, three oracles (each property runs the one that belongs to it):
//   delivery (C03, C08): in every segment the consumer sees exactly the documents of the server's current
//       history with a sequence number above the position the segment resumed from, once each, in order,
//       with the content of the current branch - after a rollback nothing at or below the position already
//       reached, after a plain re-open nothing twice;
//   tuple (C06): every offset handed out carries (seqNo of the event, the snapshot the server announced for
//       that event in this segment, the vbUUID the server reported for this segment's open); the tracked and
//       the stored offset are always one of the handed-out tuples (or the initial one);
//   position (C04): after every acknowledgement the tracked position is the maximum settled sequence number,
//       TrackOffset never reports a smaller value than before, and the next save writes exactly it.

type LifeParams struct {
	Oracle string `json:"oracle"` // delivery | tuple | position
	Segs   int    `json:"segs"`   // number of re-opens (1 or 2)
	// EarlySave: a save (Commit) after the first segment's acknowledgements, i.e. BEFORE the branch changes
	EarlySave bool `json:"early_save"`
	// AckDuringReopen: the re-open request is answered after 500 ms; optionally one pending (stale) event is
	// acknowledged while it is in flight
	AckDuringReopen bool `json:"ack_during_reopen"`
	// RetryAck: the first re-open attempt is rejected (temporary failure); while the library pauses before its
	// next attempt the consumer acknowledges everything it still holds (a batch) - the retry resumes from there
	RetryAck bool `json:"retry_ack"`
}

func init() {
	scenarios["reopen_life"] = func(raw json.RawMessage) *vrt.Scenario {
		var p LifeParams
		_ = json.Unmarshal(raw, &p)
		return &vrt.Scenario{Name: "reopen_life", Main: func() { lifeMain(p) }, FreeChoices: true, NoTimerAlt: true, MaxSteps: 400000}
	}
}

type lifeTuple struct {
	seq, s0, s1, uuid uint64
}

func (t lifeTuple) String() string {
	return fmt.Sprintf("(seq %d, snapshot [%d,%d], vbUUID %d)", t.seq, t.s0, t.s1, t.uuid)
}

type lifeEvent struct {
	d   *Delivered
	seg int
	t   lifeTuple
}

func lifeMain(p LifeParams) {
	resetGlobals()
	o := EnvOpts{Vbs: 1, CheckpointType: "manual", WrapMeta: true}
	c := NewCluster(&o)
	uuid := uint64(900)
	c.Vb[0].Failover = []gocbcore.FailoverEntry{{VbUUID: gocbcore.VbUUID(uuid), SeqNo: 0}}
	branch := 0
	item := func(s uint64) gocbcore.SimPacket {
		return docPacket("mutation", s, fmt.Sprintf("b%d-%d", branch, s), "v", 0)
	}
	c.Append(0, marker(1, 4), item(1), item(2), item(3), item(4), marker(5, 8), item(5), item(6))
	high := uint64(6)
	openSnapEnd := uint64(8) // end of the last announced snapshot of the current history
	e := NewEnv(c, o)
	e.Cons.AutoAck = false
	var hist []string
	fail := func(f string, a ...any) {
		vrt.Failf("%v: %s", hist, fmt.Sprintf(f, a...))
	}
	want := func(or string) bool { return p.Oracle == or }

	// reference model
	var P lifeTuple // tracked position; seq 0 = none
	handed := map[lifeTuple]bool{}
	settled := map[lifeTuple]bool{}
	var pending []*lifeEvent
	seen := 0 // consumer events already attributed to a segment
	lastTrack := 0

	checkTracked := func(when string) {
		offs, _, _ := e.Stream.GetOffsets()
		cur, ok := offs.Load(0)
		if !ok {
			fail("%s: vb0 has no tracked offset", when)
			return
		}
		got := lifeTuple{seq: cur.SeqNo, uuid: uint64(cur.VbUUID)}
		if cur.SnapshotMarker != nil {
			got.s0, got.s1 = cur.StartSeqNo, cur.EndSeqNo
		}
		if want("position") {
			if got.seq != P.seq {
				fail("%s: tracked position is %d, the furthest settled event is %d", when, got.seq, P.seq)
			}
			ts := e.Cons.TrackSeq[0]
			for i := lastTrack; i < len(ts); i++ {
				if i > 0 && ts[i] < ts[i-1] {
					fail("%s: TrackOffset reported %d after %d (moved backwards)", when, ts[i], ts[i-1])
				}
			}
			lastTrack = len(ts)
		}
		if want("tuple") && got.seq != 0 {
			if P.uuid == uuid && got.uuid != uuid && got.seq < P.seq {
				// the furthest settled event was delivered on the branch the current stream is open on, so the
				// tracked offset names that branch: a late acknowledgement of an old-branch event with a LOWER
				// sequence number must not replace it. (An old-branch event with the SAME sequence number does
				// replace it in the tree - the guard is "greater than" - which is left open, see DESIGN section 7.)
				fail("%s: tracked offset %v names branch %d; the stream is open on branch %d and the furthest settled event %v was delivered on it", when, got, got.uuid, uuid, P)
			}
			if !handed[got] {
				fail("%s: tracked offset %v is not the offset of any single delivered event (mixture)", when, got)
			} else if got.seq == P.seq && !settled[got] {
				// (the same sequence number may have been settled on two branches: either tuple is a single event's)
				fail("%s: tracked offset %v is not the offset of a settled event (the furthest settled event carried %v)", when, got, P)
			}
		}
	}
	ack := func(le *lifeEvent) {
		le.d.Ctx.Ack()
		le.d.Acked = true
		settled[le.t] = true
		if le.t.seq > P.seq {
			P = le.t
		}
		hist = append(hist, fmt.Sprintf("ack(seg%d:%d)", le.seg, le.t.seq))
		checkTracked(fmt.Sprintf("after ack of event %d delivered in segment %d", le.t.seq, le.seg))
	}
	// collect what a segment delivered and compare with the reference
	collect := func(seg int, resumed uint64) []*lifeEvent {
		var wantSeqs []uint64
		snapOf := map[uint64][2]uint64{}
		var cs [2]uint64
		for _, pk := range c.Vb[0].Log {
			if pk.Kind == "marker" {
				cs = [2]uint64{pk.SnapStart, pk.SnapEnd}
				continue
			}
			if isDoc(pk.Kind) {
				snapOf[pk.Seq] = cs
				if pk.Seq > resumed {
					wantSeqs = append(wantSeqs, pk.Seq)
				}
			}
		}
		var got []uint64
		var out []*lifeEvent
		for _, d := range e.Cons.Events[seen:] {
			got = append(got, d.Seq)
			le := &lifeEvent{d: d, seg: seg, t: lifeTuple{seq: d.Offset.SeqNo, s0: d.Snap[0], s1: d.Snap[1], uuid: uint64(d.Offset.VbUUID)}}
			handed[le.t] = true
			out = append(out, le)
			if want("delivery") {
				if d.Seq <= resumed {
					fail("segment %d resumed from %d: event %d (at or below the position already reached) was delivered again", seg, resumed, d.Seq)
				}
				if d.Key != fmt.Sprintf("b%d-%d", branch, d.Seq) {
					fail("segment %d: event %d has key %q, the current history holds %q", seg, d.Seq, d.Key, fmt.Sprintf("b%d-%d", branch, d.Seq))
				}
			}
			if want("tuple") {
				ws := snapOf[d.Seq]
				wt := lifeTuple{seq: d.Seq, s0: ws[0], s1: ws[1], uuid: uuid}
				if le.t != wt {
					fail("segment %d: event %d was handed out with offset %v; the server announced %v for it in this segment", seg, d.Seq, le.t, wt)
				}
			}
		}
		seen = len(e.Cons.Events)
		if want("delivery") && fmt.Sprint(got) != fmt.Sprint(wantSeqs) {
			fail("segment %d resumed from %d: consumer saw %v, the history above that position is %v", seg, resumed, got, wantSeqs)
		}
		return out
	}
	acks := func(fresh []*lifeEvent) {
		order := vrt.Choose(2, true, "ack-order")
		nf := vrt.Choose(3, true, "ack-new")
		ns := 0
		if len(pending) > 0 {
			ns = vrt.Choose(3, true, "ack-stale")
		}
		doFresh := func() {
			switch nf {
			case 1:
				if len(fresh) > 0 {
					ack(fresh[0])
					fresh = fresh[1:]
				}
			case 2:
				for _, le := range fresh {
					ack(le)
				}
				fresh = nil
			}
		}
		doStale := func() {
			switch ns {
			case 1:
				ack(pending[0])
				pending = pending[1:]
			case 2:
				for _, le := range pending {
					ack(le)
				}
				pending = nil
			}
		}
		if order == 0 {
			doFresh()
			doStale()
		} else {
			doStale()
			doFresh()
		}
		pending = append(pending, fresh...)
	}

	// the next save writes exactly the tracked position
	checkSave := func() {
		e.Stream.Save()
		hist = append(hist, "save")
		if P.seq > 0 {
			d, ok := StoredDoc(c, srcBucket, e.O.Group, 0)
			if !ok || d.Checkpoint == nil {
				if want("position") {
					fail("the save wrote nothing for vb0 although %d is settled", P.seq)
				}
			} else {
				got := lifeTuple{seq: d.Checkpoint.SeqNo, uuid: uint64(d.Checkpoint.VbUUID)}
				if d.Checkpoint.Snapshot != nil {
					got.s0, got.s1 = d.Checkpoint.Snapshot.StartSeqNo, d.Checkpoint.Snapshot.EndSeqNo
				}
				if want("position") && got.seq != P.seq {
					fail("the save wrote position %d, the furthest settled event is %d", got.seq, P.seq)
				}
				if want("tuple") && !handed[got] {
					fail("the stored checkpoint %v is not the offset of any single delivered event (mixture)", got)
				}
				if want("tuple") && handed[got] && got.seq == P.seq && !settled[got] {
					fail("the stored checkpoint %v is not the offset of a settled event (the furthest settled event carried %v)", got, P)
				}
			}
		}
	}

	e.Stream.Open()
	c.WaitIdle()
	fresh := collect(0, 0)
	if len(fresh) != 6 {
		vrt.Failf("harness: first segment delivered %d events", len(fresh))
		return
	}
	// first segment: acknowledge a prefix / one event out of order / nothing
	switch vrt.Choose(5, true, "seg0-acks") {
	case 0:
	case 1:
		ack(fresh[0])
		fresh = fresh[1:]
	case 2:
		for _, le := range fresh[:4] {
			ack(le)
		}
		fresh = fresh[4:]
	case 3:
		for _, le := range fresh {
			ack(le)
		}
		fresh = nil
	case 4:
		ack(fresh[2]) // batched: only the third
		fresh = append(append([]*lifeEvent{}, fresh[:2]...), fresh[3:]...)
	}
	pending = fresh
	if p.EarlySave {
		checkSave()
	}
	for seg := 1; seg <= p.Segs; seg++ {
		resumed := P.seq
		answer := vrt.Choose(3, true, "reopen-answer")
		cause := gocbcore.ErrSocketClosed
		if answer != 0 {
			cause = gocbcore.ErrDCPStreamStateChanged
		}
		ackInFlight := false
		if p.AckDuringReopen {
			c.Fault = func(r *gocbcore.SimRequest) gocbcore.SimAnswer {
				if r.Kind == "openstream" {
					return gocbcore.SimAnswer{Kind: "delay", Delay: 500 * time.Millisecond}
				}
				return gocbcore.SimAnswer{}
			}
			ackInFlight = len(pending) > 0 && vrt.Choose(2, true, "ack-while-the-reopen-is-in-flight") == 1
		}
		retryAck := p.RetryAck && len(pending) > 0 && vrt.Choose(2, true, "ack-between-two-re-open-attempts") == 1
		if p.RetryAck {
			c.Vb[0].Opens = []gocbcore.SimOpen{{Kind: "err", Err: gocbcore.ErrTemporaryFailure}}
		}
		if !c.EndStream(0, cause) {
			vrt.Failf("harness: no open stream to end in segment %d", seg)
			return
		}
		if p.RetryAck {
			vrt.Sleep(200 * time.Millisecond) // the first attempt has been rejected, the library sleeps for a second
			hist = append(hist, "(first re-open attempt rejected)")
			if retryAck {
				for _, le := range pending {
					ack(le)
				}
				pending = nil
				resumed = P.seq
				if vrt.Choose(2, true, "commit-between-two-re-open-attempts") == 1 {
					// (a successful save while the re-open loop sleeps: the loop carries on)
					e.Stream.Save()
					hist = append(hist, "save")
				}
			}
		}
		grow := func() {
			// two more documents: inside the still open snapshot if there is room, else a new snapshot
			if high+2 > openSnapEnd {
				c.Append(0, marker(high+1, high+4))
				openSnapEnd = high + 4
			}
			c.Append(0, item(high+1), item(high+2))
			high += 2
		}
		switch answer {
		case 0:
			grow()
			hist = append(hist, fmt.Sprintf("end;reopen(ok,from %d)", resumed))
		case 1:
			uuid = 900 + uint64(seg)*10
			c.Vb[0].Failover = append([]gocbcore.FailoverEntry{{VbUUID: gocbcore.VbUUID(uuid), SeqNo: gocbcore.SeqNo(resumed)}}, c.Vb[0].Failover...)
			grow()
			hist = append(hist, fmt.Sprintf("end;reopen(ok on new branch %d,from %d)", uuid, resumed))
		case 2:
			rs := []uint64{0}
			if resumed/2 > 0 {
				rs = append(rs, resumed/2)
			}
			if resumed > 0 {
				rs = append(rs, resumed)
			}
			R := rs[vrt.Choose(len(rs), true, "R")]
			uuid = 900 + uint64(seg)*10 + 1
			branch = seg
			H := high + 2
			var log []gocbcore.SimPacket
			if R+1 <= resumed {
				log = append(log, marker(R+1, resumed))
				for s := R + 1; s <= resumed; s++ {
					log = append(log, item(s))
				}
			}
			log = append(log, marker(resumed+1, H+2))
			for s := resumed + 1; s <= H; s++ {
				log = append(log, item(s))
			}
			high, openSnapEnd = H, H+2
			c.Vb[0].Opens = []gocbcore.SimOpen{{Kind: "rollback", Rollback: R, SwapLog: log,
				SwapFailover: []gocbcore.FailoverEntry{{VbUUID: gocbcore.VbUUID(uuid), SeqNo: 0}}}}
			hist = append(hist, fmt.Sprintf("end;reopen(rollback to %d on branch %d,from %d)", R, uuid, resumed))
		}
		if ackInFlight {
			vrt.Sleep(100 * time.Millisecond)
			hist = append(hist, "(re-open in flight)")
			ack(pending[0])
			pending = pending[1:]
		}
		vrt.Sleep(3e9)
		vrt.Quiesce()
		c.WaitIdle()
		if !c.StreamOpen(0) {
			fail("segment %d: the stream was not re-opened", seg)
			return
		}
		if ackInFlight {
			checkTracked(fmt.Sprintf("after the re-open of segment %d completed", seg))
		}
		if answer == 2 && want("delivery") {
			// the re-request names the branch of the fail-over log that came with the rollback and starts at R
			reqs := c.RequestsOf("openstream")
			if last := reqs[len(reqs)-1]; len(last.Args) > 2 && last.Args[1] != uuid {
				fail("segment %d: after the rollback the vBucket was re-requested on branch %d, the fail-over log of the server names %d for that position", seg, last.Args[1], uuid)
			}
		}
		if p.RetryAck && answer != 2 && (want("delivery") || want("position")) {
			// the stream request that re-opened the vBucket starts at the position settled by then
			reqs := c.RequestsOf("openstream")
			if last := reqs[len(reqs)-1]; len(last.Args) > 2 && last.Args[2] != resumed {
				fail("segment %d: the vBucket was re-opened from %d, its latest settled position at that time is %d", seg, last.Args[2], resumed)
			}
		}
		fresh := collect(seg, resumed)
		acks(fresh)
	}
	checkSave()
	vrt.SetOutcome(fmt.Sprintf("%v", hist))
}

// c03_rebalance: completeness of delivery across a real Rebalance(): events that reach a vBucket before the
// rebalance, while the stream is closed, or right after that vBucket was re-opened while Open() still waits
// for the (slow) stream request of another vBucket. With automatic checkpointing the rebalance saves what
// was settled, so the session after the re-open must deliver exactly the events above the stored position,
// in order and once; later events keep arriving.
func init() {
	scenarios["c03_rebalance"] = func(raw json.RawMessage) *vrt.Scenario {
		return &vrt.Scenario{Name: "c03_rebalance", FreeChoices: true, NoTimerAlt: true, MaxSteps: 400000, Main: func() {
			resetGlobals()
			o := EnvOpts{Vbs: 3, Nodes: 2, CheckpointType: "auto", CheckpointInterval: 1000 * time.Second, WrapMeta: true, RebalanceDelay: 2 * time.Second}
			c := NewCluster(&o)
			e := NewEnv(c, o)
			e.Cons.AutoAck = true
			for vb := uint16(0); vb < 3; vb++ {
				c.Append(vb, marker(1, 1), symbolPacket("M", 1))
			}
			e.Stream.Open()
			c.WaitIdle()
			when := vrt.Choose(4, true, "backlog-arrives") // 0 before the rebalance, 1 while closed, 2 right after vb0 re-opened, 3 not at all
			slow := vrt.Choose(3, true, "slow-vb")         // 0 none, else that vBucket's re-open round trip is slow
			feed := func() {
				c.Append(0, marker(2, 3), symbolPacket("M", 2), symbolPacket("D", 3))
			}
			desc := fmt.Sprintf("backlog of vb0 arrives %s, %s", []string{"before the rebalance", "while the stream is closed", "right after vb0 was re-opened", "never"}[when],
				[]string{"no slow re-open", "slow re-open of vb1", "slow re-open of vb2"}[slow])
			if when == 0 {
				feed()
				c.WaitIdle()
			}
			armed := slow != 0
			c.Fault = func(r *gocbcore.SimRequest) gocbcore.SimAnswer {
				if armed && r.Kind == "openstream" && int(r.Vb) == slow {
					armed = false
					return gocbcore.SimAnswer{Kind: "delay", Delay: 3 * time.Second}
				}
				return gocbcore.SimAnswer{}
			}
			session2 := 0
			e.EH.On = func(n string) {
				if n == "BSStart" {
					session2 = len(e.Cons.Events)
				}
			}
			vrt.GoNamed("rebalancer", func() { e.Stream.Rebalance() })
			for i := 0; i < 100 && c.StreamOpen(0); i++ {
				vrt.Sleep(50 * time.Millisecond)
			}
			if c.StreamOpen(0) {
				vrt.Failf("harness: %s: the rebalance did not close vb0", desc)
				return
			}
			stored, _ := e.StoredSeq(0)
			if when == 1 {
				feed()
			}
			for i := 0; i < 200 && !c.StreamOpen(0); i++ {
				vrt.Sleep(50 * time.Millisecond)
			}
			if when == 2 {
				feed()
			}
			vrt.Sleep(10 * time.Second)
			vrt.Quiesce()
			c.WaitIdle()
			vrt.Quiesce()
			done := false
			for _, h := range e.EH.Log {
				if h == "ARE" {
					done = true
				}
			}
			if !done {
				vrt.Failf("%s: the rebalance did not finish; blocked: %v", desc, vrt.BlockedThreads())
				return
			}
			c.Append(0, marker(4, 4), symbolPacket("M", 4))
			c.WaitIdle()
			var want, got []uint64
			for _, pk := range c.Vb[0].Log {
				if isDoc(pk.Kind) && pk.Seq > stored {
					want = append(want, pk.Seq)
				}
			}
			for _, d := range e.Cons.Events[session2:] {
				if d.Vb == 0 {
					got = append(got, d.Seq)
				}
			}
			if fmt.Sprint(got) != fmt.Sprint(want) {
				vrt.Failf("%s: after the re-open (resumed from the stored position %d) the consumer received %v of vb0, the server sent %v", desc, stored, got, want)
			}
			vrt.SetOutcome(fmt.Sprintf("%s stored=%d got=%v", desc, stored, got))
		}}
	}
}
