package main

import (
	"fmt"
	"github.com/Trendyol/go-dcp/config"
	"os"
	"runtime"
	"sync"
	"verif/vrt/vos"

	"github.com/Trendyol/go-dcp/couchbase"
	"github.com/Trendyol/go-dcp/helpers"
	"github.com/Trendyol/go-dcp/stream"
	"github.com/asaskevich/EventBus"

	"verif/vrt"
)

func pureViolation(prop, msg string) vrt.Violation {
	v := vrt.Violation{Scenario: "pure", Messages: []string{msg}, Status: "ok"}
	v.Key = vrt.Fingerprint(&v)
	return v
}

// parallelFor runs f(i) for i in [lo,hi] on all cores.
func parallelFor(lo, hi int, f func(i int)) {
	var wg sync.WaitGroup
	ch := make(chan int, 64)
	for w := 0; w < runtime.NumCPU(); w++ {
		wg.Add(1)
		go func() {
			defer wg.Done()
			for i := range ch {
				f(i)
			}
		}()
	}
	for i := lo; i <= hi; i++ {
		ch <- i
	}
	close(ch)
	wg.Wait()
}

// ---- C09 -------------------------------------------------------------------------------------------------

// checkPartition checks the chunks of one (N,T) against the reference partition.
func checkPartition(n, t int, chunks [][]uint16) string {
	if len(chunks) != t {
		return fmt.Sprintf("N=%d T=%d: %d chunks", n, t, len(chunks))
	}
	next := 0
	minSz, maxSz := n+1, -1
	for m, ch := range chunks {
		if len(ch) == 0 {
			return fmt.Sprintf("N=%d T=%d: member %d gets no vBucket", n, t, m+1)
		}
		for _, v := range ch {
			if int(v) != next {
				return fmt.Sprintf("N=%d T=%d: member %d holds vb %d where %d was expected (gap, overlap or disorder)", n, t, m+1, v, next)
			}
			next++
		}
		if len(ch) < minSz {
			minSz = len(ch)
		}
		if len(ch) > maxSz {
			maxSz = len(ch)
		}
	}
	if next != n {
		return fmt.Sprintf("N=%d T=%d: covers 0..%d only", n, t, next-1)
	}
	if maxSz-minSz > 1 {
		return fmt.Sprintf("N=%d T=%d: chunk sizes differ by %d", n, t, maxSz-minSz)
	}
	return ""
}

func init() {
	register(&Property{
		ID:        "C09",
		Technique: "exhaustive enumeration of the complete finite input space (every N, T, member) of the real ChunkSlice / VBucketDiscovery.Get against a reference partition",
		Rule:      "every (N,T) with 1<=T<=N<=Nmax through helpers.ChunkSlice, and every (T, member) for N in {64,128,1024} through the real static-membership VBucketDiscovery.Get(); a case is non-trivial when T>1 (more than one chunk)",
		Assume:    []string{"pure sequential code, no environment"},
		Instances: func(tier string) []Instance {
			return []Instance{
				{Scenario: "c09_regets", Params: mustJSON(struct{}{}), Bound: 0, Shards: 2, Note: "one discovery object asked three times while the numbering changes (dynamic membership through the bus)"},
				{Scenario: "c09_getrace", Params: mustJSON(struct{}{}), Bound: 0, Shards: 2, Note: "a renumbering announced at every scheduling point of a running Get(): the result is the chunk of the old or of the new numbering"},
				{Scenario: "c10_sd", Params: mustJSON(struct{}{}), Bound: 0, Shards: 4, Note: "leader-assigned numbering: at every instant members that agree on the group size hold distinct numbers (also after a failed Rebalance RPC in steady state)"},
				{Scenario: "c09_singleton", Params: mustJSON(struct{}{}), Bound: 0, Note: "T = N: every set is a single vBucket (member 1: the range 0..0) - streamed, acknowledged, saved, resumed"},
				{Scenario: "c02_sessions", Params: mustJSON(SessionsParams{Backend: "file"}), Bound: 0, Shards: 2, Note: "what a member STREAMS is its chunk - through three sessions of one process with the file backend (whose Load returns every vBucket of the file): no stream outside the set"},
				{Scenario: "c02_sessions", Params: mustJSON(SessionsParams{Backend: "append"}), Bound: 0, Shards: 2, Note: "the same with a custom backend that appends to the id list it is handed: the sets of later sessions are unaffected"},
				{Scenario: "c02_sessions", Params: mustJSON(SessionsParams{}), Bound: 0, Shards: 2},
				{Scenario: "c10_register", Params: mustJSON(struct{}{}), Bound: 0, Note: "leader-assigned numbering over the real RPC / election code: after every disturbance (death, restart, network blip, fail-over with either callback order, late listener, failed dial-back) the numbers the instances hold are distinct and agree on the size - the precondition of the partition"},
				{Scenario: "c10_lease", Params: mustJSON(struct{}{}), Bound: 0, Note: "the same driven from the lease (leader restart in its pod, fail-over)"},
				{Scenario: "c10_first", Params: mustJSON(FirstParams{BackToBack: true}), Bound: 2, Note: "two numberings announced back to back: every schedule of the delivery threads leaves the member with the partition of the latest"},
				{Scenario: "c10_first", Params: mustJSON(FirstParams{Two: true}), Bound: 0, Note: "two numberings announced before the first Get(): the partition is derived from the latest"},
				{Scenario: "c11_burst", Params: mustJSON(BurstParams{Membership: "dynamic", MaxN: 2}), Bound: 0, Shards: 8, Note: "the real Dcp: after any burst of 1..2 renumberings (also one arriving while the re-open is running) the stream covers the chunk of the latest numbering"},
				{Scenario: "c10_cb", Params: mustJSON(CBParams{Initial: 3, Event: "hblost", Perms: 1}), Bound: 0, Shards: 4, Note: "couchbase membership: a running instance that drops out of the group (lost heart-beats) does not keep streaming its old share"},
				{Scenario: "c09_window", Params: mustJSON(struct{}{}), Bound: 0, Shards: 8, Note: "1..3 renumberings inside / outside one rebalance delay window of a real stream: the re-opened stream covers the chunk of the last numbering"},
			}
		},
		Pure: func(tier string) *PureResult {
			res := &PureResult{Exhaustive: true}
			nmax := 1024
			var mu sync.Mutex
			ns := []int{}
			if tier == "quick" {
				for n := 1; n <= 320; n++ {
					ns = append(ns, n)
				}
				ns = append(ns, 1023, 1024)
				res.Notes = append(res.Notes, "quick: N in 1..320 plus 1023,1024, every T; thorough covers every N in 1..1024")
			} else {
				for n := 1; n <= nmax; n++ {
					ns = append(ns, n)
				}
			}
			parallelFor(0, len(ns)-1, func(i int) {
				n := ns[i]
				vbs := make([]uint16, n)
				for j := range vbs {
					vbs[j] = uint16(j)
				}
				var evals, nontriv int64
				var viol []string
				for t := 1; t <= n; t++ {
					chunks := helpers.ChunkSlice[uint16](vbs, t)
					evals++
					if t > 1 {
						nontriv++
					}
					if msg := checkPartition(n, t, chunks); msg != "" {
						viol = append(viol, "ChunkSlice "+msg)
						continue
					}
					// purity: a second evaluation gives the same chunks
					again := helpers.ChunkSlice[uint16](vbs, t)
					for m := range chunks {
						if len(again[m]) != len(chunks[m]) || again[m][0] != chunks[m][0] {
							viol = append(viol, fmt.Sprintf("ChunkSlice N=%d T=%d not a pure function", n, t))
							break
						}
					}
				}
				mu.Lock()
				res.Evaluations += evals
				res.Distinct += nontriv
				for _, m := range viol {
					if len(res.Violations) < 10 {
						res.Violations = append(res.Violations, pureViolation("C09", m))
					}
				}
				mu.Unlock()
			})
			// the real discovery object with static membership, members queried in descending order
			resetGlobals()
			for _, n := range []int{64, 128, 1024} {
				tmax := n
				if tier == "quick" && n == 1024 {
					tmax = 64
					res.Notes = append(res.Notes, "quick: VBucketDiscovery.Get for N=1024 only T<=64")
				}
				for t := 1; t <= tmax; t++ {
					chunks := make([][]uint16, t)
					for m := t; m >= 1; m-- {
						o := EnvOpts{MemberNumber: m, Total: t}
						o.defaults()
						cfg := o.config()
						d := stream.NewVBucketDiscovery(nil, cfg, n, EventBus.New())
						chunks[m-1] = d.Get()
						res.Evaluations++
						mt := d.GetMetric()
						if mt.MemberNumber != m || mt.TotalMembers != t || mt.VBucketRangeStart != chunks[m-1][0] || mt.VBucketRangeEnd != chunks[m-1][len(chunks[m-1])-1] {
							res.Violations = append(res.Violations, pureViolation("C09", fmt.Sprintf("discovery metric N=%d T=%d member=%d: %+v", n, t, m, *mt)))
						}
					}
					res.Distinct++
					if msg := checkPartition(n, t, chunks); msg != "" && len(res.Violations) < 10 {
						res.Violations = append(res.Violations, pureViolation("C09", "VBucketDiscovery.Get "+msg))
					}
				}
			}
			// the same through the documented configuration sources: member number and group size each come from
			// the file or from the environment variable (README), defaults applied by the real ApplyDefaults()
			const envTot, envMem = "GO_DCP__DCP_GROUP_MEMBERSHIP_TOTALMEMBERS", "GO_DCP__DCP_GROUP_MEMBERSHIP_MEMBERNUMBER"
			for _, n := range []int{8, 64} {
				for t := 1; t <= 8; t++ {
					for src := 0; src < 4; src++ { // bit 0: total from env, bit 1: member from env
						chunks := make([][]uint16, t)
						for m := 1; m <= t; m++ {
							os.Unsetenv(envTot)
							os.Unsetenv(envMem)
							var c config.Dcp
							c.Dcp.Group.Membership.Type = "static"
							if src&1 != 0 {
								os.Setenv(envTot, fmt.Sprint(t))
							} else {
								c.Dcp.Group.Membership.TotalMembers = t
							}
							if src&2 != 0 {
								os.Setenv(envMem, fmt.Sprint(m))
							} else {
								c.Dcp.Group.Membership.MemberNumber = m
							}
							c.ApplyDefaults()
							d := stream.NewVBucketDiscovery(nil, &c, n, EventBus.New())
							chunks[m-1] = d.Get()
							res.Evaluations++
						}
						os.Unsetenv(envTot)
						os.Unsetenv(envMem)
						res.Distinct++
						if msg := checkPartition(n, t, chunks); msg != "" && len(res.Violations) < 10 {
							res.Violations = append(res.Violations, pureViolation("C09", fmt.Sprintf("static membership configured through %s (group size) and %s (member number): VBucketDiscovery.Get %s",
								[]string{"the file", "the environment"}[src&1], []string{"the file", "the environment"}[src>>1], msg)))
						}
					}
				}
			}
			// stateful-set membership: the member number is the pod ordinal in the host name + 1, the group size
			// comes from the configuration. Host names with several dashes and two-digit ordinals included.
			for _, base := range []string{"app", "my-dcp-app", "a-1", "x-"} {
				for _, n := range []int{16, 64} {
					for t := 1; t <= 12; t++ {
						chunks := make([][]uint16, t)
						for m := t; m >= 1; m-- {
							host := fmt.Sprintf("%s-%d", base, m-1)
							vos.HostnameFn = func() (string, error) { return host, nil }
							var c config.Dcp
							c.Dcp.Group.Membership.Type = "kubernetesStatefulSet"
							c.Dcp.Group.Membership.TotalMembers = t
							c.ApplyDefaults()
							d := stream.NewVBucketDiscovery(nil, &c, n, EventBus.New())
							chunks[m-1] = d.Get()
							res.Evaluations++
							if mt := d.GetMetric(); mt.MemberNumber != m || mt.TotalMembers != t {
								res.Violations = append(res.Violations, pureViolation("C09", fmt.Sprintf("stateful-set membership: host %q in a group of %d is member %d/%d, want %d/%d", host, t, mt.MemberNumber, mt.TotalMembers, m, t)))
							}
						}
						res.Distinct++
						if msg := checkPartition(n, t, chunks); msg != "" && len(res.Violations) < 10 {
							res.Violations = append(res.Violations, pureViolation("C09", fmt.Sprintf("stateful-set membership (hosts %s-0..%s-%d): VBucketDiscovery.Get %s", base, base, t-1, msg)))
						}
					}
				}
			}
			vos.HostnameFn = nil
			resetGlobals()
			res.States = res.Evaluations
			res.Transitions = res.Evaluations
			res.Samples = []any{
				map[string]any{"N": 10, "T": 3, "chunks": helpers.ChunkSlice[uint16]([]uint16{0, 1, 2, 3, 4, 5, 6, 7, 8, 9}, 3)},
				map[string]any{"N": 1024, "T": 7, "sizes": chunkSizes(1024, 7)},
			}
			return res
		},
	})
}

func chunkSizes(n, t int) []int {
	vbs := make([]uint16, n)
	var out []int
	for _, c := range helpers.ChunkSlice[uint16](vbs, t) {
		out = append(out, len(c))
	}
	return out
}

// ---- C18 -------------------------------------------------------------------------------------------------

func lexLess(a, b [4]int) bool {
	for i := 0; i < 4; i++ {
		if a[i] != b[i] {
			return a[i] < b[i]
		}
	}
	return false
}

func c18Grid(tier string) [][4]int {
	// around every gate (5.5.0, 6.5.0, 7.2.0), plus components >= 100 (a comparison that folds the tuple into
	// one number with fixed weights is only wrong there)
	maj := []int{0, 1, 4, 5, 6, 7, 8}
	min := []int{0, 1, 2, 4, 5, 6, 99, 100, 101}
	pat := []int{0, 1, 2, 99, 100, 150}
	bld := []int{0, 1, 4200}
	if tier == "quick" {
		maj = []int{0, 5, 6, 7, 8}
		min = []int{0, 2, 5, 6, 100}
		pat = []int{0, 1, 100}
		bld = []int{0, 1, 4200}
	}
	var g [][4]int
	for _, a := range maj {
		for _, b := range min {
			for _, c := range pat {
				for _, d := range bld {
					g = append(g, [4]int{a, b, c, d})
				}
			}
		}
	}
	return g
}

// c18WideGrid: components at 16 / 32 bit boundaries (round 12: Higher() rewritten as the comparison of a
// key with 16 bits per component)
func c18WideGrid() [][4]int {
	maj := []int{6, 7}
	rest := []int{0, 1, 65535, 65536, 65537, 1 << 32}
	var g [][4]int
	for _, a := range maj {
		for _, b := range rest {
			for _, c := range rest {
				for _, d := range rest {
					g = append(g, [4]int{a, b, c, d})
				}
			}
		}
	}
	return g
}

func ver(t [4]int) *couchbase.Version {
	return &couchbase.Version{Major: t[0], Minor: t[1], Patch: t[2], Build: t[3]}
}

func c18Pure(tier string) *PureResult {
	res := &PureResult{Exhaustive: true}
	g := c18Grid(tier)
	var mu sync.Mutex
	add := func(msg string) {
		mu.Lock()
		if len(res.Violations) < 10 {
			res.Violations = append(res.Violations, pureViolation("C18", msg))
		}
		mu.Unlock()
	}
	// the order laws are checked on the gate grid and on a second grid whose components sit at binary word
	// boundaries (a comparison that packs the tuple into bit fields of one integer is only wrong there)
	order := func(g [][4]int) {
		// pairs: trichotomy against the lexicographic reference, antisymmetry, Lower definition
		for _, a := range g {
			for _, b := range g {
				va, vb := ver(a), ver(b)
				h, l, e := va.Higher(vb), va.Lower(vb), va.Equal(vb)
				res.Evaluations++
				if a != b {
					res.Distinct++
				}
				n := 0
				for _, x := range []bool{h, l, e} {
					if x {
						n++
					}
				}
				if n != 1 {
					add(fmt.Sprintf("trichotomy fails for %v vs %v: higher=%v lower=%v equal=%v", a, b, h, l, e))
				}
				if h != lexLess(b, a) || l != lexLess(a, b) || e != (a == b) {
					add(fmt.Sprintf("%v vs %v: higher=%v lower=%v equal=%v disagrees with the lexicographic order", a, b, h, l, e))
				}
				if h && vb.Higher(va) {
					add(fmt.Sprintf("antisymmetry fails for %v, %v", a, b))
				}
			}
		}
		// triples: transitivity
		parallelFor(0, len(g)-1, func(i int) {
			a := ver(g[i])
			var n int64
			for _, bt := range g {
				b := ver(bt)
				ab := a.Higher(b)
				for _, ct := range g {
					c := ver(ct)
					n++
					if ab && b.Higher(c) && !a.Higher(c) {
						add(fmt.Sprintf("transitivity fails: %v > %v > %v but not %v > %v", g[i], bt, ct, g[i], ct))
					}
					if a.Equal(b) && b.Equal(c) && !a.Equal(c) {
						add(fmt.Sprintf("equality not transitive: %v %v %v", g[i], bt, ct))
					}
				}
			}
			mu.Lock()
			res.Evaluations += n
			mu.Unlock()
		})
	}
	order(g)
	order(c18WideGrid())
	// parser
	for _, t := range g {
		for _, form := range []string{"%d.%d.%d-%d-enterprise", "%d.%d.%d-%d-community", "%d.%d.%d-%d"} {
			s := fmt.Sprintf(form, t[0], t[1], t[2], t[3])
			v, err := couchbase.VerifParseVersion(s)
			res.Evaluations++
			if err != nil || v == nil || [4]int{v.Major, v.Minor, v.Patch, v.Build} != t {
				add(fmt.Sprintf("parse(%q) = %+v, %v; want %v", s, v, err, t))
			}
		}
		// zero-padded parts are decimal (build numbers are printed four digits wide by some tools)
		for _, form := range []string{"%d.%d.%d-%04d-enterprise", "%02d.%02d.%02d-%05d-enterprise", "%d.%d.%d-%04d"} {
			s := fmt.Sprintf(form, t[0], t[1], t[2], t[3])
			v, err := couchbase.VerifParseVersion(s)
			res.Evaluations++
			if err != nil || v == nil || [4]int{v.Major, v.Minor, v.Patch, v.Build} != t {
				add(fmt.Sprintf("parse(%q) = %+v, %v; want %v (zero-padded decimal)", s, v, err, t))
			}
		}
		// truncated forms denote the tuple padded with zeros
		for k, s := range []string{fmt.Sprintf("%d", t[0]), fmt.Sprintf("%d.%d", t[0], t[1]), fmt.Sprintf("%d.%d.%d", t[0], t[1], t[2])} {
			want := [4]int{t[0], 0, 0, 0}
			if k >= 1 {
				want[1] = t[1]
			}
			if k >= 2 {
				want[2] = t[2]
			}
			v, err := couchbase.VerifParseVersion(s)
			res.Evaluations++
			if err != nil || v == nil || [4]int{v.Major, v.Minor, v.Patch, v.Build} != want {
				add(fmt.Sprintf("parse(%q) = %+v, %v; want %v", s, v, err, want))
			}
		}
	}
	for _, bad := range []string{"", "x", "x.1.2", "7.x.2", "7.2.x-1-enterprise", ".", "7..", "a.b.c-d-e",
		"0x7.2.0-1-enterprise", "7.0b10.0-1-enterprise", "7.2.0x1-1-enterprise", "7_0.2.0-1-enterprise", "0o7.2.0", "7.2e1.0"} {
		v, err := couchbase.VerifParseVersion(bad)
		res.Evaluations++
		if err == nil {
			add(fmt.Sprintf("malformed version %q accepted as %+v", bad, v))
		}
	}
	// a non-numeric build is tolerated and reads as build 0 (edition without build number)
	if v, err := couchbase.VerifParseVersion("7.2.1-enterprise"); err != nil || v.Build != 0 || v.Patch != 1 {
		add(fmt.Sprintf("parse(7.2.1-enterprise) = %+v, %v", v, err))
	}
	// ... and so does a build that is not a decimal number: it never reads as some OTHER number
	for _, s := range []string{"6.5.0-0089-enterprise", "7.2.0-0080", "7.6.0-0010-enterprise"} {
		want := map[string]int{"6.5.0-0089-enterprise": 89, "7.2.0-0080": 80, "7.6.0-0010-enterprise": 10}[s]
		if v, err := couchbase.VerifParseVersion(s); err != nil || v.Build != want {
			add(fmt.Sprintf("parse(%q) = %+v, %v; want build %d", s, v, err, want))
		}
		res.Evaluations++
	}
	res.States = int64(len(g))
	res.Transitions = res.Evaluations
	res.Samples = []any{"6.5.0-4960-enterprise", []int{7, 2, 0, 0}, "triples over a grid of " + fmt.Sprint(len(g)) + " tuples"}
	return res
}
