package main

import (
	"encoding/json"
	"fmt"
	"github.com/Trendyol/go-dcp/logger"
	"github.com/couchbase/gocbcore/v10/memd"
	"reflect"
	"strings"
	"time"

	dcp "github.com/Trendyol/go-dcp"
	"github.com/Trendyol/go-dcp/api"
	"github.com/Trendyol/go-dcp/config"
	"github.com/Trendyol/go-dcp/helpers"
	"github.com/Trendyol/go-dcp/membership"
	"github.com/asaskevich/EventBus"
	"github.com/couchbase/gocbcore/v10"
	"github.com/prometheus/client_golang/prometheus"

	"verif/vrt"
)

// C11 — rebalance converges to the latest assignment, once, without stopping the client.
// Real newDcp/Start over the simulated cluster; bursts of notifications from the bus, from the real API
// handlers (GET /rebalance, PUT /membership/info) with enumerated spacing relative to the delay.

type BurstParams struct {
	Membership string `json:"membership"` // dynamic | static
	MaxN       int    `json:"max_n"`
	// CloseFault: the close-stream request of one vBucket is applied by the server but its reply is lost (the
	// library's request times out) while the rebalance closes the stream
	CloseFault bool `json:"close_fault"`
	// Mitigation: rollback mitigation is on and nothing beyond the events delivered before the burst is ever
	// persisted: the events that keep arriving wait at the gate across the close / re-open and are never shown
	Mitigation bool `json:"mitigation"`
	Hold       bool `json:"hold"`  // adversarially delay the membership subscriber of the bus
	Tight      bool `json:"tight"` // only gap 0, sources bus then api-rebalance
	// YieldLog: every log call of the library is a scheduling point (a logger blocks on I/O)
	YieldLog bool `json:"yield_log"`
	// HoldWait: adversarial delay of the stream's wait() goroutines (the one of the session being closed is
	// woken by the close token) until the rebalance has finished
	HoldWait bool `json:"hold_wait"`
	// FailedSave: the Commit() that precedes the burst fails (the store rejects one write)
	FailedSave bool `json:"failed_save"`
}

type notif struct {
	src  string // bus | api-info | api-rebalance
	val  [2]int
	gap  time.Duration
	at   int64
	took bool // it was not skipped (api-rebalance on a closed stream is skipped by design)
}

func init() {
	scenarios["c11_burst"] = func(raw json.RawMessage) *vrt.Scenario {
		var p BurstParams
		_ = json.Unmarshal(raw, &p)
		return &vrt.Scenario{Name: "c11_burst", Main: func() { burstMain(p) }, FreeChoices: true, MaxSteps: 2_000_000, NoTimerAlt: true, Classify: func(r *vrt.Result) []string {
			if r.Status == vrt.StatusOK {
				return nil
			}
			m := "execution ended with status " + r.Status.String()
			if r.Crash != nil {
				m += ": panic in " + r.Crash.Thread + ": " + r.Crash.Value
			}
			if len(r.Blocked) > 0 {
				m += "; blocked: " + strings.Join(r.Blocked, " | ")
			}
			if p.HoldWait && r.Status == vrt.StatusCrash && r.Crash != nil && strings.Contains(r.Crash.Stack, "stream.(*stream).wait") && strings.Contains(r.Crash.Value, "close of closed channel") {
				// name the mechanism: the failure is identified by it, not by its symptom
				r.Failures = nil
				return []string{"[the wait() goroutine of the session that the rebalance closed was delayed past the end of the rebalance: it took the close token with `balancing` already false and stopped the client; the shutdown that followed closed the stop channel a second time] " + m}
			}
			return []string{m}
		}}
	}
	register(&Property{
		ID:        "C11",
		Technique: "explicit enumeration of notification bursts (count, source, membership value, spacing relative to the rebalance delay) through the real Dcp/stream/bus/API-handler code under a virtual clock, plus deviation-bounded schedule DFS and adversarial delay of the membership subscriber",
		Rule:      "bursts of 1..3 notifications; each from {bus, PUT /membership/info handler, GET /rebalance handler} with a value from {1/1, 1/2, 2/2} and a gap from {0, <delay, =delay, >delay} (static: delay 20 s; dynamic: immediate); events keep being produced; non-trivial = distinct (burst, handler log, request log)",
		Assume:    []string{"burst = maximal run in which each notification arrives before the re-open triggered by its predecessors has started (the property's definition), computed from recorded arrival times and the recorded start of each re-open", "API handlers invoked directly on an acquired fiber context"},
		Instances: func(tier string) []Instance {
			n, b := 2, 0
			if tier == "thorough" {
				n, b = 3, 1
			}
			return []Instance{
				{Scenario: "c11_burst", Params: mustJSON(BurstParams{Membership: "dynamic", MaxN: n}), Bound: b, Shards: 8},
				{Scenario: "c11_burst", Params: mustJSON(BurstParams{Membership: "static", MaxN: n}), Bound: b, Shards: 8},
				{Scenario: "c11_burst", Params: mustJSON(BurstParams{Membership: "dynamic", MaxN: 1, Hold: true}), Bound: b, Shards: 2},
				{Scenario: "c11_burst", Params: mustJSON(BurstParams{Membership: "dynamic", MaxN: 1, HoldWait: true}), Bound: 0, Shards: 2, Note: "the wait() goroutine of the session being closed is delayed until the rebalance has finished"},
				{Scenario: "c11_burst", Params: mustJSON(BurstParams{Membership: "static", MaxN: 1, HoldWait: true}), Bound: 0, Shards: 2},
				{Scenario: "c11_burst", Params: mustJSON(BurstParams{Membership: "dynamic", MaxN: 1, YieldLog: true}), Bound: 1, Shards: 8, Note: "log calls are scheduling points; immediate re-open (dynamic membership): the re-open thread against the tail of the Rebalance() call that armed it, all single deviations (bracketing of the lifecycle callbacks)"},
				{Scenario: "c11_burst", Params: mustJSON(BurstParams{Membership: "static", MaxN: 2, Tight: true}), Bound: 1, Shards: 8, Note: "two notifications at the same instant (bus + GET /rebalance), all single deviations"},
				{Scenario: "c02_sessions", Params: mustJSON(SessionsParams{Backend: "file"}), Bound: 0, Shards: 2, Note: "file metadata across rebalances that shrink and grow the range again: vBuckets that come back resume from what was stored for them"},
				{Scenario: "c12_duringopen", Params: mustJSON(struct{}{}), Bound: 1, Shards: 4, Note: "a transient stream end while the Open() that ends a rebalance still waits for another vBucket: the vBucket is re-opened, the re-opened session covers the whole new range"},
				{Scenario: "c11_collections", Params: mustJSON(struct{}{}), Bound: 0, Note: "collection filter next to a busy foreign collection: a stored position reached through a seqno-advanced event lies beyond the streamed collection's own high seqno; the re-open resumes from it"},
				{Scenario: "c12_afterrebalance", Params: mustJSON(AfterRebParams{ReopenPending: true}), Bound: 0, Shards: 4, Note: "a re-open retry of an earlier transient end sleeps through the whole (immediate) rebalance: every vBucket is open exactly once afterwards, the client runs on"},
				{Scenario: "c12_afterrebalance", Params: mustJSON(AfterRebParams{OldServer: true}), Bound: 0, Shards: 4, Note: "two rebalances in a row against a server below 5.5.0 (serial close): the second one completes"},
				{Scenario: "c12_afterrebalance", Params: mustJSON(AfterRebParams{CloseFault: true}), Bound: 0, Shards: 8, Note: "a close-stream request of the rebalance fails (lost reply / dead connection with a transient stream end): the rebalance does not terminate the client"},
				{Scenario: "c02_sessions", Params: mustJSON(SessionsParams{ReadOnly: true}), Bound: 0, Shards: 2, Note: "re-open after a rebalance resumes from the checkpoints stored NOW (read-only mode: they were advanced by their owners since the process started), for vBuckets that stay in the range and for gained ones"},
				{Scenario: "c02_sessions", Params: mustJSON(SessionsParams{}), Bound: 0, Shards: 2, Note: "the same with this member's own saves between the rebalances"},
				{Scenario: "c16_race", Params: mustJSON(ScrapeRaceParams{Against: "rebalance"}), Bound: 2, Shards: 4, Note: "a metrics scrape overlapping the rebalance (prometheus runs Collect on goroutines without recover): it never terminates the client"},
				{Scenario: "c16_race", Params: mustJSON(ScrapeRaceParams{Against: "rebalance", Inject: true}), Bound: 1, Shards: 8, Note: "the same with the scrape started at every scheduling point of the rebalance"},
				{Scenario: "c05_windowcommit", Params: mustJSON(struct{}{}), Bound: 0, Note: "a Commit() inside the rebalance window (couchbase and file metadata, with / without a late acknowledgement): the re-open that ends the rebalance resumes from the stored checkpoints and does not terminate the client"},
				{Scenario: "c10_cb", Params: mustJSON(CBParams{Initial: 3, Event: "replace", Perms: 1}), Bound: 0, Shards: 4, Note: "couchbase membership: a replaced peer changes the set of instances but not this member's number or the group size - nothing is announced, the stream is not interrupted"},
				{Scenario: "c10_register", Params: mustJSON(struct{}{}), Bound: 0, Note: "leader-assigned membership: a numbering that repeats the one in effect (e.g. from the new leader after a fail-over) is not announced, so it causes no interruption"},
				{Scenario: "c11_burst", Params: mustJSON(BurstParams{Membership: "static", MaxN: 1, Mitigation: true}), Bound: 0, Shards: 2, Note: "events waiting at the rollback-mitigation gate when the rebalance closes the stream"},
				{Scenario: "c11_burst", Params: mustJSON(BurstParams{Membership: "dynamic", MaxN: 1, Mitigation: true}), Bound: 0, Shards: 2, Note: "events waiting at the rollback-mitigation gate when the rebalance closes the stream"},
				{Scenario: "c11_burst", Params: mustJSON(BurstParams{Membership: "static", MaxN: 1, FailedSave: true}), Bound: 0, Shards: 2, Note: "a save that failed earlier in the session (the store rejected a write): the next rebalance still closes and re-opens the stream once"},
				{Scenario: "c11_burst", Params: mustJSON(BurstParams{Membership: "dynamic", MaxN: 1, FailedSave: true}), Bound: 0, Shards: 2},
				{Scenario: "c11_burst", Params: mustJSON(BurstParams{Membership: "static", MaxN: 1, CloseFault: true}), Bound: 0, Shards: 2, Note: "the reply to one close-stream request of the rebalance is lost"},
				{Scenario: "c11_burst", Params: mustJSON(BurstParams{Membership: "dynamic", MaxN: 1, CloseFault: true}), Bound: 0, Shards: 2, Note: "the reply to one close-stream request of the rebalance is lost"},
			}
		},
	})
}

func rangeOf(m [2]int) [2]uint16 {
	switch m {
	case [2]int{1, 2}:
		return [2]uint16{0, 1}
	case [2]int{2, 2}:
		return [2]uint16{2, 3}
	}
	return [2]uint16{0, 3}
}

func burstMain(p BurstParams) {
	resetGlobals()
	if p.YieldLog {
		logger.Log = yieldLogger{}
	}
	o := DcpOpts{}
	o.Vbs = 4
	o.CheckpointType = "auto"
	o.MembershipType = p.Membership
	o.AutoAck = true
	o.CheckpointInterval = 1000 * time.Second // no periodic save inside the scenario
	o.RebalanceDelay = 20 * time.Second
	delay := o.RebalanceDelay
	c := NewCluster(&o.EnvOpts)
	for vb := uint16(0); vb < 4; vb++ {
		if p.Mitigation {
			// one long snapshot: the later items arrive without a marker of their own, so it is a DOCUMENT that
			// waits at the gate when the stream is closed
			c.Append(vb, marker(1, 50), symbolPacket("M", 1), symbolPacket("M", 2))
		} else {
			c.Append(vb, marker(1, 2), symbolPacket("M", 1), symbolPacket("M", 2))
		}
	}
	if p.Mitigation {
		o.Mitigation = true
		for vb := uint16(0); vb < 4; vb++ {
			c.SetPersist(vb, 0, gocbcore.SimPersist{VbUUID: c.Vb[vb].Failover[0].VbUUID, Persist: 2, Current: 2})
		}
	}
	e := NewDcpEnv(c, o)
	if e.Err != nil {
		vrt.Failf("newDcp: %v", e.Err)
		return
	}
	type hev struct {
		name string
		t    int64
		idx  int
	}
	var hlog []hev
	order := 0
	e.EH.On = func(n string) { order++; hlog = append(hlog, hev{n, vrt.NowNanos(), order}) }
	var consumeIdx []int
	e.Cons.OnConsume = func(d *Delivered) {
		order++
		consumeIdx = append(consumeIdx, order)
		if p.Mitigation && d.Seq > 2 {
			vrt.Failf("%s membership, rollback mitigation on: event vb%d seq %d was delivered although no copy ever reported it persisted (handler log so far: %v)", p.Membership, d.Vb, d.Seq, e.EH.Log)
		}
	}
	inEffect := [2]int{1, 1}
	if p.Membership == "dynamic" {
		vrt.GoNamed("first-membership", func() {
			vrt.Sleep(1)
			e.bus().Publish(helpers.MembershipChangedBusEventName, &membership.Model{MemberNumber: 1, TotalMembers: 1})
		})
	}
	e.Start()
	vrt.Quiesce()
	c.WaitIdle()
	vrt.Quiesce()
	if len(e.Cons.Events) != 8 {
		vrt.Failf("harness: %d events before the burst", len(e.Cons.Events))
		return
	}
	if p.FailedSave {
		// the commit before the burst is rejected by the store (one write answered with a temporary failure): the
		// session carries on with a failed save behind it
		failNext := true
		c.Fault = func(r *gocbcore.SimRequest) gocbcore.SimAnswer {
			if failNext && r.Kind == "mutatein" {
				failNext = false
				return gocbcore.SimAnswer{Kind: "err", Err: &gocbcore.KeyValueError{InnerError: gocbcore.ErrTemporaryFailure, StatusCode: memd.StatusTmpFail}}
			}
			return gocbcore.SimAnswer{}
		}
	}
	e.D.Commit()
	c.Fault = nil
	a := newAPI(e.Cfg, e.D.GetClient(), dcpStream(e), []prometheus.Collector{}, e.bus(), dcp.VerifDiscovery(e.D))
	readyIdx := len(hlog)
	readyOrder := order
	if p.Hold {
		// adversarial delay of the membership subscriber of the bus (dynamicMembership's listener is the
		// first handler of the topic, i.e. the third bus thread of this execution) until the re-open has begun
		vrt.Hold("EventBus|Publish:|$#2", func() bool {
			for _, h := range hlog[readyIdx:] {
				if h.name == "BRE" {
					return true
				}
			}
			return false
		})
	}
	if p.HoldWait {
		vrt.Hold("stream.(*stream).Open:", func() bool {
			for _, h := range hlog[readyIdx:] {
				if h.name == "ARE" {
					return true
				}
			}
			return false
		})
	}
	if p.CloseFault {
		armed := true
		c.Fault = func(r *gocbcore.SimRequest) gocbcore.SimAnswer {
			if armed && r.Kind == "closestream" && r.Vb == 1 {
				armed = false
				return gocbcore.SimAnswer{Kind: "applydrop"}
			}
			return gocbcore.SimAnswer{}
		}
	}
	// the burst
	n := 1
	if p.Tight {
		n = 2
	} else if p.MaxN > 1 {
		n = 1 + vrt.Choose(p.MaxN, true, "burst-size")
	}
	vals := [][2]int{{1, 1}, {1, 2}, {2, 2}}
	gaps := []time.Duration{0, delay / 2, delay, 2 * delay}
	srcs := []string{"bus", "api-info", "api-rebalance"}
	if p.Membership == "dynamic" {
		gaps = []time.Duration{0, time.Millisecond, time.Second}
	} else {
		srcs = []string{"api-rebalance", "bus"} // static membership ignores the value; the bus still triggers Rebalance()
		vals = [][2]int{{1, 1}}
	}
	var ns []*notif
	vrt.Window(true)
	apiInfo := [2]int{0, 0}
	for i := 0; i < n; i++ {
		var nt *notif
		if p.Tight {
			nt = &notif{src: []string{"bus", "api-rebalance"}[i], val: [2]int{1, 1}}
		} else {
			nt = &notif{src: srcs[vrt.Choose(len(srcs), true, "source")], val: vals[vrt.Choose(len(vals), true, "value")]}
			if i > 0 {
				nt.gap = gaps[vrt.Choose(len(gaps), true, "gap")]
				vrt.Sleep(nt.gap)
			}
		}
		if !p.Tight && nt.src == "api-info" && nt.val == inEffect && nt.val != apiInfo {
			// a PUT that repeats the numbering another source has put into effect, while the API itself has not
			// seen it yet: the property allows either reaction (the repetition clause vs. the API's own
			// de-duplication against its last request); left out
			continue
		}
		// events keep arriving on the server while all this happens
		for vb := uint16(0); vb < 4; vb++ {
			s := c.Vb[vb].High + 1
			if p.Mitigation {
				c.Append(vb, symbolPacket("M", s))
				continue
			}
			c.Append(vb, marker(s, s), symbolPacket("M", s))
		}
		if p.Mitigation {
			vrt.Sleep(time.Second) // the DCP thread takes the first new event and parks at the gate
		}
		nt.at = vrt.NowNanos()
		nt.took = true
		switch nt.src {
		case "bus":
			e.bus().Publish(helpers.MembershipChangedBusEventName, &membership.Model{MemberNumber: nt.val[0], TotalMembers: nt.val[1]})
			inEffect = nt.val
		case "api-info":
			body := fmt.Sprintf(`{"memberNumber":%d,"totalMembers":%d}`, nt.val[0], nt.val[1])
			if _, _, err := api.VerifPutInfo(a, []byte(body)); err != nil {
				vrt.Failf("PUT /membership/info failed: %v", err)
			}
			if nt.val == apiInfo {
				nt.took = false // same as the last value given to the API: must cause no interruption
			} else {
				inEffect = nt.val
			}
			apiInfo = nt.val
		case "api-rebalance":
			_, body, _ := api.VerifRebalance(a)
			if strings.Contains(body, "skipped") {
				nt.took = false
			}
		}
		ns = append(ns, nt)
	}
	// let the system converge
	if p.CloseFault {
		vrt.Sleep(2 * time.Minute) // the unanswered close request runs into its 60 s timeout first
	}
	vrt.Sleep(3*delay + time.Second)
	if !p.Mitigation { // (with events parked at the gate the DCP thread polls for ever: there is no quiescence to wait for)
		vrt.Quiesce()
		c.WaitIdle()
		vrt.Quiesce()
	}
	vrt.Window(false)
	var desc []string
	for _, nt := range ns {
		desc = append(desc, fmt.Sprintf("%s(%d/%d)+%v", nt.src, nt.val[0], nt.val[1], nt.gap))
	}
	d := fmt.Sprintf("%s %v", p.Membership, desc)
	// --- oracle ---
	var names []string
	for _, h := range hlog[readyIdx:] {
		names = append(names, h.name)
	}
	seq := strings.Join(names, " ")
	if e.Done {
		why := ""
		if strings.HasSuffix(seq, "ARE BSS ASS") {
			// the server never ended a stream in this scenario; the stop signal was raised right after a re-open
			why = " [the client stopped right after a completed re-open although no vBucket stream had ended: a stream-finish token left over from the rebalance's own Close() was consumed by the wait() of the new session]"
		}
		vrt.Failf("%s: Start() returned - a rebalance terminated the client (%s)%s", d, seq, why)
		vrt.SetOutcome(fmt.Sprintf("%s|%s|terminated", d, seq))
		return
	}
	// bracket grammar: (BRS BSS ASS ARS BRE BSStart ASStart ARE)* ; a notification that is absorbed by the
	// debounce produces no callbacks
	cycle := "BRS BSS ASS ARS BRE BSStart ASStart ARE"
	rest := strings.TrimSpace(strings.ReplaceAll(seq+" ", cycle+" ", ""))
	if rest != "" {
		vrt.Failf("%s: lifecycle callbacks are not properly bracketed: %q", d, seq)
	}
	cycles := strings.Count(seq, cycle)
	// bursts by the property's definition
	took := 0
	for _, nt := range ns {
		if nt.took {
			took++
		}
	}
	var reopenStarts []int64
	for _, h := range hlog[readyIdx:] {
		if h.name == "BRE" {
			reopenStarts = append(reopenStarts, h.t)
		}
	}
	// bursts by the property's definition; a notification within one microsecond of the start of a
	// re-open is a genuine tie (it may count as arriving before or after), so both readings are computed
	countBursts := func(tol int64) (int, []int64) {
		n := 0
		var last []int64
		ri := 0
		open := false
		for _, nt := range ns {
			if !nt.took {
				continue
			}
			for open && ri < len(reopenStarts) && nt.at+tol >= reopenStarts[ri] {
				open = false
				ri++
			}
			if !open {
				n++
				open = true
				last = append(last, nt.at)
			} else {
				last[len(last)-1] = nt.at
			}
		}
		return n, last
	}
	minB, lastOfBurst := countBursts(-1000)
	maxB, lastLenient := countBursts(1000)
	if maxB < minB {
		minB, maxB = maxB, minB
	}
	bursts := minB
	if took == 0 {
		if cycles != 0 {
			vrt.Failf("%s: no effective notification, but the stream was interrupted %d times (%s)", d, cycles, seq)
		}
	} else if cycles < minB || cycles > maxB {
		why := ""
		// a second cycle that starts the very moment the first re-open of the session ends: a Rebalance()
		// call had been queued on the rebalance lock (the debounce test needs the timer, which the first
		// rebalance of a session sets only after its stream close)
		var ares, brss []int64
		for _, h := range hlog[readyIdx:] {
			if h.name == "ARE" {
				ares = append(ares, h.t)
			}
			if h.name == "BRS" {
				brss = append(brss, h.t)
			}
		}
		// Where did the surplus cycle come from? Every notification that did not itself start a cycle (no
		// BeforeRebalanceStart within 1 ms of it) is placed in the lifecycle:
		//   - inside the close phase of the FIRST cycle of the session (rebalanceTimer still nil): its
		//     Rebalance() call queues on the rebalance lock and runs a cycle of its own right after the re-open;
		//   - while a re-open is running, or inside the close phase of a LATER cycle (the timer the debounce
		//     branch finds has already fired): the branch re-schedules Rebalance() itself one delay later.
		var arss, bres []int64
		for _, h := range hlog[readyIdx:] {
			if h.name == "ARS" {
				arss = append(arss, h.t)
			}
			if h.name == "BRE" {
				bres = append(bres, h.t)
			}
		}
		origin2, origin3 := false, false
		for _, nt := range ns {
			if !nt.took {
				continue
			}
			starter := false
			for _, bt := range brss {
				if nt.at <= bt && bt-nt.at < int64(time.Millisecond) {
					starter = true
				}
			}
			if starter {
				// (two notifications at the same instant: only one of them starts the cycle)
				n := 0
				for _, o := range ns {
					if o.took && o.at <= nt.at+int64(time.Millisecond) && nt.at <= o.at+int64(time.Millisecond) {
						n++
					}
				}
				if n < 2 {
					continue
				}
			}
			for i := range brss {
				if i < len(arss) && nt.at >= brss[i]-1000 && nt.at <= arss[i]+1000 {
					if i == 0 {
						origin2 = true
					} else {
						origin3 = true
					}
				}
				if i < len(bres) && i < len(ares) && nt.at >= bres[i]-1000 && nt.at <= ares[i]+1000 {
					origin3 = true
				}
			}
		}
		if cycles > maxB && origin3 {
			why = " [a cycle that no notification started: Rebalance() re-scheduled by the debounce branch, which found a timer that had already fired, ran as a full extra cycle one delay later]"
		} else if cycles > maxB && origin2 {
			direct := false
			for _, nt := range ns {
				if nt.src == "api-rebalance" {
					direct = true
				}
			}
			if direct {
				// GET /rebalance calls Rebalance() directly, concurrently with the bus listener
				why = " [second Rebalance() queued on the rebalance lock behind the first rebalance of the session]"
			} else {
				// notifications that all came over the bus are handed to the listener one at a time (transactional
				// subscription): two of them inside Rebalance() at once must not happen
				why = " [a second Rebalance() was queued on the rebalance lock although every notification came over the bus, whose listener runs one notification at a time]"
			}
		}
		vrt.Failf("%s: %d burst(s) of notifications but the stream was closed and re-opened %d time(s) (%s)%s", d, bursts, cycles, seq, why)
	}
	// the re-open does not start before last notification + delay (immediately for dynamic membership)
	// (only when bursts and cycles pair up one to one: with a surplus or missing cycle - reported above - "the
	// re-open of burst i" is not defined, and a Rebalance() call queued on the rebalance lock also blocks the
	// notifying thread of this harness, which shifts every later notification)
	if p.Membership == "static" && took > 0 && cycles >= minB && cycles <= maxB {
		for i, rs := range reopenStarts {
			early := i < len(lastOfBurst) && rs < lastOfBurst[i]+int64(delay)
			earlyLenient := i < len(lastLenient) && rs < lastLenient[i]+int64(delay)
			if early && earlyLenient {
				vrt.Failf("%s: re-open %d started %v after the last notification of its burst, the delay is %v", d, i, time.Duration(rs-lastOfBurst[i]), delay)
			}
		}
	}
	// no delivery while closed: between ASS and the next BSStart
	var closedFrom int
	for _, h := range hlog[readyIdx:] {
		switch h.name {
		case "ASS":
			closedFrom = h.idx
		case "BSStart":
			for _, ci := range consumeIdx {
				if ci > closedFrom && ci < h.idx && ci > readyOrder {
					vrt.Failf("%s: an event was delivered while the stream was closed", d)
				}
			}
			closedFrom = 0
		}
	}
	// converged on the range of the most recent membership information, from the stored checkpoints
	if cycles > 0 {
		want := rangeOf(inEffect)
		if p.Membership == "static" {
			want = [2]uint16{0, 3}
		}
		// stream requests of the last re-open
		var lastOpen []uint16
		var lastT int64
		if len(reopenStarts) > 0 {
			lastT = reopenStarts[len(reopenStarts)-1]
		}
		for _, r := range c.Requests {
			if r.Kind == "openstream" && r.Issued >= lastT && lastT > 0 {
				lastOpen = append(lastOpen, r.Vb)
				st, _ := e.StoredSeq(r.Vb)
				if r.Args[2] != st {
					vrt.Failf("%s: vb%d re-opened from %d, its stored checkpoint is %d", d, r.Vb, r.Args[2], st)
				}
			}
		}
		got := map[uint16]bool{}
		for _, v := range lastOpen {
			got[v] = true
		}
		for vb := uint16(0); vb < 4; vb++ {
			in := vb >= want[0] && vb <= want[1]
			tag := ""
			if p.Hold {
				tag = " [membership subscriber of the bus delayed past the re-open: stale membership information]"
			}
			if in != got[vb] {
				vrt.Failf("%s: after convergence vb%d streamed=%v, the most recent membership %d/%d assigns %v%s", d, vb, got[vb], inEffect[0], inEffect[1], want, tag)
			}
			if in != c.StreamOpen(vb) {
				vrt.Failf("%s: server-side stream of vb%d open=%v, want %v%s", d, vb, c.StreamOpen(vb), in, tag)
			}
		}
		m := dcp_discoveryMetric(e)
		if p.Membership == "dynamic" && (m[0] != inEffect[0] || m[1] != inEffect[1]) {
			tag := ""
			if p.Hold {
				tag = " [membership subscriber of the bus delayed past the re-open: stale membership information]"
			}
			vrt.Failf("%s: discovery reports member %d/%d, most recent information is %d/%d%s", d, m[0], m[1], inEffect[0], inEffect[1], tag)
		}
	}
	vrt.SetOutcome(fmt.Sprintf("%s|%s", d, seq))
}

func dcp_discoveryMetric(e *DcpEnv) [2]int {
	m := dcp.VerifDiscovery(e.D).GetMetric()
	return [2]int{m.MemberNumber, m.TotalMembers}
}

func apiFor(cfg *config.Dcp, bus EventBus.Bus) api.API {
	return newAPI(cfg, []prometheus.Collector{}, bus)
}

func apiPut(a api.API, body string) (int, string, error) { return api.VerifPutInfo(a, []byte(body)) }

// newAPI calls api.NewAPI through reflection, picking each argument by the parameter's type from the values
// on offer (nil / zero for a parameter nothing is offered for): a change that adds or reorders constructor
// parameters still builds and is judged by its behaviour instead of ending in "harness does not compile".
func newAPI(offer ...any) api.API {
	f := reflect.ValueOf(api.NewAPI)
	t := f.Type()
	args := make([]reflect.Value, t.NumIn())
	for i := range args {
		pt := t.In(i)
		args[i] = reflect.Zero(pt)
		for _, o := range offer {
			if o == nil {
				continue
			}
			ov := reflect.ValueOf(o)
			if ov.Type().AssignableTo(pt) {
				args[i] = ov
				break
			}
		}
	}
	return f.Call(args)[0].Interface().(api.API)
}

// c11_collections: "reopened ... resuming from the stored checkpoints, a rebalance never terminates the client"
// with a collection filter configured next to a busy foreign collection: the last thing a vBucket saw is a
// seqno-advanced event (the item behind it belongs to the other collection), so its stored position lies
// beyond the streamed collection's own high seqno - and at or below the vBucket's.
func init() {
	scenarios["c11_collections"] = func(raw json.RawMessage) *vrt.Scenario {
		return &vrt.Scenario{Name: "c11_collections", FreeChoices: true, NoTimerAlt: true, MaxSteps: 400000, Main: func() {
			resetGlobals()
			restart := vrt.Choose(2, true, "restart-instead-of-rebalance") == 1
			o := EnvOpts{Vbs: 2, CheckpointType: "manual", WrapMeta: true, RebalanceDelay: time.Second, Collections: []string{"c1"}}
			c := NewCluster(&o)
			// vb0: a document of c1, then an item of a foreign collection (announced to the filtered stream as
			// seqno-advanced); vb1: c1 only
			c.Append(0, marker(1, 2), docPacket("mutation", 1, "k1", "after", 8), symbolPacket("SEQ", 2))
			c.Append(1, marker(1, 1), docPacket("mutation", 1, "j1", "after", 8))
			e := NewEnv(c, o)
			e.Cons.AutoAck = true
			e.Stream.Open()
			c.WaitIdle()
			vrt.Quiesce()
			e.Stream.Save()
			if st, _ := e.StoredSeq(0); st != 2 {
				vrt.Failf("harness: stored position of vb0 is %d, want 2", st)
				return
			}
			n0 := len(c.Requests)
			if restart {
				c.KillAgents()
				e.Cons.Disabled = true
				e = NewEnv(c, o)
				e.Stream.Open()
			} else {
				e.Stream.Rebalance()
				vrt.Sleep(3 * time.Second)
			}
			vrt.Quiesce()
			c.WaitIdle()
			what := map[bool]string{true: "restart", false: "rebalance"}[restart]
			for vb := uint16(0); vb < 2; vb++ {
				if !c.StreamOpen(vb) {
					vrt.Failf("after a %s: vb%d is not streamed", what, vb)
				}
			}
			for _, r := range c.Requests[n0:] {
				if r.Kind == "openstream" && r.Vb == 0 && r.Args[2] != 2 {
					vrt.Failf("after a %s: vb0 was requested from %d, its stored position is 2", what, r.Args[2])
				}
			}
			vrt.SetOutcome(what)
		}}
	}
}
