package main

import (
	"os"
	"testing"
)

// TestReplay re-executes a recorded violation as a plain unit test, without the explorer:
//
//	/verif/bin/check replay-test /verif/replays/<file>.json
//
// (which runs `VERIF_REPLAY=<file> go test -overlay <instrumented tree> -vet=off -run TestReplay ./harness`).
// The test FAILS when the recorded schedule / history still violates the property on the current tree.
func TestReplay(t *testing.T) {
	f := os.Getenv("VERIF_REPLAY")
	if f == "" {
		t.Skip("VERIF_REPLAY not set")
	}
	switch cmdReplay([]string{f}) {
	case 1:
		t.Fatalf("the recorded execution %s still violates the property (reproduced 5/5)", f)
	case 2:
		t.Fatalf("replay could not run or diverged between runs")
	}
}
