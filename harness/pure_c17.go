package main

import (
	"fmt"
	"math/big"
	"os"
	"path/filepath"
	"reflect"
	"strings"
	"sync"
	"time"

	dcp "github.com/Trendyol/go-dcp"
	"github.com/Trendyol/go-dcp/config"
	"github.com/Trendyol/go-dcp/helpers"
	"github.com/Trendyol/go-dcp/logger"
)

// One defaultable option: how to set it explicitly (two distinct non-zero values), how to read it, and
// the documented default (README configuration table; membership type: code default "couchbase").
type optSpec struct {
	name string
	set  func(c *config.Dcp, variant int)
	get  func(c *config.Dcp) any
	def  any
}

func durOpt(name string, f func(c *config.Dcp) *time.Duration, def time.Duration) optSpec {
	return optSpec{name, func(c *config.Dcp, v int) { *f(c) = time.Duration(7+v*13) * time.Second }, func(c *config.Dcp) any { return *f(c) }, def}
}
func intOpt(name string, f func(c *config.Dcp) *int, def int) optSpec {
	return optSpec{name, func(c *config.Dcp, v int) { *f(c) = 3 + v*5 }, func(c *config.Dcp) any { return *f(c) }, def}
}
func strOpt(name string, f func(c *config.Dcp) *string, def string, vals [2]string) optSpec {
	return optSpec{name, func(c *config.Dcp, v int) { *f(c) = vals[v] }, func(c *config.Dcp) any { return *f(c) }, def}
}

var mb20 = 20 * 1024 * 1024

func c17Options() []optSpec {
	return []optSpec{
		durOpt("rollbackMitigation.interval", func(c *config.Dcp) *time.Duration { return &c.RollbackMitigation.Interval }, time.Second),
		durOpt("rollbackMitigation.configWatchInterval", func(c *config.Dcp) *time.Duration { return &c.RollbackMitigation.ConfigWatchInterval }, 10*time.Second),
		durOpt("checkpoint.interval", func(c *config.Dcp) *time.Duration { return &c.Checkpoint.Interval }, time.Minute),
		durOpt("checkpoint.timeout", func(c *config.Dcp) *time.Duration { return &c.Checkpoint.Timeout }, time.Minute),
		strOpt("checkpoint.type", func(c *config.Dcp) *string { return &c.Checkpoint.Type }, "auto", [2]string{"manual", "x"}),
		strOpt("checkpoint.autoReset", func(c *config.Dcp) *string { return &c.Checkpoint.AutoReset }, "earliest", [2]string{"latest", "y"}),
		durOpt("healthCheck.interval", func(c *config.Dcp) *time.Duration { return &c.HealthCheck.Interval }, time.Minute),
		durOpt("healthCheck.timeout", func(c *config.Dcp) *time.Duration { return &c.HealthCheck.Timeout }, time.Minute),
		durOpt("dcp.group.membership.rebalanceDelay", func(c *config.Dcp) *time.Duration { return &c.Dcp.Group.Membership.RebalanceDelay }, 30*time.Second),
		intOpt("dcp.group.membership.totalMembers", func(c *config.Dcp) *int { return &c.Dcp.Group.Membership.TotalMembers }, 1),
		intOpt("dcp.group.membership.memberNumber", func(c *config.Dcp) *int { return &c.Dcp.Group.Membership.MemberNumber }, 1),
		strOpt("dcp.group.membership.type", func(c *config.Dcp) *string { return &c.Dcp.Group.Membership.Type }, "couchbase", [2]string{"static", "dynamic"}),
		durOpt("dcp.connectionTimeout", func(c *config.Dcp) *time.Duration { return &c.Dcp.ConnectionTimeout }, time.Minute),
		durOpt("connectionTimeout", func(c *config.Dcp) *time.Duration { return &c.ConnectionTimeout }, time.Minute),
		{"collectionNames", func(c *config.Dcp, v int) { c.CollectionNames = [][]string{{"a"}, {"b", "c"}}[v] }, func(c *config.Dcp) any { return strings.Join(c.CollectionNames, ",") }, "_default"},
		strOpt("scopeName", func(c *config.Dcp) *string { return &c.ScopeName }, "_default", [2]string{"s1", "s2"}),
		{"connectionBufferSize", func(c *config.Dcp, v int) { c.ConnectionBufferSize = []any{uint(4096), "3mb"}[v] }, func(c *config.Dcp) any { return c.ConnectionBufferSize }, mb20},
		intOpt("maxQueueSize", func(c *config.Dcp) *int { return &c.MaxQueueSize }, 2048),
		strOpt("metric.path", func(c *config.Dcp) *string { return &c.Metric.Path }, "/metrics", [2]string{"/m", "/n"}),
		intOpt("api.port", func(c *config.Dcp) *int { return &c.API.Port }, 8080),
		strOpt("leaderElection.type", func(c *config.Dcp) *string { return &c.LeaderElection.Type }, "kubernetes", [2]string{"k", "l"}),
		intOpt("leaderElection.rpc.port", func(c *config.Dcp) *int { return &c.LeaderElection.RPC.Port }, 8081),
		{"dcp.bufferSize", func(c *config.Dcp, v int) { c.Dcp.BufferSize = []any{1234, "2mb"}[v] }, func(c *config.Dcp) any { return c.Dcp.BufferSize }, 16 * 1024 * 1024},
		{"dcp.connectionBufferSize", func(c *config.Dcp, v int) { c.Dcp.ConnectionBufferSize = []any{uint(999), "1kb"}[v] }, func(c *config.Dcp) any { return c.Dcp.ConnectionBufferSize }, mb20},
		intOpt("dcp.maxQueueSize", func(c *config.Dcp) *int { return &c.Dcp.MaxQueueSize }, 2048),
		strOpt("metadata.type", func(c *config.Dcp) *string { return &c.Metadata.Type }, "couchbase", [2]string{"file", "z"}),
	}
}

// one application: subset mask -> apply defaults twice -> compare
func c17Apply(opts []optSpec, mask uint64, variant int) string {
	var c config.Dcp
	want := make([]any, len(opts))
	for i, o := range opts {
		if mask&(1<<uint(i)) != 0 {
			o.set(&c, (variant+i)%2)
			want[i] = o.get(&c)
		} else {
			want[i] = o.def
		}
	}
	c.ApplyDefaults()
	for i, o := range opts {
		if got := o.get(&c); !reflect.DeepEqual(got, want[i]) {
			kind := "explicit value altered"
			if mask&(1<<uint(i)) == 0 {
				kind = "wrong default"
			}
			return fmt.Sprintf("%s: option %s = %v (%T), want %v (%T) [set mask %x]", kind, o.name, got, got, want[i], want[i], mask)
		}
	}
	first := c
	c.ApplyDefaults()
	if !reflect.DeepEqual(first, c) {
		return fmt.Sprintf("ApplyDefaults is not idempotent [set mask %x]", mask)
	}
	return ""
}

func popcount(x uint64) int {
	n := 0
	for ; x != 0; x &= x - 1 {
		n++
	}
	return n
}

func c17Pure(tier string) *PureResult {
	resetGlobals()
	res := &PureResult{Exhaustive: true}
	opts := c17Options()
	n := len(opts)
	var mu sync.Mutex
	add := func(msg string) {
		mu.Lock()
		if len(res.Violations) < 10 {
			res.Violations = append(res.Violations, pureViolation("C17", msg))
		}
		mu.Unlock()
	}
	os.Unsetenv("GO_DCP__DCP_GROUP_MEMBERSHIP_TOTALMEMBERS")
	os.Unsetenv("GO_DCP__DCP_GROUP_MEMBERSHIP_MEMBERNUMBER")
	total := uint64(1) << uint(n)
	chunks := 256
	parallelFor(0, chunks-1, func(ci int) {
		var evals int64
		for mask := uint64(ci); mask < total; mask += uint64(chunks) {
			if tier == "quick" {
				pc := popcount(mask)
				if pc > 3 && pc < n-2 {
					continue
				}
			}
			evals++
			if msg := c17Apply(opts, mask, int(mask%2)); msg != "" {
				add(msg)
			}
		}
		mu.Lock()
		res.Evaluations += evals
		res.Distinct += evals
		mu.Unlock()
	})
	if tier == "quick" {
		res.Notes = append(res.Notes, fmt.Sprintf("quick: all subsets of the %d options of size <=3 or >=%d; thorough: all 2^%d subsets", n, n-2, n))
	} else {
		res.Notes = append(res.Notes, fmt.Sprintf("all 2^%d subsets of the defaultable options", n))
	}
	// logging level (27th option) is only defaulted while no logger is installed
	{
		logger.Log = nil
		var c config.Dcp
		c.ApplyDefaults()
		if c.Logging.Level != "info" {
			add(fmt.Sprintf("logging.level default = %q, want info", c.Logging.Level))
		}
		logger.Log = nil
		c = config.Dcp{}
		c.Logging.Level = "debug"
		c.ApplyDefaults()
		if c.Logging.Level != "debug" {
			add("explicit logging.level altered")
		}
		resetGlobals()
		res.Evaluations += 2
	}
	// environment overrides win over file values
	for _, mtype := range []string{"", "static", "couchbase", "kubernetesStatefulSet"} {
		for _, fileM := range []int{0, 3} {
			for _, fileVal := range []int{0, 2, 3} {
				for _, envT := range []string{"", "5"} {
					for _, envM := range []string{"", "4"} {
						os.Setenv("GO_DCP__DCP_GROUP_MEMBERSHIP_TOTALMEMBERS", envT)
						os.Setenv("GO_DCP__DCP_GROUP_MEMBERSHIP_MEMBERNUMBER", envM)
						var c config.Dcp
						c.Dcp.Group.Membership.Type = mtype
						c.Dcp.Group.Membership.TotalMembers = fileVal
						c.Dcp.Group.Membership.MemberNumber = fileM
						c.ApplyDefaults()
						wantT, wantM := fileVal, fileM
						if fileVal == 0 {
							wantT = 1
						}
						if fileM == 0 {
							wantM = 1
						}
						if envT != "" {
							wantT = 5
						}
						if envM != "" {
							wantM = 4
						}
						res.Evaluations++
						res.Distinct++
						if c.Dcp.Group.Membership.TotalMembers != wantT || c.Dcp.Group.Membership.MemberNumber != wantM {
							add(fmt.Sprintf("membership type %q, file total=%d member=%d, env total=%q member=%q -> total=%d member=%d, want %d/%d", mtype, fileVal, fileM, envT, envM,
								c.Dcp.Group.Membership.TotalMembers, c.Dcp.Group.Membership.MemberNumber, wantT, wantM))
						}
					}
				}
			}
		}
	}
	os.Unsetenv("GO_DCP__DCP_GROUP_MEMBERSHIP_TOTALMEMBERS")
	os.Unsetenv("GO_DCP__DCP_GROUP_MEMBERSHIP_MEMBERNUMBER")
	c17Switches(res, add)
	c17Derived(res, add)
	c17Sequences(res, add)
	c17Sizes(tier, res, add)
	c17Placeholders(res, add)
	res.States = res.Evaluations
	res.Transitions = res.Evaluations
	res.Samples = append(res.Samples, map[string]any{"set": []string{opts[0].name, opts[16].name}, "mask": 1 | 1<<16}, "1,5 mb -> 1572864", "hosts: ${A}${B} with A=x")
	return res
}

// derived Couchbase-metadata / membership / leader-election settings: all subsets of override keys
func c17Derived(res *PureResult, add func(string)) {
	// (the main connection with and without TLS: the CA path is inherited either way, and the metadata connection
	// may switch TLS on by itself)
	for _, mainTLS := range []bool{true, false} {
		c17DerivedMetadata(res, add, mainTLS)
	}
	c17DerivedRest(res, add)
}

func c17DerivedMetadata(res *PureResult, add func(string), mainTLS bool) {
	base := config.Dcp{Hosts: []string{"h1", "h2"}, Username: "user", Password: "pw", BucketName: "bk", SecureConnection: mainTLS, RootCAPath: "/ca"}
	type kv struct {
		key, val string
		chk      func(m *config.CouchbaseMetadata) (any, any, any) // got, overridden, inherited
	}
	keys := []kv{
		{"hosts", "m1,m2", func(m *config.CouchbaseMetadata) (any, any, any) { return strings.Join(m.Hosts, ","), "m1,m2", "h1,h2" }},
		{"username", "mu", func(m *config.CouchbaseMetadata) (any, any, any) { return m.Username, "mu", "user" }},
		{"password", "mp", func(m *config.CouchbaseMetadata) (any, any, any) { return m.Password, "mp", "pw" }},
		{"bucket", "mb", func(m *config.CouchbaseMetadata) (any, any, any) { return m.Bucket, "mb", "bk" }},
		{"scope", "ms", func(m *config.CouchbaseMetadata) (any, any, any) { return m.Scope, "ms", "_default" }},
		{"collection", "mc", func(m *config.CouchbaseMetadata) (any, any, any) { return m.Collection, "mc", "_default" }},
		{"maxQueueSize", "77", func(m *config.CouchbaseMetadata) (any, any, any) { return m.MaxQueueSize, 77, 2048 }},
		{"connectionBufferSize", "2kb", func(m *config.CouchbaseMetadata) (any, any, any) {
			return m.ConnectionBufferSize, uint(2048), uint(5242880)
		}},
		{"connectionTimeout", "9s", func(m *config.CouchbaseMetadata) (any, any, any) {
			return m.ConnectionTimeout, 9 * time.Second, time.Minute
		}},
		{"secureConnection", fmt.Sprint(!mainTLS), func(m *config.CouchbaseMetadata) (any, any, any) { return m.SecureConnection, !mainTLS, mainTLS }},
		{"rootCAPath", "/mca", func(m *config.CouchbaseMetadata) (any, any, any) { return m.RootCAPath, "/mca", "/ca" }},
	}
	for mask := 0; mask < 1<<len(keys); mask++ {
		c := base
		c.Metadata.Config = map[string]string{}
		for i, k := range keys {
			if mask&(1<<i) != 0 {
				c.Metadata.Config[k.key] = k.val
			}
		}
		m := c.GetCouchbaseMetadata()
		res.Evaluations++
		res.Distinct++
		for i, k := range keys {
			got, over, inh := k.chk(m)
			want := inh
			if mask&(1<<i) != 0 {
				want = over
			}
			if !reflect.DeepEqual(got, want) {
				add(fmt.Sprintf("couchbase metadata %s = %v, want %v (override mask %x, main connection TLS %v)", k.key, got, want, mask, mainTLS))
			}
		}
	}
}

func c17DerivedRest(res *PureResult, add func(string)) {
	// membership: 2^5 subsets
	mkeys := []struct {
		key, val string
		chk      func(m *config.CouchbaseMembership) (any, any, any)
	}{
		{"expirySeconds", "33", func(m *config.CouchbaseMembership) (any, any, any) { return m.ExpirySeconds, uint32(33), uint32(120) }},
		{"heartbeatInterval", "3s", func(m *config.CouchbaseMembership) (any, any, any) {
			return m.HeartbeatInterval, 3 * time.Second, 10 * time.Second
		}},
		{"heartbeatToleranceDuration", "4s", func(m *config.CouchbaseMembership) (any, any, any) {
			return m.HeartbeatToleranceDuration, 4 * time.Second, time.Minute
		}},
		{"monitorInterval", "5s", func(m *config.CouchbaseMembership) (any, any, any) {
			return m.MonitorInterval, 5 * time.Second, 30 * time.Second
		}},
		{"timeout", "6s", func(m *config.CouchbaseMembership) (any, any, any) {
			return m.Timeout, 6 * time.Second, 30 * time.Second
		}},
	}
	for mask := 0; mask < 1<<len(mkeys); mask++ {
		var c config.Dcp
		c.Dcp.Group.Membership.Config = map[string]string{}
		for i, k := range mkeys {
			if mask&(1<<i) != 0 {
				c.Dcp.Group.Membership.Config[k.key] = k.val
			}
		}
		m := c.GetCouchbaseMembership()
		res.Evaluations++
		res.Distinct++
		for i, k := range mkeys {
			got, over, inh := k.chk(m)
			want := inh
			if mask&(1<<i) != 0 {
				want = over
			}
			if !reflect.DeepEqual(got, want) {
				add(fmt.Sprintf("couchbase membership %s = %v, want %v (override mask %x)", k.key, got, want, mask))
			}
		}
	}
	// leader election: lock name and namespace are mandatory, three durations have defaults
	lkeys := []struct {
		key, val string
		chk      func(m *config.KubernetesLeaderElector) (any, any, any)
	}{
		{"leaseDuration", "11s", func(m *config.KubernetesLeaderElector) (any, any, any) {
			return m.LeaseDuration, 11 * time.Second, 8 * time.Second
		}},
		{"renewDeadline", "12s", func(m *config.KubernetesLeaderElector) (any, any, any) {
			return m.RenewDeadline, 12 * time.Second, 5 * time.Second
		}},
		{"retryPeriod", "13s", func(m *config.KubernetesLeaderElector) (any, any, any) {
			return m.RetryPeriod, 13 * time.Second, time.Second
		}},
	}
	for mask := 0; mask < 1<<len(lkeys); mask++ {
		var c config.Dcp
		c.LeaderElection.Config = map[string]string{"leaseLockName": "ln", "leaseLockNamespace": "ns"}
		for i, k := range lkeys {
			if mask&(1<<i) != 0 {
				c.LeaderElection.Config[k.key] = k.val
			}
		}
		m := c.GetKubernetesLeaderElector()
		res.Evaluations++
		res.Distinct++
		if m.LeaseLockName != "ln" || m.LeaseLockNamespace != "ns" {
			add("leader election lock name/namespace not taken from config")
		}
		for i, k := range lkeys {
			got, over, inh := k.chk(m)
			want := inh
			if mask&(1<<i) != 0 {
				want = over
			}
			if !reflect.DeepEqual(got, want) {
				add(fmt.Sprintf("leader election %s = %v, want %v (override mask %x)", k.key, got, want, mask))
			}
		}
	}
}

// c17Sequences: the derived settings are a function of the configuration as it is NOW - asked again after the
// configuration changed, or on a copy of a configuration that was already used, they follow the new values.
func c17Sequences(res *PureResult, add func(string)) {
	c := config.Dcp{Hosts: []string{"h1"}, Username: "user", Password: "pw", BucketName: "bk"}
	c.Metadata.Config = map[string]string{}
	type step struct {
		name   string
		change func(c *config.Dcp)
		want   func(m *config.CouchbaseMetadata) string
	}
	show := func(m *config.CouchbaseMetadata) string {
		return fmt.Sprintf("hosts=%v user=%s pw=%s bucket=%s scope=%s collection=%s timeout=%v", m.Hosts, m.Username, m.Password, m.Bucket, m.Scope, m.Collection, m.ConnectionTimeout)
	}
	steps := []step{
		{"first use", func(c *config.Dcp) {}, nil},
		{"bucket renamed", func(c *config.Dcp) { c.BucketName = "bk2" }, nil},
		{"scope overridden", func(c *config.Dcp) { c.Metadata.Config["scope"] = "s2" }, nil},
		{"credentials changed", func(c *config.Dcp) { c.Username, c.Password = "u2", "p2" }, nil},
		{"bucket overridden", func(c *config.Dcp) { c.Metadata.Config["bucket"] = "meta" }, nil},
		{"override removed", func(c *config.Dcp) { delete(c.Metadata.Config, "bucket") }, nil},
		{"hosts changed", func(c *config.Dcp) { c.Hosts = []string{"h9", "h8"} }, nil},
	}
	for i, st := range steps {
		st.change(&c)
		got := show(c.GetCouchbaseMetadata())
		// reference: the same configuration value asked for the first time
		fresh := c
		fresh.Metadata.Config = map[string]string{}
		for k, v := range c.Metadata.Config {
			fresh.Metadata.Config[k] = v
		}
		ref := config.Dcp{Hosts: append([]string{}, fresh.Hosts...), Username: fresh.Username, Password: fresh.Password, BucketName: fresh.BucketName}
		ref.Metadata.Config = fresh.Metadata.Config
		want := show(ref.GetCouchbaseMetadata())
		res.Evaluations++
		res.Distinct++
		if got != want {
			add(fmt.Sprintf("derived metadata settings after step %d (%s) on a configuration that was used before: %s; a fresh configuration with the same values gives %s", i, st.name, got, want))
		}
		// a copy of the used configuration with other values
		d := c
		d.BucketName = "copy-bucket"
		d.Metadata.Config = map[string]string{"collection": "cc"}
		m := d.GetCouchbaseMetadata()
		res.Evaluations++
		if m.Bucket != "copy-bucket" || m.Collection != "cc" {
			add(fmt.Sprintf("a copy of a used configuration (step %d) with bucket copy-bucket / collection cc derives bucket=%s collection=%s", i, m.Bucket, m.Collection))
		}
	}
	// leader election and membership: every key with a second, small value; asked twice
	for _, lease := range []string{"", "2s", "4s", "5s", "5001ms", "6s", "30s"} {
		for _, renew := range []string{"", "1s", "3s", "10s"} {
			var c config.Dcp
			c.LeaderElection.Config = map[string]string{"leaseLockName": "ln", "leaseLockNamespace": "ns"}
			wl, wr := 8*time.Second, 5*time.Second
			if lease != "" {
				c.LeaderElection.Config["leaseDuration"] = lease
				wl, _ = time.ParseDuration(lease)
			}
			if renew != "" {
				c.LeaderElection.Config["renewDeadline"] = renew
				wr, _ = time.ParseDuration(renew)
			}
			for rep := 0; rep < 2; rep++ {
				m := c.GetKubernetesLeaderElector()
				res.Evaluations++
				res.Distinct++
				if m.LeaseDuration != wl || m.RenewDeadline != wr || m.RetryPeriod != time.Second {
					add(fmt.Sprintf("leader election with leaseDuration=%q renewDeadline=%q: lease %v renew %v retry %v, want %v / %v / 1s (documented defaults unless overridden key by key)", lease, renew, m.LeaseDuration, m.RenewDeadline, m.RetryPeriod, wl, wr))
				}
			}
		}
	}
}

// size strings: digits[sep digits][blanks]unit against exact rational arithmetic
func c17Sizes(tier string, res *PureResult, add func(string)) {
	units := map[string]int64{"kb": 1024, "mb": 1024 * 1024, "gb": 1024 * 1024 * 1024}
	var spell []string
	for u := range units {
		for m := 0; m < 4; m++ {
			s := []byte(u)
			if m&1 != 0 {
				s[0] -= 32
			}
			if m&2 != 0 {
				s[1] -= 32
			}
			spell = append(spell, string(s))
		}
	}
	ints := []string{"0", "1", "5", "9", "10", "16", "20", "99", "100", "512", "999"}
	fracs := []string{"", "0", "5", "25", "75", "001", "125", "999", "5", "50", "500"}
	if tier == "thorough" {
		ints = nil
		for i := 0; i < 1000; i += 1 {
			ints = append(ints, fmt.Sprint(i))
		}
		fracs = []string{""}
		for i := 0; i < 1000; i += 7 {
			fracs = append(fracs, fmt.Sprintf("%03d", i), fmt.Sprint(i))
		}
	}
	check := func(in string, ip, fp string, mul int64) {
		got := func() (r int, bad bool) {
			defer func() {
				if recover() != nil {
					bad = true
				}
			}()
			return helpers.ResolveUnionIntOrStringValue(in), false
		}
		v, bad := got()
		res.Evaluations++
		// exact value: (ip.fp) * mul, truncated
		num := new(big.Rat)
		num.SetString(ip + "." + func() string {
			if fp == "" {
				return "0"
			}
			return fp
		}())
		num.Mul(num, new(big.Rat).SetInt64(mul))
		want := new(big.Int).Quo(num.Num(), num.Denom())
		if bad || !want.IsInt64() || int64(v) != want.Int64() {
			add(fmt.Sprintf("size %q resolves to %d (panic=%v), exact value %s", in, v, bad, want.String()))
		}
	}
	for _, ip := range ints {
		for _, fp := range fracs {
			for _, sep := range []string{".", ","} {
				if fp == "" && sep == "," {
					continue
				}
				for _, blanks := range []string{"", " ", "  "} {
					for _, u := range spell {
						num := ip
						if fp != "" {
							num += sep + fp
						}
						check(num+blanks+u, ip, fp, units[strings.ToLower(u)])
					}
				}
			}
		}
	}
	res.Distinct += int64(len(ints) * len(fracs))
	// plain integers, as string / int / uint
	for i := 0; i < 10000; i += 1 {
		s := fmt.Sprint(i)
		res.Evaluations += 3
		if helpers.ResolveUnionIntOrStringValue(s) != i || helpers.ResolveUnionIntOrStringValue(i) != i || helpers.ResolveUnionIntOrStringValue(uint(i)) != i {
			add(fmt.Sprintf("plain integer %d does not resolve to itself", i))
		}
	}
	// plain decimal integers written with leading zeros or a sign (quoted YAML values, ${VAR} substitutions,
	// values of the metadata.config map): they denote the decimal number
	for _, w := range []struct {
		s string
		v int
	}{{"00", 0}, {"07", 7}, {"0100", 100}, {"0512", 512}, {"016777216", 16777216}, {"0089", 89}, {"000999", 999}, {"+5", 5}} {
		got, bad := func() (r int, bad bool) {
			defer func() {
				if recover() != nil {
					bad = true
				}
			}()
			return helpers.ResolveUnionIntOrStringValue(w.s), false
		}()
		res.Evaluations++
		res.Distinct++
		if bad || got != w.v {
			add(fmt.Sprintf("the integer string %q resolves to %d (panic=%v), it denotes %d", w.s, got, bad, w.v))
		}
	}
}

// ${VAR} placeholders in a config file, through the real loader
func c17Placeholders(res *PureResult, add func(string)) {
	dir, err := os.MkdirTemp("", "c17")
	if err != nil {
		add("tmpdir: " + err.Error())
		return
	}
	defer os.RemoveAll(dir)
	layouts := []string{"${A}", "x${A}", "${A}y", "${A}${A}", "${A}${B}", "p${A}q${B}r", "${B}-${A}-${B}", "plain", "${A}${B}${A}"}
	// values: plain, and values carrying characters that are special in regexp replacement templates / YAML
	// plain scalars (the value must arrive verbatim)
	// ("" = the variable is unset; setEmpty = it is set, to the empty string - a set variable is replaced)
	const setEmpty = "\x00set-to-the-empty-string"
	aVals := []string{"", setEmpty, "va", "p$w", "a$1b", "$$", "x$", "$0y", "a b", "ü-1", "$A", "a:b", "#c"}
	bVals := []string{"", setEmpty, "vb", "v$2"}
	for _, lay := range layouts {
		for _, av := range aVals {
			for _, bv := range bVals {
				aSet, bSet := av != "", bv != ""
				if av == setEmpty {
					av = ""
				}
				if bv == setEmpty {
					bv = ""
				}
				os.Unsetenv("A")
				os.Unsetenv("B")
				if aSet {
					os.Setenv("A", av)
				}
				if bSet {
					os.Setenv("B", bv)
				}
				want := lay
				if aSet {
					want = strings.ReplaceAll(want, "${A}", av)
				}
				if bSet {
					want = strings.ReplaceAll(want, "${B}", bv)
				}
				file := filepath.Join(dir, "c.yml")
				yml := fmt.Sprintf("hosts:\n  - \"%s\"\nusername: \"%s\"\nbucketName: \"%s\"\ndcp:\n  group:\n    name: \"%s\"\nmetadata:\n  config:\n    bucket: \"%s\"\n", lay, lay, lay, lay, lay)
				_ = os.WriteFile(file, []byte(yml), 0o644)
				c, err := dcp.VerifNewDcpConfig(file)
				res.Evaluations++
				res.Distinct++
				if err != nil {
					add(fmt.Sprintf("config with %q (A=%q B=%q) failed to load: %v", lay, av, bv, err))
					continue
				}
				for name, got := range map[string]string{"hosts[0]": c.Hosts[0], "username": c.Username, "bucketName": c.BucketName, "dcp.group.name": c.Dcp.Group.Name, "metadata.config.bucket": c.Metadata.Config["bucket"]} {
					if got != want {
						add(fmt.Sprintf("placeholder layout %q (A set=%v %q, B set=%v %q): %s = %q, want %q", lay, aSet, av, bSet, bv, name, got, want))
					}
				}
			}
		}
	}
	os.Unsetenv("A")
	os.Unsetenv("B")
	// variable NAMES: whatever stands between "${" and the next "}" is the name (container runtimes set names a
	// POSIX shell cannot export: dots, dashes, non-ASCII letters, a leading digit)
	for _, vn := range []string{"A", "x_1", "couchbase.username", "DCP-PASSWORD", "1X", "ÜSER", "a b", "A:B", "$A"} {
		for _, set := range []bool{false, true} {
			for _, lay := range []string{"${" + vn + "}", "p${" + vn + "}q${" + vn + "}"} {
				os.Unsetenv(vn)
				want := lay
				if set {
					os.Setenv(vn, "val")
					want = strings.ReplaceAll(lay, "${"+vn+"}", "val")
				}
				file := filepath.Join(dir, "n.yml")
				yml := fmt.Sprintf("hosts:\n  - \"%s\"\nusername: \"%s\"\nbucketName: \"%s\"\n", lay, lay, lay)
				_ = os.WriteFile(file, []byte(yml), 0o644)
				c, err := dcp.VerifNewDcpConfig(file)
				os.Unsetenv(vn)
				res.Evaluations++
				res.Distinct++
				if err != nil {
					add(fmt.Sprintf("config with %q (variable set=%v) failed to load: %v", lay, set, err))
					continue
				}
				for name, got := range map[string]string{"hosts[0]": c.Hosts[0], "username": c.Username, "bucketName": c.BucketName} {
					if got != want {
						add(fmt.Sprintf("placeholder %q, variable named %q set=%v: %s = %q, want %q", lay, vn, set, name, got, want))
					}
				}
			}
		}
	}
}

func init() {
	register(&Property{
		ID:        "C17",
		Technique: "exhaustive enumeration of finite configuration spaces (all subsets of defaultable options / override keys, size-string grammar, placeholder layouts) through the real ApplyDefaults, Get* derivations, ResolveUnionIntOrStringValue and config loader, against a reference table and exact rational arithmetic",
		Rule:      "subsets of the 26 struct options (+ logging level separately) each set to one of two non-zero values; all 2^11 / 2^5 / 2^3 override-key subsets; size strings digits[sep digits][blanks]unit; placeholder layouts x variables set/unset. Every case is distinct by construction",
		Assume:    []string{"documented defaults transcribed from README.md (membership type: the code's 'couchbase')", "size strings with <= 3 fraction digits: exact product compared, float error cannot hide a wrong factor"},
		Pure:      c17Pure,
		Instances: func(tier string) []Instance {
			return []Instance{
				{Scenario: "c17_shared", Params: mustJSON(struct{}{}), Bound: 0, Shards: 2, Note: "explicitly set values as seen by a concurrent reader at every scheduling point (incl. every log call) of the real newDcp"},
				{Scenario: "c17_runtime", Params: mustJSON(struct{}{}), Bound: 0, Shards: 2, Note: "the configuration as read back through GetConfig() before Start() and after Close(): running the client (health check with a time-out below / equal to / above its interval, mitigation, checkpoint schedule, a rebalance) alters nothing"},
			}
		},
	})
}

// the boolean switches (documented default: false): every subset set to true - after ApplyDefaults() every
// switch has exactly the value it was given (a switch is never derived from another one), and the defaultable
// options still get their documented defaults
func c17Switches(res *PureResult, add func(string)) {
	type sw struct {
		name string
		p    func(c *config.Dcp) *bool
	}
	sws := []sw{
		{"api.disabled", func(c *config.Dcp) *bool { return &c.API.Disabled }},
		{"healthCheck.disabled", func(c *config.Dcp) *bool { return &c.HealthCheck.Disabled }},
		{"rollbackMitigation.disabled", func(c *config.Dcp) *bool { return &c.RollbackMitigation.Disabled }},
		{"metadata.readOnly", func(c *config.Dcp) *bool { return &c.Metadata.ReadOnly }},
		{"leaderElection.enabled", func(c *config.Dcp) *bool { return &c.LeaderElection.Enabled }},
		{"dcp.config.disableChangeStreams", func(c *config.Dcp) *bool { return &c.Dcp.Config.DisableChangeStreams }},
		{"secureConnection", func(c *config.Dcp) *bool { return &c.SecureConnection }},
		{"debug", func(c *config.Dcp) *bool { return &c.Debug }},
	}
	for mask := 0; mask < 1<<len(sws); mask++ {
		var c config.Dcp
		for i, w := range sws {
			*w.p(&c) = mask&(1<<i) != 0
		}
		c.ApplyDefaults()
		c.ApplyDefaults()
		res.Evaluations++
		res.Distinct++
		for i, w := range sws {
			if got, want := *w.p(&c), mask&(1<<i) != 0; got != want {
				var set []string
				for j, x := range sws {
					if mask&(1<<j) != 0 {
						set = append(set, x.name)
					}
				}
				add(fmt.Sprintf("switches %v set to true, all others left false: after ApplyDefaults %s = %v", set, w.name, got))
			}
		}
	}
}
