// wrapcheck is built WITHOUT the overlay: it links the real wrapper.ConcurrentSwissMap (the sharded
// third-party map) and checks it against a plain map over every operation sequence up to a length.
// This is what licenses the deterministic stand-in used in scheduled builds, and it is where a change to
// wrapper/concurrent_swiss_map.go shows up.
package main

import (
	"encoding/json"
	"fmt"
	"os"
	"sort"

	"github.com/Trendyol/go-dcp/wrapper"
)

type result struct {
	Evaluations int64    `json:"evaluations"`
	Sequences   int64    `json:"sequences"`
	Violations  []string `json:"violations"`
}

type op struct {
	name string
	k    uint16
	v    int
}

func main() {
	maxLen := 5
	if len(os.Args) > 1 && os.Args[1] == "thorough" {
		maxLen = 6
	}
	var ops []op
	for _, k := range []uint16{1, 2} {
		ops = append(ops, op{"store", k, 10}, op{"store", k, 20}, op{"storeif-absent", k, 30}, op{"storeif-lower", k, 15}, op{"load", k, 0}, op{"delete", k, 0})
	}
	ops = append(ops, op{"count", 0, 0}, op{"range-all", 0, 0}, op{"range-first", 0, 0}, op{"tomap", 0, 0}, op{"json-roundtrip", 0, 0})
	res := &result{}
	fail := func(seq []op, msg string) {
		if len(res.Violations) < 10 {
			var names []string
			for _, o := range seq {
				names = append(names, fmt.Sprintf("%s(%d,%d)", o.name, o.k, o.v))
			}
			res.Violations = append(res.Violations, fmt.Sprintf("%v: %s", names, msg))
		}
	}
	var rec func(seq []op)
	run := func(seq []op) {
		res.Sequences++
		m := wrapper.CreateConcurrentSwissMap[uint16, int](8)
		ref := map[uint16]int{}
		for i, o := range seq {
			res.Evaluations++
			switch o.name {
			case "store":
				m.Store(o.k, o.v)
				ref[o.k] = o.v
			case "storeif-absent":
				m.StoreIf(o.k, func(p int, f bool) (int, bool) { return o.v, !f })
				if _, ok := ref[o.k]; !ok {
					ref[o.k] = o.v
				}
			case "storeif-lower":
				m.StoreIf(o.k, func(p int, f bool) (int, bool) { return o.v, f && p < o.v })
				if p, ok := ref[o.k]; ok && p < o.v {
					ref[o.k] = o.v
				}
			case "load":
				v, ok := m.Load(o.k)
				rv, rok := ref[o.k]
				if v != rv || ok != rok {
					fail(seq[:i+1], fmt.Sprintf("Load(%d) = (%d,%v), reference (%d,%v)", o.k, v, ok, rv, rok))
				}
			case "delete":
				m.Delete(o.k)
				delete(ref, o.k)
			case "count":
				if m.Count() != len(ref) {
					fail(seq[:i+1], fmt.Sprintf("Count() = %d, reference %d", m.Count(), len(ref)))
				}
			case "range-all":
				got := map[uint16]int{}
				m.Range(func(k uint16, v int) bool { got[k] = v; return true })
				if fmt.Sprint(sorted(got)) != fmt.Sprint(sorted(ref)) {
					fail(seq[:i+1], fmt.Sprintf("Range visited %v, reference %v", sorted(got), sorted(ref)))
				}
			case "range-first":
				n := 0
				m.Range(func(k uint16, v int) bool { n++; return false })
				want := 0
				if len(ref) > 0 {
					want = 1
				}
				if n != want {
					fail(seq[:i+1], fmt.Sprintf("Range with a callback returning false visited %d entries, want %d", n, want))
				}
			case "tomap":
				if fmt.Sprint(sorted(m.ToMap())) != fmt.Sprint(sorted(ref)) {
					fail(seq[:i+1], fmt.Sprintf("ToMap() = %v, reference %v", sorted(m.ToMap()), sorted(ref)))
				}
			case "json-roundtrip":
				b, err := m.MarshalJSON()
				if err != nil {
					fail(seq[:i+1], "MarshalJSON: "+err.Error())
					break
				}
				m2 := wrapper.CreateConcurrentSwissMap[uint16, int](8)
				if err := m2.UnmarshalJSON(b); err != nil {
					fail(seq[:i+1], "UnmarshalJSON: "+err.Error())
					break
				}
				if fmt.Sprint(sorted(m2.ToMap())) != fmt.Sprint(sorted(ref)) {
					fail(seq[:i+1], fmt.Sprintf("JSON round trip gives %v, reference %v", sorted(m2.ToMap()), sorted(ref)))
				}
			}
		}
	}
	rec = func(seq []op) {
		if len(seq) > 0 {
			run(seq)
		}
		if len(seq) == maxLen {
			return
		}
		for _, o := range ops {
			// queries are only interesting as the last operation
			if len(seq) > 0 {
				last := seq[len(seq)-1].name
				if last != "store" && last != "storeif-absent" && last != "storeif-lower" && last != "delete" {
					continue
				}
			}
			rec(append(append([]op{}, seq...), o))
		}
	}
	rec(nil)
	b, _ := json.Marshal(res)
	fmt.Println(string(b))
}

func sorted(m map[uint16]int) [][2]int {
	var out [][2]int
	for k, v := range m {
		out = append(out, [2]int{int(k), v})
	}
	sort.Slice(out, func(i, j int) bool { return out[i][0] < out[j][0] })
	return out
}
