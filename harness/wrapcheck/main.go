// wrapcheck is built WITHOUT the overlay: it links the real wrapper.ConcurrentSwissMap (the sharded
// third-party map) and checks it against a plain map over every operation sequence up to a length.
// This is what licenses the deterministic stand-in used in scheduled builds, and it is where a change to
// wrapper/concurrent_swiss_map.go shows up.
package main

import (
	"encoding/json"
	"fmt"
	"os"
	"path/filepath"
	"sort"

	"github.com/Trendyol/go-dcp/config"
	"github.com/Trendyol/go-dcp/metadata"
	"github.com/Trendyol/go-dcp/models"
	"github.com/Trendyol/go-dcp/wrapper"
)

type result struct {
	Evaluations int64    `json:"evaluations"`
	Sequences   int64    `json:"sequences"`
	Violations  []string `json:"violations"`
}

type op struct {
	name string
	k    uint16
	v    int
}

// tornFile: the REAL file backend on the REAL wrapper map. A checkpoint file is saved and then cut at every
// byte (a crash inside os.WriteFile); whatever Load() hands out for a vBucket must be exactly the document
// that was saved for it - a torn file may yield fewer documents, never a partially decoded one. Also: a
// failed UnmarshalJSON of the wrapper leaves the map as it was.
func tornFile() {
	res := &result{}
	dir, err := os.MkdirTemp("", "tornfile")
	if err != nil {
		res.Violations = append(res.Violations, "tmpdir: "+err.Error())
	} else {
		defer os.RemoveAll(dir)
		fn := filepath.Join(dir, "ckpt.json")
		cfg := &config.Dcp{}
		cfg.Metadata.Type = "file"
		cfg.Metadata.Config = map[string]string{"fileName": fn}
		md := metadata.NewFSMetadata(cfg)
		doc := func(u, s, a, b uint64) *models.CheckpointDocument {
			return &models.CheckpointDocument{BucketUUID: "uuid-b", Checkpoint: &models.CheckpointDocumentCheckpoint{VbUUID: u, SeqNo: s,
				Snapshot: &models.CheckpointDocumentSnapshot{StartSeqNo: a, EndSeqNo: b}}}
		}
		states := []map[uint16]*models.CheckpointDocument{
			{0: doc(111, 7, 5, 9), 1: doc(222, 55, 50, 60)},
			{0: doc(111, 7, 5, 9), 1: doc(222, 55, 50, 60), 2: doc(18446744073709551615, 9223372036854775808, 9223372036854775807, 18446744073709551615)},
			{3: doc(1, 1, 1, 1)},
			// a position BELOW what the file may hold already: a new branch after a fail-over / rollback (other vbUUID,
			// lower seqno) and a rollback on the same branch - the last save wins, never "the furthest" (round 12)
			{0: doc(333, 3, 3, 3), 1: doc(222, 55, 50, 60)},
			{0: doc(111, 4, 4, 4)},
		}
		show := func(d *models.CheckpointDocument) string {
			if d == nil || d.Checkpoint == nil {
				return "<nil>"
			}
			c := d.Checkpoint
			sn := "<nil>"
			if c.Snapshot != nil {
				sn = fmt.Sprintf("[%d,%d]", c.Snapshot.StartSeqNo, c.Snapshot.EndSeqNo)
			}
			return fmt.Sprintf("{vbUUID %d seqNo %d snapshot %s bucket %q}", c.VbUUID, c.SeqNo, sn, d.BucketUUID)
		}
		// save / re-load is lossless for every SEQUENCE of saves into the same file (a later state may be shorter
		// than the one it replaces)
		var seqs [][]int
		for a := 0; a < len(states); a++ {
			seqs = append(seqs, []int{a})
			for b := 0; b < len(states); b++ {
				seqs = append(seqs, []int{a, b})
				for c := 0; c < len(states); c++ {
					seqs = append(seqs, []int{a, b, c})
				}
			}
		}
		// ... in every environment: the checkpoint file is the only place the backend may depend on (a temporary
		// directory that does not exist or lives on another filesystem - read-only root, mounted volume - is none
		// of its business)
		oldTmp, hadTmp := os.LookupEnv("TMPDIR")
		defer func() {
			if hadTmp {
				os.Setenv("TMPDIR", oldTmp)
			} else {
				os.Unsetenv("TMPDIR")
			}
		}()
		envs := []string{"", filepath.Join(dir, "no-such-tmp-dir")}
		var runs [][]int
		for ei := range envs {
			for _, sq := range seqs {
				runs = append(runs, append([]int{ei}, sq...))
			}
		}
		for _, run := range runs {
			sq := run[1:]
			if envs[run[0]] == "" {
				if hadTmp {
					os.Setenv("TMPDIR", oldTmp)
				} else {
					os.Unsetenv("TMPDIR")
				}
			} else {
				os.Setenv("TMPDIR", envs[run[0]])
			}
			_ = os.Remove(fn)
			md2 := metadata.NewFSMetadata(cfg)
			for step, si := range sq {
				st := map[uint16]*models.CheckpointDocument{}
				for k, v := range states[si] {
					st[k] = v
				}
				want := states[si]
				dirty := map[uint16]bool{}
				var ids []uint16
				for k := range st {
					dirty[k] = true
					ids = append(ids, k)
				}
				res.Evaluations++
				if err := md2.Save(st, dirty, "uuid-b"); err != nil {
					res.Violations = append(res.Violations, fmt.Sprintf("saves %v: save #%d failed: %v", sq, step, err))
					break
				}
				got, _, err := md2.Load(ids, "uuid-b")
				if err != nil || got == nil {
					res.Violations = append(res.Violations, fmt.Sprintf("saves %v into one file: after save #%d the file cannot be loaded (%v)", sq, step, err))
					break
				}
				for vb, w := range want {
					d, ok := got.Load(vb)
					if !ok || show(d) != show(w) {
						where := ""
						if envs[run[0]] != "" {
							where = " (TMPDIR names a directory that does not exist)"
						}
						res.Violations = append(res.Violations, fmt.Sprintf("saves %v into one file%s: after save #%d vb%d loads as %s, saved was %s", sq, where, step, vb, show(d), show(w)))
					}
				}
			}
			res.Sequences++
		}
		_ = os.Remove(fn)
		for si, st := range states {
			_ = md.Save(st, map[uint16]bool{}, "uuid-b")
			full, _ := os.ReadFile(fn)
			var ids []uint16
			for k := range st {
				ids = append(ids, k)
			}
			for cut := 0; cut <= len(full); cut++ {
				res.Evaluations++
				res.Sequences++
				_ = os.WriteFile(fn, full[:cut], 0o644)
				got, _, err := md.Load(ids, "uuid-b")
				if err != nil || got == nil {
					continue // refused as a whole
				}
				n := 0
				got.Range(func(vb uint16, d *models.CheckpointDocument) bool {
					n++
					want, ok := st[vb]
					if !ok {
						res.Violations = append(res.Violations, fmt.Sprintf("state %d cut at byte %d of %d: Load() hands out a checkpoint for vb%d, which was never saved: %s", si, cut, len(full), vb, show(d)))
					} else if show(d) != show(want) {
						res.Violations = append(res.Violations, fmt.Sprintf("state %d cut at byte %d of %d: Load() hands out %s for vb%d, the saved checkpoint is %s (partially decoded = mixture)", si, cut, len(full), show(d), vb, show(want)))
					}
					return true
				})
				if cut == len(full) && n != len(st) {
					res.Violations = append(res.Violations, fmt.Sprintf("state %d: the complete file loads %d of %d checkpoints", si, n, len(st)))
				}
				// the wrapper itself: a failed decode leaves the map untouched
				m := wrapper.CreateConcurrentSwissMap[uint16, *models.CheckpointDocument](8)
				m.Store(9, doc(9, 9, 9, 9))
				if err := m.UnmarshalJSON(full[:cut]); err != nil && (m.Count() != 1) {
					res.Violations = append(res.Violations, fmt.Sprintf("state %d cut at byte %d: UnmarshalJSON failed (%v) but left %d entries in the map (want the 1 that was there)", si, cut, err, m.Count()))
				}
			}
		}
	}
	if len(res.Violations) > 10 {
		res.Violations = res.Violations[:10]
	}
	b, _ := json.Marshal(res)
	fmt.Println(string(b))
}

func main() {
	if len(os.Args) > 1 && os.Args[1] == "tornfile" {
		tornFile()
		return
	}
	maxLen := 5
	if len(os.Args) > 1 && os.Args[1] == "thorough" {
		maxLen = 6
	}
	var ops []op
	for _, k := range []uint16{1, 2} {
		ops = append(ops, op{"store", k, 10}, op{"store", k, 20}, op{"storeif-absent", k, 30}, op{"storeif-lower", k, 15}, op{"load", k, 0}, op{"delete", k, 0})
	}
	ops = append(ops, op{"count", 0, 0}, op{"range-all", 0, 0}, op{"range-first", 0, 0}, op{"tomap", 0, 0}, op{"json-roundtrip", 0, 0})
	res := &result{}
	fail := func(seq []op, msg string) {
		if len(res.Violations) < 10 {
			var names []string
			for _, o := range seq {
				names = append(names, fmt.Sprintf("%s(%d,%d)", o.name, o.k, o.v))
			}
			res.Violations = append(res.Violations, fmt.Sprintf("%v: %s", names, msg))
		}
	}
	var rec func(seq []op)
	run := func(seq []op) {
		res.Sequences++
		m := wrapper.CreateConcurrentSwissMap[uint16, int](8)
		ref := map[uint16]int{}
		for i, o := range seq {
			res.Evaluations++
			switch o.name {
			case "store":
				m.Store(o.k, o.v)
				ref[o.k] = o.v
			case "storeif-absent":
				m.StoreIf(o.k, func(p int, f bool) (int, bool) { return o.v, !f })
				if _, ok := ref[o.k]; !ok {
					ref[o.k] = o.v
				}
			case "storeif-lower":
				m.StoreIf(o.k, func(p int, f bool) (int, bool) { return o.v, f && p < o.v })
				if p, ok := ref[o.k]; ok && p < o.v {
					ref[o.k] = o.v
				}
			case "load":
				v, ok := m.Load(o.k)
				rv, rok := ref[o.k]
				if v != rv || ok != rok {
					fail(seq[:i+1], fmt.Sprintf("Load(%d) = (%d,%v), reference (%d,%v)", o.k, v, ok, rv, rok))
				}
			case "delete":
				m.Delete(o.k)
				delete(ref, o.k)
			case "count":
				if m.Count() != len(ref) {
					fail(seq[:i+1], fmt.Sprintf("Count() = %d, reference %d", m.Count(), len(ref)))
				}
			case "range-all":
				got := map[uint16]int{}
				m.Range(func(k uint16, v int) bool { got[k] = v; return true })
				if fmt.Sprint(sorted(got)) != fmt.Sprint(sorted(ref)) {
					fail(seq[:i+1], fmt.Sprintf("Range visited %v, reference %v", sorted(got), sorted(ref)))
				}
			case "range-first":
				n := 0
				m.Range(func(k uint16, v int) bool { n++; return false })
				want := 0
				if len(ref) > 0 {
					want = 1
				}
				if n != want {
					fail(seq[:i+1], fmt.Sprintf("Range with a callback returning false visited %d entries, want %d", n, want))
				}
			case "tomap":
				if fmt.Sprint(sorted(m.ToMap())) != fmt.Sprint(sorted(ref)) {
					fail(seq[:i+1], fmt.Sprintf("ToMap() = %v, reference %v", sorted(m.ToMap()), sorted(ref)))
				}
			case "json-roundtrip":
				b, err := m.MarshalJSON()
				if err != nil {
					fail(seq[:i+1], "MarshalJSON: "+err.Error())
					break
				}
				m2 := wrapper.CreateConcurrentSwissMap[uint16, int](8)
				if err := m2.UnmarshalJSON(b); err != nil {
					fail(seq[:i+1], "UnmarshalJSON: "+err.Error())
					break
				}
				if fmt.Sprint(sorted(m2.ToMap())) != fmt.Sprint(sorted(ref)) {
					fail(seq[:i+1], fmt.Sprintf("JSON round trip gives %v, reference %v", sorted(m2.ToMap()), sorted(ref)))
				}
			}
		}
	}
	rec = func(seq []op) {
		if len(seq) > 0 {
			run(seq)
		}
		if len(seq) == maxLen {
			return
		}
		for _, o := range ops {
			// queries are only interesting as the last operation
			if len(seq) > 0 {
				last := seq[len(seq)-1].name
				if last != "store" && last != "storeif-absent" && last != "storeif-lower" && last != "delete" {
					continue
				}
			}
			rec(append(append([]op{}, seq...), o))
		}
	}
	rec(nil)
	b, _ := json.Marshal(res)
	fmt.Println(string(b))
}

func sorted(m map[uint16]int) [][2]int {
	var out [][2]int
	for k, v := range m {
		out = append(out, [2]int{int(k), v})
	}
	sort.Slice(out, func(i, j int) bool { return out[i][0] < out[j][0] })
	return out
}
