// vinst: type-aware source instrumenter for Trendyol/go-dcp.
//
// It rewrites selected files of /repo (and the EventBus dependency) so that every goroutine start,
// channel operation, select, lock, timer and access to a mutable shared struct field goes through
// package verif/vrt, and writes the rewritten copies plus a `go build -overlay` file.  /repo is not
// touched.  Any construct it cannot rewrite is a hard error (exit 2).
package main

import (
	"bytes"
	"encoding/json"
	"flag"
	"fmt"
	"go/ast"
	"go/format"
	"go/token"
	"go/types"
	"os"
	"path/filepath"
	"sort"
	"strconv"
	"strings"

	"golang.org/x/tools/go/ast/astutil"
	"golang.org/x/tools/go/packages"
)

const modPath = "github.com/Trendyol/go-dcp"

// files to instrument: package path -> file base names ("*" = all non-test files)
var targets = map[string][]string{
	modPath:                          {"dcp.go"},
	modPath + "/stream":              {"*"},
	modPath + "/couchbase":           {"*"},
	modPath + "/membership":          {"*"},
	modPath + "/metadata":            {"*"},
	modPath + "/kubernetes":          {"ha_membership.go", "stateful_set_membership.go", "leader_elector.go"},
	modPath + "/servicediscovery":    {"service_discovery.go", "rpc_client.go", "rpc_server.go"},
	modPath + "/helpers":             {"utils.go"},
	modPath + "/metric":              {"collector.go"},
	"github.com/asaskevich/EventBus": {"event_bus.go"},
}

var importSwap = map[string][2]string{
	"sync":                       {"verif/vrt/vsync", "sync"},
	"sync/atomic":                {"verif/vrt/vatomic", "atomic"},
	"time":                       {"verif/vrt/vtime", "time"},
	"context":                    {"verif/vrt/vcontext", "context"},
	"golang.org/x/sync/errgroup": {"verif/vrt/verrgroup", "errgroup"},
	"net/rpc":                    {"verif/vrt/vrpc", "rpc"},
}

// per-file swaps (file base name -> import path -> shim): "os" is only replaced where the host name is read
var fileImportSwap = map[string]map[string][2]string{
	"stateful_set_membership.go": {"os": {"verif/vrt/vos", "os"}},
	"leader_elector.go":          {"k8s.io/client-go/tools/leaderelection": {"verif/vrt/vlease", "leaderelection"}},
}

// struct types whose fields never get yield points (pure metrics)
var noYieldTypes = map[string]bool{
	"Metric": true, "CheckpointMetric": true, "ObserverMetric": true, "VBucketDiscoveryMetric": true,
	"PingResult": true,
}

type inst struct {
	fset     *token.FileSet
	pkgs     []*packages.Package
	mutable  map[*types.Var]bool
	yieldSeq int
	yields   map[int]string
	info     *types.Info
	usedVrt  bool
	tmpSeq   int
	curFile  string
}

func fatal(format string, a ...any) {
	fmt.Fprintf(os.Stderr, "vinst: "+format+"\n", a...)
	os.Exit(2)
}

func main() {
	repo := flag.String("repo", "/repo", "repository root")
	out := flag.String("out", "", "output directory")
	extra := flag.String("overlay-dir", "", "directory with overlay.map.json (extra replacement / added files)")
	remap := flag.String("remap", "", "pkgpath=dir: overlay files of that package under dir instead of their load location")
	flag.Parse()
	if *out == "" {
		fatal("-out required")
	}
	in := &inst{fset: token.NewFileSet(), mutable: map[*types.Var]bool{}, yields: map[int]string{}}
	cfg := &packages.Config{
		Mode: packages.NeedName | packages.NeedFiles | packages.NeedCompiledGoFiles | packages.NeedSyntax |
			packages.NeedTypes | packages.NeedTypesInfo | packages.NeedImports,
		Dir:  *repo,
		Fset: in.fset,
		Env:  append(os.Environ(), "GOFLAGS=-mod=mod", "GOPROXY=off", "GOSUMDB=off", "GOTOOLCHAIN=local"),
	}
	var pats []string
	for p := range targets {
		pats = append(pats, p)
	}
	sort.Strings(pats)
	pkgs, err := packages.Load(cfg, pats...)
	if err != nil {
		fatal("load: %v", err)
	}
	for _, p := range pkgs {
		for _, e := range p.Errors {
			fatal("package %s: %v", p.PkgPath, e)
		}
	}
	in.pkgs = pkgs
	// pass 1: mutable fields
	for _, p := range pkgs {
		for i, f := range p.Syntax {
			if !selected(p.PkgPath, p.CompiledGoFiles[i]) {
				continue
			}
			in.info = p.TypesInfo
			in.findMutable(f)
		}
	}
	overlay := map[string]string{}
	if err := os.MkdirAll(*out, 0o755); err != nil {
		fatal("%v", err)
	}
	// pass 2: rewrite
	for _, p := range pkgs {
		for i, f := range p.Syntax {
			path := p.CompiledGoFiles[i]
			if !selected(p.PkgPath, path) {
				continue
			}
			in.info = p.TypesInfo
			in.curFile = path
			src := in.rewriteFile(f)
			rel := strings.ReplaceAll(strings.TrimPrefix(path, "/"), "/", "__")
			dst := filepath.Join(*out, rel)
			if err := os.WriteFile(dst, src, 0o644); err != nil {
				fatal("%v", err)
			}
			if *remap != "" {
				kv := strings.SplitN(*remap, "=", 2)
				if p.PkgPath == kv[0] {
					path = filepath.Join(kv[1], filepath.Base(path))
				}
			}
			overlay[path] = dst
		}
	}
	if *extra != "" {
		b, err := os.ReadFile(filepath.Join(*extra, "overlay.map.json"))
		if err != nil {
			fatal("%v", err)
		}
		m := map[string]string{}
		if err := json.Unmarshal(b, &m); err != nil {
			fatal("overlay.map.json: %v", err)
		}
		for target, src := range m {
			t := target
			if !filepath.IsAbs(t) {
				t = filepath.Join(*repo, t)
			}
			overlay[t] = filepath.Join(*extra, src)
		}
	}
	ob, _ := json.MarshalIndent(map[string]any{"Replace": overlay}, "", " ")
	if err := os.WriteFile(filepath.Join(*out, "overlay.json"), ob, 0o644); err != nil {
		fatal("%v", err)
	}
	yb, _ := json.MarshalIndent(in.yields, "", " ")
	_ = os.WriteFile(filepath.Join(*out, "yields.json"), yb, 0o644)
	fmt.Printf("vinst: %d files, %d yield points, %d mutable fields\n", len(overlay), in.yieldSeq, len(in.mutable))
}

func selected(pkgPath, file string) bool {
	names, ok := targets[pkgPath]
	if !ok {
		return false
	}
	base := filepath.Base(file)
	if strings.HasSuffix(base, "_test.go") {
		return false
	}
	for _, n := range names {
		if n == "*" || n == base {
			return true
		}
	}
	return false
}

// ---- pass 1 -------------------------------------------------------------------------------------

func (in *inst) fieldOf(e ast.Expr) *types.Var {
	for {
		switch x := e.(type) {
		case *ast.ParenExpr:
			e = x.X
			continue
		case *ast.IndexExpr:
			// a[i] = v : the container field is not reassigned, but element mutation of a field slice
			// is still a write to shared state reachable through that field
			e = x.X
			continue
		case *ast.StarExpr:
			e = x.X
			continue
		}
		break
	}
	sel, ok := e.(*ast.SelectorExpr)
	if !ok {
		return nil
	}
	if s, ok := in.info.Selections[sel]; ok && s.Kind() == types.FieldVal {
		if v, ok := s.Obj().(*types.Var); ok && v.IsField() {
			return v
		}
	}
	return nil
}

func (in *inst) findMutable(f *ast.File) {
	ast.Inspect(f, func(n ast.Node) bool {
		switch x := n.(type) {
		case *ast.AssignStmt:
			for _, l := range x.Lhs {
				if v := in.fieldOf(l); v != nil {
					in.mutable[v] = true
				}
			}
		case *ast.IncDecStmt:
			if v := in.fieldOf(x.X); v != nil {
				in.mutable[v] = true
			}
		case *ast.UnaryExpr:
			if x.Op == token.AND {
				if _, isLit := x.X.(*ast.CompositeLit); !isLit {
					if v := in.fieldOf(x.X); v != nil {
						in.mutable[v] = true
					}
				}
			}
		case *ast.RangeStmt:
			if x.Tok == token.ASSIGN {
				for _, l := range []ast.Expr{x.Key, x.Value} {
					if l != nil {
						if v := in.fieldOf(l); v != nil {
							in.mutable[v] = true
						}
					}
				}
			}
		}
		return true
	})
}

// ---- pass 2 -------------------------------------------------------------------------------------

func (in *inst) rewriteFile(f *ast.File) []byte {
	in.usedVrt = false
	f.Comments = nil
	for _, d := range f.Decls {
		switch x := d.(type) {
		case *ast.FuncDecl:
			x.Doc = nil
			if x.Body != nil {
				x.Body.List = in.rewriteList(x.Body.List)
			}
		case *ast.GenDecl:
			x.Doc = nil
			// function literals in package-level var initialisers
			ast.Inspect(x, func(n ast.Node) bool {
				if fl, ok := n.(*ast.FuncLit); ok {
					fl.Body.List = in.rewriteList(fl.Body.List)
					return false
				}
				return true
			})
		}
	}
	// expression level: <-ch, close(ch), len/cap of channels
	astutil.Apply(f, nil, func(c *astutil.Cursor) bool {
		switch x := c.Node().(type) {
		case *ast.UnaryExpr:
			if x.Op == token.ARROW {
				c.Replace(in.call("Recv", x.X))
			}
		case *ast.CallExpr:
			if id, ok := x.Fun.(*ast.Ident); ok {
				if b, ok := in.info.Uses[id].(*types.Builtin); ok {
					switch b.Name() {
					case "close":
						c.Replace(in.call("Close", x.Args[0]))
					case "len":
						if tv, ok := in.info.Types[x.Args[0]]; ok {
							if _, isChan := tv.Type.Underlying().(*types.Chan); isChan {
								c.Replace(in.call("LenAny", x.Args[0]))
							}
						}
					}
				}
			}
		case *ast.SendStmt, *ast.SelectStmt, *ast.GoStmt:
			fatal("%s: unrewritten %T left in file", in.pos(x), x)
		}
		return true
	})
	// imports
	for _, imp := range f.Imports {
		p, _ := strconv.Unquote(imp.Path.Value)
		sw, ok := importSwap[p]
		if fs, ok2 := fileImportSwap[filepath.Base(in.curFile)][p]; ok2 {
			sw, ok = fs, true
		}
		if ok {
			imp.Path.Value = strconv.Quote(sw[0])
			if imp.Name == nil {
				imp.Name = ast.NewIdent(sw[1])
			}
		}
	}
	if in.usedVrt {
		astutil.AddNamedImport(in.fset, f, "vrt", "verif/vrt")
	}
	var buf bytes.Buffer
	// strip positions' comment association problems by printing from a fresh fileset view
	if err := format.Node(&buf, in.fset, f); err != nil {
		fatal("format %s: %v", in.curFile, err)
	}
	return buf.Bytes()
}

func (in *inst) pos(n ast.Node) string { return in.fset.Position(n.Pos()).String() }

func (in *inst) vrtSel(name string) ast.Expr {
	in.usedVrt = true
	return &ast.SelectorExpr{X: ast.NewIdent("vrt"), Sel: ast.NewIdent(name)}
}

func (in *inst) call(name string, args ...ast.Expr) *ast.CallExpr {
	return &ast.CallExpr{Fun: in.vrtSel(name), Args: args}
}

func (in *inst) tmp(prefix string) *ast.Ident {
	in.tmpSeq++
	return ast.NewIdent(fmt.Sprintf("_vrt_%s%d", prefix, in.tmpSeq))
}

// touchesMutable: does the expression (not descending into function literals) read or write a
// mutable shared field?
func (in *inst) touchesMutable(nodes ...ast.Node) (bool, string) {
	found := false
	what := ""
	for _, n := range nodes {
		if n == nil || isNilNode(n) {
			continue
		}
		ast.Inspect(n, func(m ast.Node) bool {
			if found {
				return false
			}
			switch x := m.(type) {
			case *ast.FuncLit:
				return false
			case *ast.SelectorExpr:
				if s, ok := in.info.Selections[x]; ok && s.Kind() == types.FieldVal {
					if v, ok := s.Obj().(*types.Var); ok && in.mutable[v] {
						if !in.noYieldRecv(s.Recv()) {
							found = true
							what = v.Name()
							return false
						}
					}
				}
			}
			return true
		})
	}
	return found, what
}

func isNilNode(n ast.Node) bool {
	switch x := n.(type) {
	case ast.Expr:
		return x == nil
	case ast.Stmt:
		return x == nil
	}
	return false
}

func (in *inst) noYieldRecv(t types.Type) bool {
	for {
		if p, ok := t.(*types.Pointer); ok {
			t = p.Elem()
			continue
		}
		break
	}
	if n, ok := t.(*types.Named); ok {
		return noYieldTypes[n.Obj().Name()]
	}
	return false
}

func (in *inst) yieldStmt(at ast.Node, what string) ast.Stmt {
	in.yieldSeq++
	id := in.yieldSeq
	p := in.fset.Position(at.Pos())
	in.yields[id] = fmt.Sprintf("%s:%d .%s", filepath.Base(p.Filename), p.Line, what)
	return &ast.ExprStmt{X: in.call("Yield", &ast.BasicLit{Kind: token.INT, Value: strconv.Itoa(id)})}
}

func (in *inst) yieldCond(at ast.Node, what string, cond ast.Expr) ast.Expr {
	in.yieldSeq++
	id := in.yieldSeq
	p := in.fset.Position(at.Pos())
	in.yields[id] = fmt.Sprintf("%s:%d .%s (loop)", filepath.Base(p.Filename), p.Line, what)
	return &ast.BinaryExpr{X: in.call("Y", &ast.BasicLit{Kind: token.INT, Value: strconv.Itoa(id)}), Op: token.LAND, Y: &ast.ParenExpr{X: cond}}
}

// header returns the parts of a statement that are evaluated when control reaches it.
func header(s ast.Stmt) []ast.Node {
	switch x := s.(type) {
	case *ast.IfStmt:
		return []ast.Node{x.Init, x.Cond}
	case *ast.ForStmt:
		return []ast.Node{x.Init}
	case *ast.RangeStmt:
		return []ast.Node{x.X}
	case *ast.SwitchStmt:
		return []ast.Node{x.Init, x.Tag}
	case *ast.TypeSwitchStmt:
		return []ast.Node{x.Init, x.Assign}
	case *ast.SelectStmt:
		var ns []ast.Node
		for _, c := range x.Body.List {
			if cc := c.(*ast.CommClause); cc.Comm != nil {
				ns = append(ns, cc.Comm)
			}
		}
		return ns
	case *ast.BlockStmt:
		return nil
	case *ast.LabeledStmt:
		return header(x.Stmt)
	case *ast.CaseClause, *ast.CommClause:
		return nil
	default:
		return []ast.Node{s}
	}
}

func (in *inst) rewriteList(list []ast.Stmt) []ast.Stmt {
	var out []ast.Stmt
	for _, s := range list {
		hs := header(s)
		var nn []ast.Node
		for _, h := range hs {
			if h != nil && !isNilNode(h) {
				nn = append(nn, h)
			}
		}
		if ok, what := in.touchesMutable(nn...); ok {
			out = append(out, in.yieldStmt(s, what))
		}
		out = append(out, in.rewriteStmt(s)...)
	}
	return out
}

// rewriteFuncLits rewrites the bodies of function literals found in the given nodes.
func (in *inst) rewriteFuncLits(nodes ...ast.Node) {
	for _, n := range nodes {
		if n == nil || isNilNode(n) {
			continue
		}
		ast.Inspect(n, func(m ast.Node) bool {
			if fl, ok := m.(*ast.FuncLit); ok {
				fl.Body.List = in.rewriteList(fl.Body.List)
				return false
			}
			return true
		})
	}
}

func (in *inst) rewriteBlock(b *ast.BlockStmt) {
	if b != nil {
		b.List = in.rewriteList(b.List)
	}
}

func (in *inst) rewriteStmt(s ast.Stmt) []ast.Stmt {
	switch x := s.(type) {
	case *ast.BlockStmt:
		in.rewriteBlock(x)
		return []ast.Stmt{x}
	case *ast.LabeledStmt:
		r := in.rewriteStmt(x.Stmt)
		if len(r) != 1 {
			fatal("%s: labeled statement expands to several statements", in.pos(x))
		}
		x.Stmt = r[0]
		return []ast.Stmt{x}
	case *ast.IfStmt:
		in.rewriteFuncLits(x.Init, x.Cond)
		if x.Init != nil {
			r := in.rewriteStmt(x.Init)
			if len(r) != 1 {
				fatal("%s: if-init expands", in.pos(x))
			}
			x.Init = r[0]
		}
		in.rewriteBlock(x.Body)
		switch e := x.Else.(type) {
		case *ast.BlockStmt:
			in.rewriteBlock(e)
		case *ast.IfStmt:
			// else-if: its header is evaluated later; wrap into a block so that a yield can precede it
			x.Else = &ast.BlockStmt{List: in.rewriteList([]ast.Stmt{e})}
		}
		return []ast.Stmt{x}
	case *ast.ForStmt:
		in.rewriteFuncLits(x.Init, x.Cond, x.Post)
		if x.Cond != nil {
			if ok, what := in.touchesMutable(x.Cond); ok {
				x.Cond = in.yieldCond(x, what, x.Cond)
			}
		}
		if x.Post != nil {
			if ok, _ := in.touchesMutable(x.Post); ok {
				fatal("%s: for-post touching shared state is not supported", in.pos(x))
			}
		}
		in.rewriteBlock(x.Body)
		return []ast.Stmt{x}
	case *ast.RangeStmt:
		in.rewriteFuncLits(x.X)
		in.rewriteBlock(x.Body)
		if tv, ok := in.info.Types[x.X]; ok {
			switch tv.Type.Underlying().(type) {
			case *types.Map:
				return []ast.Stmt{in.rewriteMapRange(x)}
			case *types.Chan:
				return []ast.Stmt{in.rewriteChanRange(x)}
			}
		}
		return []ast.Stmt{x}
	case *ast.SwitchStmt:
		in.rewriteFuncLits(x.Init, x.Tag)
		for _, c := range x.Body.List {
			cc := c.(*ast.CaseClause)
			for _, e := range cc.List {
				in.rewriteFuncLits(e)
			}
			cc.Body = in.rewriteList(cc.Body)
		}
		return []ast.Stmt{x}
	case *ast.TypeSwitchStmt:
		in.rewriteFuncLits(x.Init, x.Assign)
		for _, c := range x.Body.List {
			cc := c.(*ast.CaseClause)
			cc.Body = in.rewriteList(cc.Body)
		}
		return []ast.Stmt{x}
	case *ast.SelectStmt:
		return []ast.Stmt{in.rewriteSelect(x)}
	case *ast.GoStmt:
		in.rewriteFuncLits(x.Call)
		return []ast.Stmt{in.rewriteGo(x)}
	case *ast.SendStmt:
		in.rewriteFuncLits(x.Chan, x.Value)
		in.usedVrt = true
		return []ast.Stmt{&ast.ExprStmt{X: &ast.CallExpr{Fun: in.call("SendF", x.Chan), Args: []ast.Expr{x.Value}}}}
	case *ast.AssignStmt:
		in.rewriteFuncLits(s)
		if len(x.Lhs) == 2 && len(x.Rhs) == 1 {
			if u, ok := x.Rhs[0].(*ast.UnaryExpr); ok && u.Op == token.ARROW {
				x.Rhs[0] = in.call("Recv2", u.X)
			}
		}
		return []ast.Stmt{x}
	case *ast.DeclStmt:
		in.rewriteFuncLits(s)
		if gd, ok := x.Decl.(*ast.GenDecl); ok {
			for _, sp := range gd.Specs {
				if vs, ok := sp.(*ast.ValueSpec); ok && len(vs.Names) == 2 && len(vs.Values) == 1 {
					if u, ok := vs.Values[0].(*ast.UnaryExpr); ok && u.Op == token.ARROW {
						vs.Values[0] = in.call("Recv2", u.X)
					}
				}
			}
		}
		return []ast.Stmt{x}
	default:
		in.rewriteFuncLits(s)
		return []ast.Stmt{s}
	}
}

func (in *inst) isConstOrNil(e ast.Expr) bool {
	if tv, ok := in.info.Types[e]; ok {
		return tv.Value != nil || tv.IsNil()
	}
	return false
}

func (in *inst) rewriteGo(g *ast.GoStmt) ast.Stmt {
	call := g.Call
	var pre []ast.Stmt
	// bind the function value when it is not a plain function / method / literal
	switch call.Fun.(type) {
	case *ast.FuncLit, *ast.Ident, *ast.SelectorExpr:
	default:
		fatal("%s: unsupported go target %T", in.pos(g), call.Fun)
	}
	if sel, ok := call.Fun.(*ast.SelectorExpr); ok {
		// method value: bind the receiver now, as the go statement does
		if s, ok := in.info.Selections[sel]; ok && s.Kind() == types.MethodVal {
			if _, simple := sel.X.(*ast.Ident); !simple {
				t := in.tmp("r")
				pre = append(pre, &ast.AssignStmt{Lhs: []ast.Expr{t}, Tok: token.DEFINE, Rhs: []ast.Expr{sel.X}})
				sel.X = t
			}
		}
	}
	var lhs, rhs []ast.Expr
	for i, a := range call.Args {
		if in.isConstOrNil(a) {
			continue
		}
		t := in.tmp("a")
		lhs = append(lhs, t)
		rhs = append(rhs, a)
		call.Args[i] = t
	}
	if len(lhs) > 0 {
		pre = append(pre, &ast.AssignStmt{Lhs: lhs, Tok: token.DEFINE, Rhs: rhs})
	}
	goCall := &ast.ExprStmt{X: in.call("Go", &ast.FuncLit{
		Type: &ast.FuncType{Params: &ast.FieldList{}},
		Body: &ast.BlockStmt{List: []ast.Stmt{&ast.ExprStmt{X: call}}},
	})}
	if len(pre) == 0 {
		return goCall
	}
	return &ast.BlockStmt{List: append(pre, goCall)}
}

func (in *inst) rewriteSelect(sel *ast.SelectStmt) ast.Stmt {
	var pre []ast.Stmt
	var cases []ast.Expr
	var clauses []ast.Stmt
	hasDefault := false
	idx := 0
	for _, c := range sel.Body.List {
		cc := c.(*ast.CommClause)
		body := in.rewriteList(cc.Body)
		if cc.Comm == nil {
			hasDefault = true
			clauses = append(clauses, &ast.CaseClause{List: []ast.Expr{&ast.UnaryExpr{Op: token.SUB, X: &ast.BasicLit{Kind: token.INT, Value: "1"}}}, Body: body})
			continue
		}
		var recv *ast.UnaryExpr
		var assign *ast.AssignStmt
		switch cm := cc.Comm.(type) {
		case *ast.ExprStmt:
			if u, ok := cm.X.(*ast.UnaryExpr); ok && u.Op == token.ARROW {
				recv = u
			}
		case *ast.AssignStmt:
			if u, ok := cm.Rhs[0].(*ast.UnaryExpr); ok && u.Op == token.ARROW {
				recv = u
				assign = cm
			}
		case *ast.SendStmt:
			in.rewriteFuncLits(cm.Chan, cm.Value)
			ch := in.tmp("c")
			pre = append(pre, &ast.AssignStmt{Lhs: []ast.Expr{ch}, Tok: token.DEFINE, Rhs: []ast.Expr{cm.Chan}})
			val := in.tmp("v")
			pre = append(pre, &ast.AssignStmt{Lhs: []ast.Expr{val}, Tok: token.DEFINE, Rhs: []ast.Expr{cm.Value}})
			cases = append(cases, in.call("SendCase", ch))
			now := &ast.ExprStmt{X: &ast.CallExpr{Fun: in.call("SendNowF", ch), Args: []ast.Expr{val}}}
			clauses = append(clauses, &ast.CaseClause{List: []ast.Expr{&ast.BasicLit{Kind: token.INT, Value: strconv.Itoa(idx)}}, Body: append([]ast.Stmt{now}, body...)})
			idx++
			continue
		}
		if recv == nil {
			fatal("%s: unsupported select clause", in.pos(cc))
		}
		in.rewriteFuncLits(recv.X)
		ch := in.tmp("c")
		pre = append(pre, &ast.AssignStmt{Lhs: []ast.Expr{ch}, Tok: token.DEFINE, Rhs: []ast.Expr{recv.X}})
		cases = append(cases, in.call("RecvCase", ch))
		var now ast.Stmt
		if assign == nil {
			now = &ast.ExprStmt{X: in.call("RecvNow", ch)}
		} else {
			lhs := append([]ast.Expr{}, assign.Lhs...)
			if len(lhs) == 1 {
				lhs = append(lhs, ast.NewIdent("_"))
			}
			now = &ast.AssignStmt{Lhs: lhs, Tok: assign.Tok, Rhs: []ast.Expr{in.call("RecvNow", ch)}}
		}
		clauses = append(clauses, &ast.CaseClause{List: []ast.Expr{&ast.BasicLit{Kind: token.INT, Value: strconv.Itoa(idx)}}, Body: append([]ast.Stmt{now}, body...)})
		idx++
	}
	def := "false"
	if hasDefault {
		def = "true"
	}
	// a select statement is terminating when no arm breaks out of it; keep that property
	clauses = append(clauses, &ast.CaseClause{List: nil, Body: []ast.Stmt{&ast.ExprStmt{X: &ast.CallExpr{Fun: ast.NewIdent("panic"), Args: []ast.Expr{&ast.BasicLit{Kind: token.STRING, Value: `"vrt: impossible select arm"`}}}}}})
	sw := &ast.SwitchStmt{
		Tag:  in.call("Select", append([]ast.Expr{ast.NewIdent(def)}, cases...)...),
		Body: &ast.BlockStmt{List: clauses},
	}
	if len(pre) == 0 {
		return sw
	}
	return &ast.BlockStmt{List: append(pre, sw)}
}

// for v := range ch  =>  for { v, ok := vrt.Recv2(ch); if !ok { break }; body }
func (in *inst) rewriteChanRange(r *ast.RangeStmt) ast.Stmt {
	okv := in.tmp("ok")
	var lhs ast.Expr = ast.NewIdent("_")
	tok := token.DEFINE
	if r.Key != nil && !isBlank(r.Key) {
		lhs = r.Key
		tok = r.Tok
	}
	var body []ast.Stmt
	if tok == token.DEFINE {
		body = append(body, &ast.AssignStmt{Lhs: []ast.Expr{lhs, okv}, Tok: token.DEFINE, Rhs: []ast.Expr{in.call("Recv2", r.X)}})
	} else {
		body = append(body, &ast.DeclStmt{Decl: &ast.GenDecl{Tok: token.VAR, Specs: []ast.Spec{&ast.ValueSpec{Names: []*ast.Ident{okv}, Type: ast.NewIdent("bool")}}}})
		body = append(body, &ast.AssignStmt{Lhs: []ast.Expr{lhs, okv}, Tok: token.ASSIGN, Rhs: []ast.Expr{in.call("Recv2", r.X)}})
	}
	body = append(body, &ast.IfStmt{Cond: &ast.UnaryExpr{Op: token.NOT, X: okv}, Body: &ast.BlockStmt{List: []ast.Stmt{&ast.BranchStmt{Tok: token.BREAK}}}})
	body = append(body, r.Body.List...)
	return &ast.ForStmt{Body: &ast.BlockStmt{List: body}}
}

func (in *inst) rewriteMapRange(r *ast.RangeStmt) ast.Stmt {
	var pre []ast.Stmt
	m := r.X
	switch m.(type) {
	case *ast.Ident, *ast.SelectorExpr:
	default:
		t := in.tmp("m")
		pre = append(pre, &ast.AssignStmt{Lhs: []ast.Expr{t}, Tok: token.DEFINE, Rhs: []ast.Expr{m}})
		m = t
	}
	keyIdent := func(e ast.Expr) bool {
		id, ok := e.(*ast.Ident)
		return ok && id.Name != "_"
	}
	var body []ast.Stmt
	var loopKey ast.Expr
	if r.Tok == token.DEFINE && r.Key != nil && keyIdent(r.Key) {
		loopKey = r.Key
	} else {
		k := in.tmp("k")
		loopKey = k
		if r.Key != nil && keyIdent(r.Key) || (r.Key != nil && r.Tok == token.ASSIGN && !isBlank(r.Key)) {
			body = append(body, &ast.AssignStmt{Lhs: []ast.Expr{r.Key}, Tok: token.ASSIGN, Rhs: []ast.Expr{k}})
		}
	}
	okv := in.tmp("ok")
	if r.Value != nil && !isBlank(r.Value) {
		if r.Tok == token.DEFINE {
			// go.mod of the repository says go 1.21: ONE value variable for all iterations (a closure or goroutine
			// started in the body sees later iterations' values) - declare it once, in front of the loop
			pre = append(pre, &ast.AssignStmt{Lhs: []ast.Expr{r.Value}, Tok: token.DEFINE, Rhs: []ast.Expr{in.call("ZeroValOf", m)}})
			pre = append(pre, &ast.AssignStmt{Lhs: []ast.Expr{ast.NewIdent("_")}, Tok: token.ASSIGN, Rhs: []ast.Expr{r.Value}})
			pre = append(pre, &ast.DeclStmt{Decl: &ast.GenDecl{Tok: token.VAR, Specs: []ast.Spec{&ast.ValueSpec{Names: []*ast.Ident{okv}, Type: ast.NewIdent("bool")}}}})
			body = append(body, &ast.AssignStmt{Lhs: []ast.Expr{r.Value, okv}, Tok: token.ASSIGN, Rhs: []ast.Expr{&ast.IndexExpr{X: m, Index: loopKey}}})
		} else {
			body = append(body, &ast.DeclStmt{Decl: &ast.GenDecl{Tok: token.VAR, Specs: []ast.Spec{&ast.ValueSpec{Names: []*ast.Ident{okv}, Type: ast.NewIdent("bool")}}}})
			body = append(body, &ast.AssignStmt{Lhs: []ast.Expr{r.Value, okv}, Tok: token.ASSIGN, Rhs: []ast.Expr{&ast.IndexExpr{X: m, Index: loopKey}}})
		}
	} else {
		body = append(body, &ast.AssignStmt{Lhs: []ast.Expr{ast.NewIdent("_"), okv}, Tok: token.DEFINE, Rhs: []ast.Expr{&ast.IndexExpr{X: m, Index: loopKey}}})
	}
	body = append(body, &ast.IfStmt{Cond: &ast.UnaryExpr{Op: token.NOT, X: okv}, Body: &ast.BlockStmt{List: []ast.Stmt{&ast.BranchStmt{Tok: token.CONTINUE}}}})
	body = append(body, r.Body.List...)
	loop := &ast.RangeStmt{Key: ast.NewIdent("_"), Value: loopKey, Tok: token.DEFINE, X: in.call("SortedKeys", m), Body: &ast.BlockStmt{List: body}}
	if len(pre) == 0 {
		return loop
	}
	return &ast.BlockStmt{List: append(pre, loop)}
}

func isBlank(e ast.Expr) bool {
	id, ok := e.(*ast.Ident)
	return ok && id.Name == "_"
}
