module github.com/asaskevich/EventBus

go 1.21
