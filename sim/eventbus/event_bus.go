package EventBus

import (
	"fmt"
	"reflect"
	"sync"
)

//BusSubscriber defines subscription-related bus behavior
type BusSubscriber interface {
	Subscribe(topic string, fn interface{}) error
	SubscribeAsync(topic string, fn interface{}, transactional bool) error
	SubscribeOnce(topic string, fn interface{}) error
	SubscribeOnceAsync(topic string, fn interface{}) error
	Unsubscribe(topic string, handler interface{}) error
}

//BusPublisher defines publishing-related bus behavior
type BusPublisher interface {
	Publish(topic string, args ...interface{})
}

//BusController defines bus control behavior (checking handler's presence, synchronization)
type BusController interface {
	HasCallback(topic string) bool
	WaitAsync()
}

//Bus englobes global (subscribe, publish, control) bus behavior
type Bus interface {
	BusController
	BusSubscriber
	BusPublisher
}

// EventBus - box for handlers and callbacks.
type EventBus struct {
	handlers map[string][]*eventHandler
	lock     sync.Mutex // a lock for the map
	wg       sync.WaitGroup
}

type eventHandler struct {
	callBack      reflect.Value
	flagOnce      bool
	async         bool
	transactional bool
	sync.Mutex    // lock for an event handler - useful for running async callbacks serially
}

// New returns new EventBus with empty handlers.
func New() Bus {
	b := &EventBus{
		make(map[string][]*eventHandler),
		sync.Mutex{},
		sync.WaitGroup{},
	}
	return Bus(b)
}

// doSubscribe handles the subscription logic and is utilized by the public Subscribe functions
func (bus *EventBus) doSubscribe(topic string, fn interface{}, handler *eventHandler) error {
	bus.lock.Lock()
	defer bus.lock.Unlock()
	if !(reflect.TypeOf(fn).Kind() == reflect.Func) {
		return fmt.Errorf("%s is not of type reflect.Func", reflect.TypeOf(fn).Kind())
	}
	bus.handlers[topic] = append(bus.handlers[topic], handler)
	return nil
}

// Subscribe subscribes to a topic.
// Returns error if `fn` is not a function.
func (bus *EventBus) Subscribe(topic string, fn interface{}) error {
	return bus.doSubscribe(topic, fn, &eventHandler{
		reflect.ValueOf(fn), false, false, false, sync.Mutex{},
	})
}

// SubscribeAsync subscribes to a topic with an asynchronous callback
// Transactional determines whether subsequent callbacks for a topic are
// run serially (true) or concurrently (false)
// Returns error if `fn` is not a function.
func (bus *EventBus) SubscribeAsync(topic string, fn interface{}, transactional bool) error {
	return bus.doSubscribe(topic, fn, &eventHandler{
		reflect.ValueOf(fn), false, true, transactional, sync.Mutex{},
	})
}

// SubscribeOnce subscribes to a topic once. Handler will be removed after executing.
// Returns error if `fn` is not a function.
func (bus *EventBus) SubscribeOnce(topic string, fn interface{}) error {
	return bus.doSubscribe(topic, fn, &eventHandler{
		reflect.ValueOf(fn), true, false, false, sync.Mutex{},
	})
}

// SubscribeOnceAsync subscribes to a topic once with an asynchronous callback
// Handler will be removed after executing.
// Returns error if `fn` is not a function.
func (bus *EventBus) SubscribeOnceAsync(topic string, fn interface{}) error {
	return bus.doSubscribe(topic, fn, &eventHandler{
		reflect.ValueOf(fn), true, true, false, sync.Mutex{},
	})
}

// HasCallback returns true if exists any callback subscribed to the topic.
func (bus *EventBus) HasCallback(topic string) bool {
	bus.lock.Lock()
	defer bus.lock.Unlock()
	_, ok := bus.handlers[topic]
	if ok {
		return len(bus.handlers[topic]) > 0
	}
	return false
}

// Unsubscribe removes callback defined for a topic.
// Returns error if there are no callbacks subscribed to the topic.
func (bus *EventBus) Unsubscribe(topic string, handler interface{}) error {
	bus.lock.Lock()
	defer bus.lock.Unlock()
	if _, ok := bus.handlers[topic]; ok && len(bus.handlers[topic]) > 0 {
		bus.removeHandler(topic, bus.findHandlerIdx(topic, reflect.ValueOf(handler)))
		return nil
	}
	return fmt.Errorf("topic %s doesn't exist", topic)
}

// Publish executes callback defined for a topic. Any additional argument will be transferred to the callback.
func (bus *EventBus) Publish(topic string, args ...interface{}) {
	bus.lock.Lock() // will unlock if handler is not found or always after setUpPublish
	defer bus.lock.Unlock()
	if handlers, ok := bus.handlers[topic]; ok && 0 < len(handlers) {
		// Handlers slice may be changed by removeHandler and Unsubscribe during iteration,
		// so make a copy and iterate the copied slice.
		copyHandlers := make([]*eventHandler, len(handlers))
		copy(copyHandlers, handlers)
		for i, handler := range copyHandlers {
			if handler.flagOnce {
				bus.removeHandler(topic, i)
			}
			if !handler.async {
				bus.doPublish(handler, topic, args...)
			} else {
				bus.wg.Add(1)
				if handler.transactional {
					bus.lock.Unlock()
					handler.Lock()
					bus.lock.Lock()
				}
				go bus.doPublishAsync(handler, topic, args...)
			}
		}
	}
}

func (bus *EventBus) doPublish(handler *eventHandler, topic string, args ...interface{}) {
	passedArguments := bus.setUpPublish(handler, args...)
	handler.callBack.Call(passedArguments)
}

func (bus *EventBus) doPublishAsync(handler *eventHandler, topic string, args ...interface{}) {
	defer bus.wg.Done()
	if handler.transactional {
		defer handler.Unlock()
	}
	bus.doPublish(handler, topic, args...)
}

func (bus *EventBus) removeHandler(topic string, idx int) {
	if _, ok := bus.handlers[topic]; !ok {
		return
	}
	l := len(bus.handlers[topic])

	if !(0 <= idx && idx < l) {
		return
	}

	copy(bus.handlers[topic][idx:], bus.handlers[topic][idx+1:])
	bus.handlers[topic][l-1] = nil // or the zero value of T
	bus.handlers[topic] = bus.handlers[topic][:l-1]
}

func (bus *EventBus) findHandlerIdx(topic string, callback reflect.Value) int {
	if _, ok := bus.handlers[topic]; ok {
		for idx, handler := range bus.handlers[topic] {
			if handler.callBack.Type() == callback.Type() &&
				handler.callBack.Pointer() == callback.Pointer() {
				return idx
			}
		}
	}
	return -1
}

func (bus *EventBus) setUpPublish(callback *eventHandler, args ...interface{}) []reflect.Value {
	funcType := callback.callBack.Type()
	passedArguments := make([]reflect.Value, len(args))
	for i, v := range args {
		if v == nil {
			passedArguments[i] = reflect.New(funcType.In(i)).Elem()
		} else {
			passedArguments[i] = reflect.ValueOf(v)
		}
	}

	return passedArguments
}

// WaitAsync waits for all async callbacks to complete
func (bus *EventBus) WaitAsync() {
	bus.wg.Wait()
}
