package connstr

import (
	"errors"
	"fmt"
	"net"
	"net/url"
	"regexp"
	"strconv"
	"strings"
)

const (
	// DefaultHttpPort is the default HTTP port to use to connect to Couchbase Server.
	DefaultHttpPort = 8091

	// DefaultSslHttpPort is the default HTTPS port to use to connect to Couchbase Server.
	DefaultSslHttpPort = 18091

	// DefaultMemdPort is the default memd port to use to connect to Couchbase Server.
	DefaultMemdPort = 11210

	// DefaultSslMemdPort is the default memd SSL port to use to connect to Couchbase Server.
	DefaultSslMemdPort = 11207
)

const (
	couchbaseScheme = iota + 1
	httpScheme
	nsServerScheme
)

func hostIsIpAddress(host string) bool {
	if strings.HasPrefix(host, "[") {
		// This is an IPv6 address
		return true
	}
	if net.ParseIP(host) != nil {
		// This is an IPv4 address
		return true
	}
	return false
}

// Address represents a host:port pair.
type Address struct {
	Host string
	Port int
}

// ConnSpec describes a connection specification.
type ConnSpec struct {
	Scheme    string
	Addresses []Address
	Bucket    string
	Options   map[string][]string
}

func (spec ConnSpec) srvRecord() (string, string, string, bool) {
	// Only `couchbase`-type schemes allow SRV records
	if spec.Scheme != "couchbase" && spec.Scheme != "couchbases" {
		return "", "", "", false
	}

	// Must have only a single host, with no port specified
	if len(spec.Addresses) != 1 || spec.Addresses[0].Port != -1 {
		return "", "", "", false
	}

	if hostIsIpAddress(spec.Addresses[0].Host) {
		return "", "", "", false
	}

	return spec.Scheme, "tcp", spec.Addresses[0].Host, true
}

// SrvRecordName returns the record name for the ConnSpec.
func (spec ConnSpec) SrvRecordName() (recordName string) {
	scheme, proto, host, isValid := spec.srvRecord()
	if !isValid {
		return ""
	}

	return fmt.Sprintf("_%s._%s.%s", scheme, proto, host)
}

// GetOption returns the specified option value for the ConnSpec.
func (spec ConnSpec) GetOption(name string) []string {
	if opt, ok := spec.Options[name]; ok {
		return opt
	}
	return nil
}

// GetOptionString returns the specified option value for the ConnSpec.
func (spec ConnSpec) GetOptionString(name string) string {
	opts := spec.GetOption(name)
	if len(opts) > 0 {
		return opts[0]
	}
	return ""
}

// Parse parses the connection string into a ConnSpec.
func Parse(connStr string) (out ConnSpec, err error) {
	partMatcher := regexp.MustCompile(`((.*):\/\/)?(([^\/?:]*)(:([^\/?:@]*))?@)?([^\/?]*)(\/([^\?]*))?(\?(.*))?`)
	hostMatcher := regexp.MustCompile(`((\[[^\]]+\]+)|([^;\,\:]+))(:([0-9]*))?(;\,)?`)
	parts := partMatcher.FindStringSubmatch(connStr)
	var onlyAllowSingleHost bool

	if parts[2] != "" {
		out.Scheme = parts[2]

		switch out.Scheme {
		case "couchbase":
		case "couchbases":
		case "http":
		case "ns_server":
			onlyAllowSingleHost = true
		case "ns_servers":
			onlyAllowSingleHost = true
		default:
			err = errors.New("bad scheme")
			return
		}
	}

	if parts[7] != "" {
		hosts := hostMatcher.FindAllStringSubmatch(parts[7], -1)
		if len(hosts) > 1 && onlyAllowSingleHost {
			err = errors.New("ns_server scheme can only be used with a single host")
			return
		}
		for _, hostInfo := range hosts {
			address := Address{
				Host: hostInfo[1],
				Port: -1,
			}

			if hostInfo[5] != "" {
				address.Port, err = strconv.Atoi(hostInfo[5])
				if err != nil {
					return
				}
			}

			out.Addresses = append(out.Addresses, address)
		}
	}

	if parts[9] != "" {
		out.Bucket, err = url.QueryUnescape(parts[9])
		if err != nil {
			return
		}
	}

	if parts[11] != "" {
		out.Options, err = url.ParseQuery(parts[11])
		if err != nil {
			return
		}
	}

	return
}

func (spec ConnSpec) String() string {
	var out string

	if spec.Scheme != "" {
		out += fmt.Sprintf("%s://", spec.Scheme)
	}

	for i, address := range spec.Addresses {
		if i > 0 {
			out += ","
		}

		if address.Port >= 0 {
			out += fmt.Sprintf("%s:%d", address.Host, address.Port)
		} else {
			out += address.Host
		}
	}

	if spec.Bucket != "" {
		out += "/"
		out += spec.Bucket
	}

	urlOptions := url.Values(spec.Options)
	if len(urlOptions) > 0 {
		out += "?" + urlOptions.Encode()
	}

	return out
}

// ResolvedConnSpec is the result of resolving a ConnSpec.
type ResolvedConnSpec struct {
	UseSsl       bool
	MemdHosts    []Address
	HttpHosts    []Address
	NSServerHost *Address
	Bucket       string
	Options      map[string][]string
	SrvRecord    *SrvRecord
}

// SrvRecord contains the information about the srv record used to extract addresses.
type SrvRecord struct {
	Proto  string
	Scheme string
	Host   string
}

// Resolve parses a ConnSpec into a ResolvedConnSpec.
func Resolve(connSpec ConnSpec) (out ResolvedConnSpec, err error) {
	defaultPort := 0
	hasExplicitScheme := false
	var scheme int
	useSsl := false

	switch connSpec.Scheme {
	case "couchbase":
		defaultPort = DefaultMemdPort
		hasExplicitScheme = true
		scheme = couchbaseScheme
		useSsl = false
	case "couchbases":
		defaultPort = DefaultSslMemdPort
		hasExplicitScheme = true
		scheme = couchbaseScheme
		useSsl = true
	case "http":
		defaultPort = DefaultHttpPort
		hasExplicitScheme = true
		scheme = httpScheme
		useSsl = false
	case "ns_server":
		defaultPort = DefaultHttpPort
		hasExplicitScheme = true
		scheme = nsServerScheme
		useSsl = true
	case "":
		defaultPort = DefaultHttpPort
		hasExplicitScheme = false
		scheme = httpScheme
		useSsl = false
	default:
		err = errors.New("bad scheme")
		return
	}

	var srvRecords []*net.SRV
	srvScheme, srvProto, srvHost, srvIsValid := connSpec.srvRecord()
	if srvIsValid {
		_, addrs, err := net.LookupSRV(srvScheme, srvProto, srvHost)
		if err == nil && len(addrs) > 0 {
			srvRecords = addrs
		}
	}

	if srvRecords != nil {
		for _, srv := range srvRecords {
			out.MemdHosts = append(out.MemdHosts, Address{
				Host: strings.TrimSuffix(srv.Target, "."),
				Port: int(srv.Port),
			})
		}
		out.SrvRecord = &SrvRecord{
			Host:   srvHost,
			Proto:  srvProto,
			Scheme: srvScheme,
		}
	} else if len(connSpec.Addresses) == 0 {
		if scheme == nsServerScheme {
			out.NSServerHost = &Address{
				Host: "127.0.0.1",
				Port: DefaultHttpPort,
			}
		} else {
			if useSsl {
				out.MemdHosts = append(out.MemdHosts, Address{
					Host: "127.0.0.1",
					Port: DefaultSslMemdPort,
				})
				out.HttpHosts = append(out.HttpHosts, Address{
					Host: "127.0.0.1",
					Port: DefaultSslHttpPort,
				})
			} else {
				out.MemdHosts = append(out.MemdHosts, Address{
					Host: "127.0.0.1",
					Port: DefaultMemdPort,
				})
				out.HttpHosts = append(out.HttpHosts, Address{
					Host: "127.0.0.1",
					Port: DefaultHttpPort,
				})
			}
		}
	} else {
		for _, address := range connSpec.Addresses {
			hasExplicitPort := address.Port > 0

			if !hasExplicitScheme && hasExplicitPort && address.Port != defaultPort {
				err = errors.New("ambiguous port without scheme")
				return
			}

			if hasExplicitScheme && scheme == couchbaseScheme && address.Port == DefaultHttpPort {
				err = errors.New("couchbase://host:8091 not supported for couchbase:// scheme. Use couchbase://host")
				return
			}

			if address.Port <= 0 || address.Port == defaultPort || address.Port == DefaultHttpPort {
				if scheme == nsServerScheme {
					out.NSServerHost = &Address{
						Host: address.Host,
						Port: DefaultHttpPort,
					}
				} else {
					if useSsl {
						out.MemdHosts = append(out.MemdHosts, Address{
							Host: address.Host,
							Port: DefaultSslMemdPort,
						})
						out.HttpHosts = append(out.HttpHosts, Address{
							Host: address.Host,
							Port: DefaultSslHttpPort,
						})
					} else {
						out.MemdHosts = append(out.MemdHosts, Address{
							Host: address.Host,
							Port: DefaultMemdPort,
						})
						out.HttpHosts = append(out.HttpHosts, Address{
							Host: address.Host,
							Port: DefaultHttpPort,
						})
					}
				}
			} else {
				switch scheme {
				case couchbaseScheme:
					out.MemdHosts = append(out.MemdHosts, Address{
						Host: address.Host,
						Port: address.Port,
					})
				case httpScheme:
					out.HttpHosts = append(out.HttpHosts, Address{
						Host: address.Host,
						Port: address.Port,
					})
				case nsServerScheme:
					out.NSServerHost = &Address{
						Host: address.Host,
						Port: address.Port,
					}
				}
			}
		}
	}

	out.UseSsl = useSsl
	out.Bucket = connSpec.Bucket
	out.Options = connSpec.Options
	return
}
