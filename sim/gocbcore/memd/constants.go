package memd

import "fmt"

// CmdMagic represents the magic number that begins the header
// of every packet and informs the rest of the header format.
type CmdMagic uint8

const (
	// CmdMagicReq indicates that the packet is a request.
	CmdMagicReq = CmdMagic(0x80)

	// CmdMagicRes indicates that the packet is a response.
	CmdMagicRes = CmdMagic(0x81)

	// CmdMagicServerReq indicates that the packet is a rquest originating from the server.
	CmdMagicServerReq = CmdMagic(0x82)

	// These are private rather than public as the library will automatically
	// switch to and from these magics based on the use of frames within a packet.
	cmdMagicReqExt = CmdMagic(0x08)
	cmdMagicResExt = CmdMagic(0x18)
)

// frameType specifies which kind of frame extra a particular block belongs to.
// This is a private type since we automatically encode this internally based on
// whether the specific frame block is attached to the packet.
type frameType uint8

const (
	frameTypeReqBarrier           = frameType(0)
	frameTypeReqSyncDurability    = frameType(1)
	frameTypeReqStreamID          = frameType(2)
	frameTypeReqOpenTracing       = frameType(3)
	frameTypeReqUserImpersonation = frameType(4)
	frameTypeReqPreserveExpiry    = frameType(5)
	frameTypeResSrvDuration       = frameType(0)
	frameTypeResReadUnits         = frameType(1)
	frameTypeResWriteUnits        = frameType(2)
)

// HelloFeature represents a feature code included in a memcached
// HELLO operation.
type HelloFeature uint16

const (
	// FeatureDatatype indicates support for Datatype fields.
	FeatureDatatype = HelloFeature(0x01)

	// FeatureTLS indicates support for TLS
	FeatureTLS = HelloFeature(0x02)

	// FeatureTCPNoDelay indicates support for TCP no-delay.
	FeatureTCPNoDelay = HelloFeature(0x03)

	// FeatureSeqNo indicates support for mutation tokens.
	FeatureSeqNo = HelloFeature(0x04)

	// FeatureTCPDelay indicates support for TCP delay.
	FeatureTCPDelay = HelloFeature(0x05)

	// FeatureXattr indicates support for document xattrs.
	FeatureXattr = HelloFeature(0x06)

	// FeatureXerror indicates support for extended errors.
	FeatureXerror = HelloFeature(0x07)

	// FeatureSelectBucket indicates support for the SelectBucket operation.
	FeatureSelectBucket = HelloFeature(0x08)

	// Feature 0x09 is reserved and cannot be used.

	// FeatureSnappy indicates support for snappy compressed documents.
	FeatureSnappy = HelloFeature(0x0a)

	// FeatureJSON indicates support for JSON datatype data.
	FeatureJSON = HelloFeature(0x0b)

	// FeatureDuplex indicates support for duplex communications.
	FeatureDuplex = HelloFeature(0x0c)

	// FeatureClusterMapNotif indicates support for cluster-map update notifications.
	FeatureClusterMapNotif = HelloFeature(0x0d)

	// FeatureUnorderedExec indicates support for unordered execution of operations.
	FeatureUnorderedExec = HelloFeature(0x0e)

	// FeatureDurations indicates support for server durations.
	FeatureDurations = HelloFeature(0xf)

	// FeatureAltRequests indicates support for requests with flexible frame extras.
	FeatureAltRequests = HelloFeature(0x10)

	// FeatureSyncReplication indicates support for requests synchronous durability requirements.
	FeatureSyncReplication = HelloFeature(0x11)

	// FeatureCollections indicates support for collections.
	FeatureCollections = HelloFeature(0x12)

	// FeatureOpenTracing indicates support for OpenTracing.
	// DO NOT USE, this was experimentally added to the server and now removed.
	// This code has been superceded by FeatureSnappyEverywhere below.
	FeatureOpenTracing = HelloFeature(0x13)

	// FeatureSnappyEverywhere indicates support for snappy compressed configs as well as documents.
	FeatureSnappyEverywhere = HelloFeature(0x13)

	// FeaturePreserveExpiry indicates support for preserve TTL.
	FeaturePreserveExpiry = HelloFeature(0x14)

	// FeaturePITR indicates support for PITR snapshots.
	FeaturePITR = HelloFeature(0x16)

	// FeatureCreateAsDeleted indicates support for the create as deleted feature.
	FeatureCreateAsDeleted = HelloFeature(0x17)

	// FeatureReplaceBodyWithXattr indicates support for the replace body with xattr feature.
	FeatureReplaceBodyWithXattr = HelloFeature(0x19)

	FeatureResourceUnits = HelloFeature(0x1a)

	// FeatureSubdocReplicaRead indicates support for subdoc replica reads.
	FeatureSubdocReplicaRead = HelloFeature(0x1c)

	// FeatureDedupeNotMyVbucketClustermap indicates support for deduplicated cluster maps on a not my vbucket response.
	FeatureDedupeNotMyVbucketClustermap = HelloFeature(0x1e)

	// FeatureClusterMapKnownVersion indicates support for indicating the known version when fetching cluster maps.
	FeatureClusterMapKnownVersion = HelloFeature(0x1d)

	// FeatureClustermapChangeNotificationBrief indicates support for brief cluster map change notifications.
	FeatureClustermapChangeNotificationBrief = HelloFeature(0x1f)
)

// StreamEndStatus represents the reason for a DCP stream ending
type StreamEndStatus uint32

const (
	// StreamEndOK represents that the stream ended successfully.
	StreamEndOK = StreamEndStatus(0x00)

	// StreamEndClosed represents that the stream was forcefully closed.
	StreamEndClosed = StreamEndStatus(0x01)

	// StreamEndStateChanged represents that the stream was closed due to a state change.
	StreamEndStateChanged = StreamEndStatus(0x02)

	// StreamEndDisconnected represents that the stream was closed due to disconnection.
	StreamEndDisconnected = StreamEndStatus(0x03)

	// StreamEndTooSlow represents that the stream was closed due to the stream being too slow.
	StreamEndTooSlow = StreamEndStatus(0x04)

	// StreamEndBackfillFailed represents that the stream was closed due to backfill failing.
	StreamEndBackfillFailed = StreamEndStatus(0x05)

	// StreamEndFilterEmpty represents that the stream was closed due to the filter being empty.
	StreamEndFilterEmpty = StreamEndStatus(0x07)
)

// KVText returns the textual representation of this StreamEndStatus.
func (code StreamEndStatus) KVText() string {
	switch code {
	case StreamEndOK:
		return "success"
	case StreamEndClosed:
		return "stream closed"
	case StreamEndStateChanged:
		return "state changed"
	case StreamEndDisconnected:
		return "disconnected"
	case StreamEndTooSlow:
		return "too slow"
	case StreamEndFilterEmpty:
		return "filter empty"
	case StreamEndBackfillFailed:
		return "backfill failed"
	default:
		return fmt.Sprintf("unknown stream close reason (%d)", code)
	}
}

// StreamEventCode is the code for a DCP Stream event
type StreamEventCode uint32

const (
	// StreamEventCollectionCreate is the StreamEventCode for a collection create event
	StreamEventCollectionCreate = StreamEventCode(0x00)

	// StreamEventCollectionDelete is the StreamEventCode for a collection delete event
	StreamEventCollectionDelete = StreamEventCode(0x01)

	// StreamEventCollectionFlush is the StreamEventCode for a collection flush event
	StreamEventCollectionFlush = StreamEventCode(0x02)

	// StreamEventScopeCreate is the StreamEventCode for a scope create event
	StreamEventScopeCreate = StreamEventCode(0x03)

	// StreamEventScopeDelete is the StreamEventCode for a scope delete event
	StreamEventScopeDelete = StreamEventCode(0x04)

	// StreamEventCollectionChanged is the StreamEventCode for a collection changed event
	StreamEventCollectionChanged = StreamEventCode(0x05)
)

// VbucketState represents the state of a particular vbucket on a particular server.
type VbucketState uint32

const (
	// VbucketStateActive indicates the vbucket is active on this server
	VbucketStateActive = VbucketState(0x01)

	// VbucketStateReplica indicates the vbucket is a replica on this server
	VbucketStateReplica = VbucketState(0x02)

	// VbucketStatePending indicates the vbucket is preparing to become active on this server.
	VbucketStatePending = VbucketState(0x03)

	// VbucketStateDead indicates the vbucket is no longer valid on this server.
	VbucketStateDead = VbucketState(0x04)
)

// SetMetaOption represents possible option values for a SetMeta operation.
type SetMetaOption uint32

const (
	// ForceMetaOp disables conflict resolution for the document and allows the
	// operation to be applied to an active, pending, or replica vbucket.
	ForceMetaOp = SetMetaOption(0x01)

	// UseLwwConflictResolution switches to Last-Write-Wins conflict resolution
	// for the document.
	UseLwwConflictResolution = SetMetaOption(0x02)

	// RegenerateCas causes the server to invalidate the current CAS value for
	// a document, and to generate a new one.
	RegenerateCas = SetMetaOption(0x04)

	// SkipConflictResolution disables conflict resolution for the document.
	SkipConflictResolution = SetMetaOption(0x08)

	// IsExpiration indicates that the message is for an expired document.
	IsExpiration = SetMetaOption(0x10)
)

// KeyState represents the various storage states of a key on the server.
type KeyState uint8

const (
	// KeyStateNotPersisted indicates the key is in memory, but not yet written to disk.
	KeyStateNotPersisted = KeyState(0x00)

	// KeyStatePersisted indicates that the key has been written to disk.
	KeyStatePersisted = KeyState(0x01)

	// KeyStateNotFound indicates that the key is not found in memory or on disk.
	KeyStateNotFound = KeyState(0x80)

	// KeyStateDeleted indicates that the key has been written to disk as deleted.
	KeyStateDeleted = KeyState(0x81)
)

// SubDocOpType specifies the type of a sub-document operation.
type SubDocOpType uint8

const (
	// SubDocOpGet indicates the operation is a sub-document `Get` operation.
	SubDocOpGet = SubDocOpType(CmdSubDocGet)

	// SubDocOpExists indicates the operation is a sub-document `Exists` operation.
	SubDocOpExists = SubDocOpType(CmdSubDocExists)

	// SubDocOpGetCount indicates the operation is a sub-document `GetCount` operation.
	SubDocOpGetCount = SubDocOpType(CmdSubDocGetCount)

	// SubDocOpDictAdd indicates the operation is a sub-document `Add` operation.
	SubDocOpDictAdd = SubDocOpType(CmdSubDocDictAdd)

	// SubDocOpDictSet indicates the operation is a sub-document `Set` operation.
	SubDocOpDictSet = SubDocOpType(CmdSubDocDictSet)

	// SubDocOpDelete indicates the operation is a sub-document `Remove` operation.
	SubDocOpDelete = SubDocOpType(CmdSubDocDelete)

	// SubDocOpReplace indicates the operation is a sub-document `Replace` operation.
	SubDocOpReplace = SubDocOpType(CmdSubDocReplace)

	// SubDocOpArrayPushLast indicates the operation is a sub-document `ArrayPushLast` operation.
	SubDocOpArrayPushLast = SubDocOpType(CmdSubDocArrayPushLast)

	// SubDocOpArrayPushFirst indicates the operation is a sub-document `ArrayPushFirst` operation.
	SubDocOpArrayPushFirst = SubDocOpType(CmdSubDocArrayPushFirst)

	// SubDocOpArrayInsert indicates the operation is a sub-document `ArrayInsert` operation.
	SubDocOpArrayInsert = SubDocOpType(CmdSubDocArrayInsert)

	// SubDocOpArrayAddUnique indicates the operation is a sub-document `ArrayAddUnique` operation.
	SubDocOpArrayAddUnique = SubDocOpType(CmdSubDocArrayAddUnique)

	// SubDocOpCounter indicates the operation is a sub-document `Counter` operation.
	SubDocOpCounter = SubDocOpType(CmdSubDocCounter)

	// SubDocOpGetDoc represents a full document retrieval, for use with extended attribute ops.
	SubDocOpGetDoc = SubDocOpType(CmdGet)

	// SubDocOpSetDoc represents a full document set, for use with extended attribute ops.
	SubDocOpSetDoc = SubDocOpType(CmdSet)

	// SubDocOpAddDoc represents a full document add, for use with extended attribute ops.
	SubDocOpAddDoc = SubDocOpType(CmdAdd)

	// SubDocOpDeleteDoc represents a full document delete, for use with extended attribute ops.
	SubDocOpDeleteDoc = SubDocOpType(CmdDelete)

	// SubDocOpReplaceBodyWithXattr represents a replace body with xattr op.
	// Uncommitted: This API may change in the future.
	SubDocOpReplaceBodyWithXattr = SubDocOpType(CmdSubDocReplaceBodyWithXattr)
)

// DcpOpenFlag specifies flags for DCP connections configured when the stream is opened.
type DcpOpenFlag uint32

const (
	// DcpOpenFlagProducer indicates this connection wants the other end to be a producer.
	DcpOpenFlagProducer = DcpOpenFlag(0x01)

	// DcpOpenFlagNotifier indicates this connection wants the other end to be a notifier.
	DcpOpenFlagNotifier = DcpOpenFlag(0x02)

	// DcpOpenFlagIncludeXattrs indicates the client wishes to receive extended attributes.
	DcpOpenFlagIncludeXattrs = DcpOpenFlag(0x04)

	// DcpOpenFlagNoValue indicates the client does not wish to receive mutation values.
	DcpOpenFlagNoValue = DcpOpenFlag(0x08)

	// DcpOpenFlagIncludeDeleteTimes indicates the client wishes to receive delete times.
	DcpOpenFlagIncludeDeleteTimes = DcpOpenFlag(0x20)

	// DcpOpenFlagPiTR indicates the client wishes to receive PITR snapshots
	DcpOpenFlagPiTR = DcpOpenFlag(0x80)
)

// DcpStreamAddFlag specifies flags for DCP streams configured when the stream is opened.
type DcpStreamAddFlag uint32

const (
	// DcpStreamAddFlagDiskOnly indicates that stream should only send items if they are on disk
	DcpStreamAddFlagDiskOnly = DcpStreamAddFlag(0x02)

	// DcpStreamAddFlagLatest indicates this stream wants to get data up to the latest seqno.
	DcpStreamAddFlagLatest = DcpStreamAddFlag(0x04)

	// DcpStreamAddFlagActiveOnly indicates this stream should only connect to an active vbucket.
	DcpStreamAddFlagActiveOnly = DcpStreamAddFlag(0x10)

	// DcpStreamAddFlagStrictVBUUID indicates the vbuuid must match unless the start seqno
	// is 0 and the vbuuid is also 0.
	DcpStreamAddFlagStrictVBUUID = DcpStreamAddFlag(0x20)
)

// DatatypeFlag specifies data flags for the value of a document.
type DatatypeFlag uint8

const (
	// DatatypeFlagJSON indicates the server believes the value payload to be JSON.
	DatatypeFlagJSON = DatatypeFlag(0x01)

	// DatatypeFlagCompressed indicates the value payload is compressed.
	DatatypeFlagCompressed = DatatypeFlag(0x02)

	// DatatypeFlagXattrs indicates the inclusion of xattr data in the value payload.
	DatatypeFlagXattrs = DatatypeFlag(0x04)
)

// SubdocFlag specifies flags for a sub-document operation.
type SubdocFlag uint8

const (
	// SubdocFlagNone indicates no special treatment for this operation.
	SubdocFlagNone = SubdocFlag(0x00)

	// SubdocFlagMkDirP indicates that the path should be created if it does not already exist.
	SubdocFlagMkDirP = SubdocFlag(0x01)

	// 0x02 is unused, formally SubdocFlagMkDoc

	// SubdocFlagXattrPath indicates that the path refers to an Xattr rather than the document body.
	SubdocFlagXattrPath = SubdocFlag(0x04)

	// 0x08 is unused, formally SubdocFlagAccessDeleted

	// SubdocFlagExpandMacros indicates that the value portion of any sub-document mutations
	// should be expanded if they contain macros such as ${Mutation.CAS}.
	SubdocFlagExpandMacros = SubdocFlag(0x10)
)

// SubdocDocFlag specifies document-level flags for a sub-document operation.
type SubdocDocFlag uint8

const (
	// SubdocDocFlagNone indicates no special treatment for this operation.
	SubdocDocFlagNone = SubdocDocFlag(0x00)

	// SubdocDocFlagMkDoc indicates that the document should be created if it does not already exist.
	SubdocDocFlagMkDoc = SubdocDocFlag(0x01)

	// SubdocDocFlagAddDoc indices that this operation should be an add rather than set.
	SubdocDocFlagAddDoc = SubdocDocFlag(0x02)

	// SubdocDocFlagAccessDeleted indicates that you wish to receive soft-deleted documents.
	// Internal: This should never be used and is not supported.
	SubdocDocFlagAccessDeleted = SubdocDocFlag(0x04)

	// SubdocDocFlagCreateAsDeleted indicates that the document should be created as deleted.
	// That is, to create a tombstone only.
	// Internal: This should never be used and is not supported.
	SubdocDocFlagCreateAsDeleted = SubdocDocFlag(0x08)

	SubdocDocFlagReplicaRead = SubdocDocFlag(0x20)
)

// DurabilityLevel specifies the level to use for enhanced durability requirements.
type DurabilityLevel uint8

const (
	// DurabilityLevelMajority specifies that a change must be replicated to (held in memory)
	// a majority of the nodes for the bucket.
	DurabilityLevelMajority = DurabilityLevel(0x01)

	// DurabilityLevelMajorityAndPersistOnMaster specifies that a change must be replicated to (held in memory)
	// a majority of the nodes for the bucket and additionally persisted to disk on the active node.
	DurabilityLevelMajorityAndPersistOnMaster = DurabilityLevel(0x02)

	// DurabilityLevelPersistToMajority specifies that a change must be persisted to (written to disk)
	// a majority for the bucket.
	DurabilityLevelPersistToMajority = DurabilityLevel(0x03)
)
