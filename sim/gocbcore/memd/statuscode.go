package memd

import "fmt"

// StatusCode represents a memcached response status.
type StatusCode uint16

const (
	// StatusSuccess indicates the operation completed successfully.
	StatusSuccess = StatusCode(0x00)

	// StatusKeyNotFound occurs when an operation is performed on a key that does not exist.
	StatusKeyNotFound = StatusCode(0x01)

	// StatusKeyExists occurs when an operation is performed on a key that could not be found.
	StatusKeyExists = StatusCode(0x02)

	// StatusTooBig occurs when an operation attempts to store more data in a single document
	// than the server is capable of storing (by default, this is a 20MB limit).
	StatusTooBig = StatusCode(0x03)

	// StatusInvalidArgs occurs when the server receives invalid arguments for an operation.
	StatusInvalidArgs = StatusCode(0x04)

	// StatusNotStored occurs when the server fails to store a key.
	StatusNotStored = StatusCode(0x05)

	// StatusBadDelta occurs when an invalid delta value is specified to a counter operation.
	StatusBadDelta = StatusCode(0x06)

	// StatusNotMyVBucket occurs when an operation is dispatched to a server which is
	// non-authoritative for a specific vbucket.
	StatusNotMyVBucket = StatusCode(0x07)

	// StatusNoBucket occurs when no bucket was selected on a connection.
	StatusNoBucket = StatusCode(0x08)

	// StatusLocked occurs when an operation fails due to the document being locked.
	StatusLocked = StatusCode(0x09)

	// StatusConfigOnly occurs when an operation fails on a node because the bucket is in config-only mode
	StatusConfigOnly = StatusCode(0x0d)

	// StatusNotLocked occurs when an unlock operation occurs against a document that is not locked.
	// Added in 7.6.0 under MB-58088.
	StatusNotLocked = StatusCode(0x0e)

	// StatusAuthStale occurs when authentication credentials have become invalidated.
	StatusAuthStale = StatusCode(0x1f)

	// StatusAuthError occurs when the authentication information provided was not valid.
	StatusAuthError = StatusCode(0x20)

	// StatusAuthContinue occurs in multi-step authentication when more authentication
	// work needs to be performed in order to complete the authentication process.
	StatusAuthContinue = StatusCode(0x21)

	// StatusRangeError occurs when the range specified to the server is not valid.
	StatusRangeError = StatusCode(0x22)

	// StatusRollback occurs when a DCP stream fails to open due to a rollback having
	// previously occurred since the last time the stream was opened.
	StatusRollback = StatusCode(0x23)

	// StatusAccessError occurs when an access error occurs.
	StatusAccessError = StatusCode(0x24)

	// StatusNotInitialized is sent by servers which are still initializing, and are not
	// yet ready to accept operations on behalf of a particular bucket.
	StatusNotInitialized = StatusCode(0x25)

	// StatusRateLimitedNetworkIngress occurs when the server rate limits due to network ingress.
	StatusRateLimitedNetworkIngress = StatusCode(0x30)

	// StatusRateLimitedNetworkEgress occurs when the server rate limits due to network egress.
	StatusRateLimitedNetworkEgress = StatusCode(0x31)

	// StatusRateLimitedMaxConnections occurs when the server rate limits due to the application reaching the maximum
	// number of allowed connections.
	StatusRateLimitedMaxConnections = StatusCode(0x32)

	// StatusRateLimitedMaxCommands occurs when the server rate limits due to the application reaching the maximum
	// number of allowed operations.
	StatusRateLimitedMaxCommands = StatusCode(0x33)

	// StatusRateLimitedScopeSizeLimitExceeded occurs when the server rate limits due to the application reaching the maximum
	// data size allowed for the scope.
	StatusRateLimitedScopeSizeLimitExceeded = StatusCode(0x34)

	// StatusUnknownCommand occurs when an unknown operation is sent to a server.
	StatusUnknownCommand = StatusCode(0x81)

	// StatusOutOfMemory occurs when the server cannot service a request due to memory
	// limitations.
	StatusOutOfMemory = StatusCode(0x82)

	// StatusNotSupported occurs when an operation is understood by the server, but that
	// operation is not supported on this server (occurs for a variety of reasons).
	StatusNotSupported = StatusCode(0x83)

	// StatusInternalError occurs when internal errors prevent the server from processing
	// your request.
	StatusInternalError = StatusCode(0x84)

	// StatusBusy occurs when the server is too busy to process your request right away.
	// Attempting the operation at a later time will likely succeed.
	StatusBusy = StatusCode(0x85)

	// StatusTmpFail occurs when a temporary failure is preventing the server from
	// processing your request.
	StatusTmpFail = StatusCode(0x86)

	// StatusCollectionUnknown occurs when a Collection cannot be found.
	StatusCollectionUnknown = StatusCode(0x88)

	// StatusScopeUnknown occurs when a Scope cannot be found.
	StatusScopeUnknown = StatusCode(0x8c)

	// StatusDCPStreamIDInvalid occurs when a dcp stream ID is invalid.
	StatusDCPStreamIDInvalid = StatusCode(0x8d)

	// StatusDurabilityInvalidLevel occurs when an invalid durability level was requested.
	StatusDurabilityInvalidLevel = StatusCode(0xa0)

	// StatusDurabilityImpossible occurs when a request is performed with impossible
	// durability level requirements.
	StatusDurabilityImpossible = StatusCode(0xa1)

	// StatusSyncWriteInProgress occurs when an attempt is made to write to a key that has
	// a SyncWrite pending.
	StatusSyncWriteInProgress = StatusCode(0xa2)

	// StatusSyncWriteAmbiguous occurs when an SyncWrite does not complete in the specified
	// time and the result is ambiguous.
	StatusSyncWriteAmbiguous = StatusCode(0xa3)

	// StatusSyncWriteReCommitInProgress occurs when an SyncWrite is being recommitted.
	StatusSyncWriteReCommitInProgress = StatusCode(0xa4)

	// StatusRangeScanCancelled occurs during a range scan to indicate that the range scan was cancelled.
	StatusRangeScanCancelled = StatusCode(0xa5)

	// StatusRangeScanMore occurs during a range scan to indicate that a range scan has more results.
	StatusRangeScanMore = StatusCode(0xa6)

	// StatusRangeScanComplete occurs during a range scan to indicate that a range scan has completed.
	StatusRangeScanComplete = StatusCode(0xa7)

	// StatusRangeScanVbUUIDNotEqual occurs during a range scan to indicate that a vb-uuid mismatch has occurred.
	StatusRangeScanVbUUIDNotEqual = StatusCode(0xa8)

	// StatusSubDocPathNotFound occurs when a sub-document operation targets a path
	// which does not exist in the specifie document.
	StatusSubDocPathNotFound = StatusCode(0xc0)

	// StatusSubDocPathMismatch occurs when a sub-document operation specifies a path
	// which does not match the document structure (field access on an array).
	StatusSubDocPathMismatch = StatusCode(0xc1)

	// StatusSubDocPathInvalid occurs when a sub-document path could not be parsed.
	StatusSubDocPathInvalid = StatusCode(0xc2)

	// StatusSubDocPathTooBig occurs when a sub-document path is too big.
	StatusSubDocPathTooBig = StatusCode(0xc3)

	// StatusSubDocDocTooDeep occurs when an operation would cause a document to be
	// nested beyond the depth limits allowed by the sub-document specification.
	StatusSubDocDocTooDeep = StatusCode(0xc4)

	// StatusSubDocCantInsert occurs when a sub-document operation could not insert.
	StatusSubDocCantInsert = StatusCode(0xc5)

	// StatusSubDocNotJSON occurs when a sub-document operation is performed on a
	// document which is not JSON.
	StatusSubDocNotJSON = StatusCode(0xc6)

	// StatusSubDocBadRange occurs when a sub-document operation is performed with
	// a bad range.
	StatusSubDocBadRange = StatusCode(0xc7)

	// StatusSubDocBadDelta occurs when a sub-document counter operation is performed
	// and the specified delta is not valid.
	StatusSubDocBadDelta = StatusCode(0xc8)

	// StatusSubDocPathExists occurs when a sub-document operation expects a path not
	// to exists, but the path was found in the document.
	StatusSubDocPathExists = StatusCode(0xc9)

	// StatusSubDocValueTooDeep occurs when a sub-document operation specifies a value
	// which is deeper than the depth limits of the sub-document specification.
	StatusSubDocValueTooDeep = StatusCode(0xca)

	// StatusSubDocBadCombo occurs when a multi-operation sub-document operation is
	// performed and operations within the package of ops conflict with each other.
	StatusSubDocBadCombo = StatusCode(0xcb)

	// StatusSubDocBadMulti occurs when a multi-operation sub-document operation is
	// performed and operations within the package of ops conflict with each other.
	StatusSubDocBadMulti = StatusCode(0xcc)

	// StatusSubDocSuccessDeleted occurs when a multi-operation sub-document operation
	// is performed on a soft-deleted document.
	StatusSubDocSuccessDeleted = StatusCode(0xcd)

	// StatusSubDocXattrInvalidFlagCombo occurs when an invalid set of
	// extended-attribute flags is passed to a sub-document operation.
	StatusSubDocXattrInvalidFlagCombo = StatusCode(0xce)

	// StatusSubDocXattrInvalidKeyCombo occurs when an invalid set of key operations
	// are specified for a extended-attribute sub-document operation.
	StatusSubDocXattrInvalidKeyCombo = StatusCode(0xcf)

	// StatusSubDocXattrUnknownMacro occurs when an invalid macro value is specified.
	StatusSubDocXattrUnknownMacro = StatusCode(0xd0)

	// StatusSubDocXattrUnknownVAttr occurs when an invalid virtual attribute is specified.
	StatusSubDocXattrUnknownVAttr = StatusCode(0xd1)

	// StatusSubDocXattrCannotModifyVAttr occurs when a mutation is attempted upon
	// a virtual attribute (which are immutable by definition).
	StatusSubDocXattrCannotModifyVAttr = StatusCode(0xd2)

	// StatusSubDocMultiPathFailureDeleted occurs when a Multi Path Failure occurs on
	// a soft-deleted document.
	StatusSubDocMultiPathFailureDeleted = StatusCode(0xd3)
)

// String returns the textual representation of this StatusCode.
func (code StatusCode) String() string {
	switch code {
	case StatusSuccess:
		return "success"
	case StatusKeyNotFound:
		return "key not found"
	case StatusKeyExists:
		return "key already exists, if a cas was provided the key exists with a different cas"
	case StatusTooBig:
		return "document value was too large"
	case StatusInvalidArgs:
		return "invalid arguments"
	case StatusNotStored:
		return "document could not be stored"
	case StatusBadDelta:
		return "invalid delta was passed"
	case StatusNotMyVBucket:
		return "operation sent to incorrect server"
	case StatusNoBucket:
		return "not connected to a bucket"
	case StatusLocked:
		return "document was locked"
	case StatusConfigOnly:
		return "bucket is in config-only mode"
	case StatusNotLocked:
		return "document was not locked"
	case StatusAuthStale:
		return "authentication context is stale, try re-authenticating"
	case StatusAuthError:
		return "authentication error"
	case StatusAuthContinue:
		return "more authentication steps needed"
	case StatusRangeError:
		return "requested value is outside range"
	case StatusAccessError:
		return "no access"
	case StatusNotInitialized:
		return "cluster is being initialized, requests are blocked"
	case StatusRollback:
		return "rollback is required"
	case StatusUnknownCommand:
		return "unknown command was received"
	case StatusOutOfMemory:
		return "server is out of memory"
	case StatusNotSupported:
		return "server does not support this command"
	case StatusInternalError:
		return "internal server error"
	case StatusBusy:
		return "server is busy, try again later"
	case StatusTmpFail:
		return "temporary failure occurred, try again later"
	case StatusCollectionUnknown:
		return "the requested collection cannot be found"
	case StatusScopeUnknown:
		return "the requested scope cannot be found."
	case StatusDCPStreamIDInvalid:
		return "the provided stream ID is invalid"
	case StatusDurabilityInvalidLevel:
		return "invalid request, invalid durability level specified."
	case StatusDurabilityImpossible:
		return "the requested durability requirements are impossible."
	case StatusSyncWriteInProgress:
		return "key already has syncwrite pending."
	case StatusSyncWriteAmbiguous:
		return "the syncwrite request did not complete in time."
	case StatusSubDocPathNotFound:
		return "sub-document path does not exist"
	case StatusSubDocPathMismatch:
		return "type of element in sub-document path conflicts with type in document"
	case StatusSubDocPathInvalid:
		return "malformed sub-document path"
	case StatusSubDocPathTooBig:
		return "sub-document contains too many components"
	case StatusSubDocDocTooDeep:
		return "existing document contains too many levels of nesting"
	case StatusSubDocCantInsert:
		return "subdocument operation would invalidate the JSON"
	case StatusSubDocNotJSON:
		return "existing document is not valid JSON"
	case StatusSubDocBadRange:
		return "existing numeric value is too large"
	case StatusSubDocBadDelta:
		return "numeric operation would yield a number that is too large, or " +
			"a zero delta was specified"
	case StatusSubDocPathExists:
		return "given path already exists in the document"
	case StatusSubDocValueTooDeep:
		return "value is too deep to insert"
	case StatusSubDocBadCombo:
		return "incorrectly matched subdocument operation types"
	case StatusSubDocBadMulti:
		return "could not execute one or more multi lookups or mutations"
	case StatusSubDocSuccessDeleted:
		return "document is soft-deleted"
	case StatusSubDocXattrInvalidFlagCombo:
		return "invalid xattr flag combination"
	case StatusSubDocXattrInvalidKeyCombo:
		return "invalid xattr key combination"
	case StatusSubDocXattrUnknownMacro:
		return "unknown xattr macro"
	case StatusSubDocXattrUnknownVAttr:
		return "unknown xattr virtual attribute"
	case StatusSubDocXattrCannotModifyVAttr:
		return "cannot modify virtual attributes"
	case StatusSubDocMultiPathFailureDeleted:
		return "sub-document multi-path error"
	case StatusRangeScanCancelled:
		return "range scan cancelled"
	case StatusRangeScanComplete:
		return "range scan complete"
	case StatusRangeScanMore:
		return "range scan more"
	case StatusRangeScanVbUUIDNotEqual:
		return "range scan vb-uuid not equal"
	default:
		return fmt.Sprintf("unknown kv status code (%d)", code)
	}
}
