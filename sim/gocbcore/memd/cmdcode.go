package memd

import (
	"encoding/hex"
	"fmt"
)

// CmdCode represents the specific command the packet is performing.
type CmdCode uint8

// These constants provide predefined values for all the operations
// which are supported by this library.
const (
	CmdGet                        = CmdCode(0x00)
	CmdSet                        = CmdCode(0x01)
	CmdAdd                        = CmdCode(0x02)
	CmdReplace                    = CmdCode(0x03)
	CmdDelete                     = CmdCode(0x04)
	CmdIncrement                  = CmdCode(0x05)
	CmdDecrement                  = CmdCode(0x06)
	CmdNoop                       = CmdCode(0x0a)
	CmdAppend                     = CmdCode(0x0e)
	CmdPrepend                    = CmdCode(0x0f)
	CmdStat                       = CmdCode(0x10)
	CmdTouch                      = CmdCode(0x1c)
	CmdGAT                        = CmdCode(0x1d)
	CmdHello                      = CmdCode(0x1f)
	CmdSASLListMechs              = CmdCode(0x20)
	CmdSASLAuth                   = CmdCode(0x21)
	CmdSASLStep                   = CmdCode(0x22)
	CmdGetAllVBSeqnos             = CmdCode(0x48)
	CmdDcpOpenConnection          = CmdCode(0x50)
	CmdDcpAddStream               = CmdCode(0x51)
	CmdDcpCloseStream             = CmdCode(0x52)
	CmdDcpStreamReq               = CmdCode(0x53)
	CmdDcpGetFailoverLog          = CmdCode(0x54)
	CmdDcpStreamEnd               = CmdCode(0x55)
	CmdDcpSnapshotMarker          = CmdCode(0x56)
	CmdDcpMutation                = CmdCode(0x57)
	CmdDcpDeletion                = CmdCode(0x58)
	CmdDcpExpiration              = CmdCode(0x59)
	CmdDcpSeqNoAdvanced           = CmdCode(0x64)
	CmdDcpOsoSnapshot             = CmdCode(0x65)
	CmdDcpFlush                   = CmdCode(0x5a)
	CmdDcpSetVbucketState         = CmdCode(0x5b)
	CmdDcpNoop                    = CmdCode(0x5c)
	CmdDcpBufferAck               = CmdCode(0x5d)
	CmdDcpControl                 = CmdCode(0x5e)
	CmdDcpEvent                   = CmdCode(0x5f)
	CmdGetReplica                 = CmdCode(0x83)
	CmdSelectBucket               = CmdCode(0x89)
	CmdObserveSeqNo               = CmdCode(0x91)
	CmdObserve                    = CmdCode(0x92)
	CmdGetLocked                  = CmdCode(0x94)
	CmdUnlockKey                  = CmdCode(0x95)
	CmdGetMeta                    = CmdCode(0xa0)
	CmdSetMeta                    = CmdCode(0xa2)
	CmdDelMeta                    = CmdCode(0xa8)
	CmdGetClusterConfig           = CmdCode(0xb5)
	CmdGetRandom                  = CmdCode(0xb6)
	CmdCollectionsGetManifest     = CmdCode(0xba)
	CmdCollectionsGetID           = CmdCode(0xbb)
	CmdSubDocGet                  = CmdCode(0xc5)
	CmdSubDocExists               = CmdCode(0xc6)
	CmdSubDocDictAdd              = CmdCode(0xc7)
	CmdSubDocDictSet              = CmdCode(0xc8)
	CmdSubDocDelete               = CmdCode(0xc9)
	CmdSubDocReplace              = CmdCode(0xca)
	CmdSubDocArrayPushLast        = CmdCode(0xcb)
	CmdSubDocArrayPushFirst       = CmdCode(0xcc)
	CmdSubDocArrayInsert          = CmdCode(0xcd)
	CmdSubDocArrayAddUnique       = CmdCode(0xce)
	CmdSubDocCounter              = CmdCode(0xcf)
	CmdSubDocMultiLookup          = CmdCode(0xd0)
	CmdSubDocMultiMutation        = CmdCode(0xd1)
	CmdSubDocGetCount             = CmdCode(0xd2)
	CmdSubDocReplaceBodyWithXattr = CmdCode(0xd3)
	CmdRangeScanCreate            = CmdCode(0xda)
	CmdRangeScanContinue          = CmdCode(0xdb)
	CmdRangeScanCancel            = CmdCode(0xdc)
	CmdGetErrorMap                = CmdCode(0xfe)
)

// Name returns the string representation of the CmdCode.
func (command CmdCode) Name() string {
	switch command {
	case CmdGet:
		return "CMD_GET"
	case CmdSet:
		return "CMD_SET"
	case CmdAdd:
		return "CMD_ADD"
	case CmdReplace:
		return "CMD_REPLACE"
	case CmdDelete:
		return "CMD_DELETE"
	case CmdIncrement:
		return "CMD_INCREMENT"
	case CmdDecrement:
		return "CMD_DECREMENT"
	case CmdNoop:
		return "CMD_NOOP"
	case CmdAppend:
		return "CMD_APPEND"
	case CmdPrepend:
		return "CMD_PREPEND"
	case CmdStat:
		return "CMD_STAT"
	case CmdTouch:
		return "CMD_TOUCH"
	case CmdGAT:
		return "CMD_GAT"
	case CmdHello:
		return "CMD_HELLO"
	case CmdSASLListMechs:
		return "CMD_SASLLISTMECHS"
	case CmdSASLAuth:
		return "CMD_SASLAUTH"
	case CmdSASLStep:
		return "CMD_SASLSTEP"
	case CmdGetAllVBSeqnos:
		return "CMD_GETALLVBSEQNOS"
	case CmdDcpOpenConnection:
		return "CMD_DCPOPENCONNECTION"
	case CmdDcpAddStream:
		return "CMD_DCPADDSTREAM"
	case CmdDcpCloseStream:
		return "CMD_DCPCLOSESTREAM"
	case CmdDcpStreamReq:
		return "CMD_DCPSTREAMREQ"
	case CmdDcpGetFailoverLog:
		return "CMD_DCPGETFAILOVERLOG"
	case CmdDcpStreamEnd:
		return "CMD_DCPSTREAMEND"
	case CmdDcpSnapshotMarker:
		return "CMD_DCPSNAPSHOTMARKER"
	case CmdDcpMutation:
		return "CMD_DCPMUTATION"
	case CmdDcpDeletion:
		return "CMD_DCPDELETION"
	case CmdDcpExpiration:
		return "CMD_DCPEXPIRATION"
	case CmdDcpFlush:
		return "CMD_DCPFLUSH"
	case CmdDcpSetVbucketState:
		return "CMD_DCPSETVBUCKETSTATE"
	case CmdDcpNoop:
		return "CMD_DCPNOOP"
	case CmdDcpBufferAck:
		return "CMD_DCPBUFFERACK"
	case CmdDcpControl:
		return "CMD_DCPCONTROL"
	case CmdGetReplica:
		return "CMD_GETREPLICA"
	case CmdSelectBucket:
		return "CMD_SELECTBUCKET"
	case CmdObserveSeqNo:
		return "CMD_OBSERVESEQNO"
	case CmdObserve:
		return "CMD_OBSERVE"
	case CmdGetLocked:
		return "CMD_GETLOCKED"
	case CmdUnlockKey:
		return "CMD_UNLOCKKEY"
	case CmdGetMeta:
		return "CMD_GETMETA"
	case CmdSetMeta:
		return "CMD_SETMETA"
	case CmdDelMeta:
		return "CMD_DELMETA"
	case CmdGetClusterConfig:
		return "CMD_GETCLUSTERCONFIG"
	case CmdGetRandom:
		return "CMD_GETRANDOM"
	case CmdSubDocGet:
		return "CMD_SUBDOCGET"
	case CmdSubDocExists:
		return "CMD_SUBDOCEXISTS"
	case CmdSubDocDictAdd:
		return "CMD_SUBDOCDICTADD"
	case CmdSubDocDictSet:
		return "CMD_SUBDOCDICTSET"
	case CmdSubDocDelete:
		return "CMD_SUBDOCDELETE"
	case CmdSubDocReplace:
		return "CMD_SUBDOCREPLACE"
	case CmdSubDocArrayPushLast:
		return "CMD_SUBDOCARRAYPUSHLAST"
	case CmdSubDocArrayPushFirst:
		return "CMD_SUBDOCARRAYPUSHFIRST"
	case CmdSubDocArrayInsert:
		return "CMD_SUBDOCARRAYINSERT"
	case CmdSubDocArrayAddUnique:
		return "CMD_SUBDOCARRAYADDUNIQUE"
	case CmdSubDocCounter:
		return "CMD_SUBDOCCOUNTER"
	case CmdSubDocMultiLookup:
		return "CMD_SUBDOCMULTILOOKUP"
	case CmdSubDocMultiMutation:
		return "CMD_SUBDOCMULTIMUTATION"
	case CmdSubDocGetCount:
		return "CMD_SUBDOCGETCOUNT"
	case CmdGetErrorMap:
		return "CMD_GETERRORMAP"
	case CmdCollectionsGetID:
		return "CMD_GETCOLLECTIONID"
	case CmdCollectionsGetManifest:
		return "CMD_GETCOLLECTIONMANIFEST"
	case CmdRangeScanCreate:
		return "CMD_RANGESCANCREATE"
	case CmdRangeScanContinue:
		return "CMD_RANGESCANCONTINUE"
	case CmdRangeScanCancel:
		return "CMD_RANGESCANCANCEL"
	default:
		return "CMD_x" + hex.EncodeToString([]byte{byte(command)})
	}
}

func (magic CmdMagic) String() string {
	switch magic {
	case CmdMagicReq:
		return "CmdMagicReq"
	case CmdMagicRes:
		return "CmdMagicRes"
	}
	return fmt.Sprintf("CmdMagicUnk(%d)", magic)
}
