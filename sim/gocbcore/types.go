// Package gocbcore (this copy) is NOT the Couchbase SDK.  It is the simulated-cluster environment
// model used by /verif: it declares exactly the API surface Trendyol/go-dcp uses, with the
// signatures of gocbcore v10.5.2, and answers every request from an in-memory cluster whose
// threading mirrors the real client (per connection one reader thread for control responses and
// one DCP thread draining a FIFO of stream packets).  All activity runs on verif/vrt threads.
package gocbcore

import (
	"crypto/tls"
	"crypto/x509"
	"errors"
	"fmt"
	"time"

	"github.com/couchbase/gocbcore/v10/memd"
)

type (
	SeqNo  uint64
	VbUUID uint64
	Cas    uint64
)

type FailoverEntry struct {
	VbUUID VbUUID
	SeqNo  SeqNo
}

type SubDocOp struct {
	Op    memd.SubDocOpType
	Flags memd.SubdocFlag
	Path  string
	Value []byte
}

type SubDocResult struct {
	Err   error
	Value []byte
}

type MutationToken struct {
	VbID   uint16
	VbUUID VbUUID
	SeqNo  SeqNo
}

type ResourceUnitResult struct{}

// ---- errors ----------------------------------------------------------------------------------

var (
	ErrTimeout               = errors.New("operation has timed out")
	ErrRequestCanceled       = errors.New("request canceled")
	ErrTemporaryFailure      = errors.New("temporary failure")
	ErrBusy                  = errors.New("busy")
	ErrCasMismatch           = errors.New("cas mismatch")
	ErrAmbiguousTimeout      = fmt.Errorf("ambiguous timeout | %w", ErrTimeout)
	ErrUnambiguousTimeout    = fmt.Errorf("unambiguous timeout | %w", ErrTimeout)
	ErrDocumentNotFound      = errors.New("document not found")
	ErrDocumentExists        = errors.New("document exists")
	ErrPathNotFound          = errors.New("path not found")
	ErrInvalidReplica        = errors.New("invalid replica")
	ErrInvalidVBucket        = errors.New("invalid vbucket")
	ErrShutdown              = errors.New("shutdown")
	ErrSocketClosed          = errors.New("socket closed")
	ErrCollectionNotFound    = errors.New("collection not found")
	ErrInternalServerFailure = errors.New("internal server failure")
	ErrMemdRollback          = errors.New("rollback")
	ErrNoSupportedMechanisms = errors.New("no supported authentication mechanisms")

	ErrDCPStreamClosed         = errors.New("stream closed")
	ErrDCPStreamStateChanged   = errors.New("stream state changed")
	ErrDCPStreamDisconnected   = errors.New("stream disconnected")
	ErrDCPStreamTooSlow        = errors.New("stream too slow")
	ErrDCPBackfillFailed       = errors.New("backfill failed")
	ErrDCPStreamFilterEmpty    = errors.New("stream filter empty")
	ErrDCPStreamLostPrivileges = errors.New("stream lost privileges")
	ErrDCPStreamIDInvalid      = errors.New("stream id invalid")
)

type RetryReason interface {
	AllowsNonIdempotentRetry() bool
	AlwaysRetry() bool
	Description() string
}

type KeyValueError struct {
	InnerError         error
	StatusCode         memd.StatusCode
	DocumentKey        string
	BucketName         string
	ScopeName          string
	CollectionName     string
	CollectionID       uint32
	ErrorName          string
	ErrorDescription   string
	Opaque             uint32
	Context            string
	Ref                string
	RetryReasons       []RetryReason
	RetryAttempts      uint32
	LastDispatchedTo   string
	LastDispatchedFrom string
	LastConnectionID   string
}

func (e KeyValueError) Error() string {
	return fmt.Sprintf("%v | status=0x%x key=%q", e.InnerError, uint16(e.StatusCode), e.DocumentKey)
}
func (e KeyValueError) Unwrap() error { return e.InnerError }

type TimeoutError struct {
	InnerError    error
	OperationID   string
	TimeObserved  time.Duration
	RetryAttempts uint32
}

func (err TimeoutError) Error() string { return err.InnerError.Error() + " | " + err.OperationID }
func (err TimeoutError) Unwrap() error { return err.InnerError }

type DCPRollbackError struct {
	InnerError error
	SeqNo      SeqNo
}

func (e DCPRollbackError) Error() string {
	return fmt.Sprintf("%v | {\"seq_no\":%d}", e.InnerError, e.SeqNo)
}
func (err DCPRollbackError) Unwrap() error { return err.InnerError }

// ---- DCP event structs -------------------------------------------------------------------------

type SnapshotState uint32

// (as in gocbcore: bit 0 = memory, bit 1 = disk, bit 2 = checkpoint, bit 3 = ack)
func (s SnapshotState) HasInMemory() bool   { return uint32(s)&1 != 0 }
func (s SnapshotState) HasOnDisk() bool     { return uint32(s)&2 != 0 }
func (s SnapshotState) HasCheckpoint() bool { return uint32(s)&4 != 0 }
func (s SnapshotState) HasAck() bool        { return uint32(s)&8 != 0 }

type DcpSnapshotMarker struct {
	StartSeqNo, EndSeqNo                                   uint64
	VbID, StreamID                                         uint16
	SnapshotType                                           SnapshotState
	MaxVisibleSeqNo, HighCompletedSeqNo, SnapshotTimeStamp uint64
}

type DcpMutation struct {
	SeqNo, RevNo            uint64
	Cas                     uint64
	Flags, Expiry, LockTime uint32
	CollectionID            uint32
	VbID                    uint16
	StreamID                uint16
	Datatype                uint8
	Key, Value              []byte
}

type DcpDeletion struct {
	SeqNo, RevNo uint64
	Cas          uint64
	DeleteTime   uint32
	CollectionID uint32
	VbID         uint16
	StreamID     uint16
	Datatype     uint8
	Key, Value   []byte
}

type DcpExpiration struct {
	SeqNo, RevNo uint64
	Cas          uint64
	DeleteTime   uint32
	CollectionID uint32
	VbID         uint16
	StreamID     uint16
	Key          []byte
}

type DcpCollectionCreation struct {
	SeqNo        uint64
	Version      uint8
	VbID         uint16
	ManifestUID  uint64
	ScopeID      uint32
	CollectionID uint32
	Ttl          uint32
	StreamID     uint16
	Key          []byte
}

type DcpCollectionDeletion struct {
	SeqNo        uint64
	ManifestUID  uint64
	ScopeID      uint32
	CollectionID uint32
	StreamID     uint16
	VbID         uint16
	Version      uint8
}

type DcpCollectionFlush struct {
	SeqNo        uint64
	Version      uint8
	VbID         uint16
	ManifestUID  uint64
	CollectionID uint32
	StreamID     uint16
}

type DcpScopeCreation struct {
	SeqNo       uint64
	Version     uint8
	VbID        uint16
	ManifestUID uint64
	ScopeID     uint32
	StreamID    uint16
	Key         []byte
}

type DcpScopeDeletion struct {
	SeqNo       uint64
	Version     uint8
	VbID        uint16
	ManifestUID uint64
	ScopeID     uint32
	StreamID    uint16
}

type DcpCollectionModification struct {
	SeqNo        uint64
	ManifestUID  uint64
	CollectionID uint32
	Ttl          uint32
	VbID         uint16
	StreamID     uint16
	Version      uint8
}

type DcpOSOSnapshot struct {
	SnapshotType uint32
	VbID         uint16
	StreamID     uint16
}

type DcpSeqNoAdvanced struct {
	SeqNo    uint64
	VbID     uint16
	StreamID uint16
}

type DcpStreamEnd struct {
	VbID     uint16
	StreamID uint16
}

type StreamObserver interface {
	SnapshotMarker(snapshotMarker DcpSnapshotMarker)
	Mutation(mutation DcpMutation)
	Deletion(deletion DcpDeletion)
	Expiration(expiration DcpExpiration)
	End(end DcpStreamEnd, err error)
	CreateCollection(creation DcpCollectionCreation)
	DeleteCollection(deletion DcpCollectionDeletion)
	FlushCollection(flush DcpCollectionFlush)
	CreateScope(creation DcpScopeCreation)
	DeleteScope(deletion DcpScopeDeletion)
	ModifyCollection(modification DcpCollectionModification)
	OSOSnapshot(snapshot DcpOSOSnapshot)
	SeqNoAdvanced(seqNoAdvanced DcpSeqNoAdvanced)
}

// ---- options / results -------------------------------------------------------------------------

type RequestSpanContext interface{}

type RetryRequest interface{}
type RetryAction interface{ Duration() time.Duration }
type RetryStrategy interface {
	RetryAfter(req RetryRequest, reason RetryReason) RetryAction
}
type BackoffCalculator func(retryAttempts uint32) time.Duration

type BestEffortRetryStrategy struct{}

func (BestEffortRetryStrategy) RetryAfter(RetryRequest, RetryReason) RetryAction { return nil }

func NewBestEffortRetryStrategy(calculator BackoffCalculator) *BestEffortRetryStrategy {
	return &BestEffortRetryStrategy{}
}

type PendingOp interface {
	Cancel()
}

type MutateInOptions struct {
	Key                    []byte
	Flags                  memd.SubdocDocFlag
	Cas                    Cas
	Expiry                 uint32
	Ops                    []SubDocOp
	CollectionName         string
	ScopeName              string
	RetryStrategy          RetryStrategy
	DurabilityLevel        memd.DurabilityLevel
	DurabilityLevelTimeout time.Duration
	CollectionID           uint32
	Deadline               time.Time
	PreserveExpiry         bool
	User                   string
	TraceContext           RequestSpanContext
}

type MutateInResult struct {
	Cas           Cas
	MutationToken MutationToken
	Ops           []SubDocResult
}

type LookupInOptions struct {
	Key            []byte
	Flags          memd.SubdocDocFlag
	Ops            []SubDocOp
	CollectionName string
	ScopeName      string
	CollectionID   uint32
	RetryStrategy  RetryStrategy
	Deadline       time.Time
	ReplicaIdx     int
	ServerGroup    string
	User           string
	TraceContext   RequestSpanContext
}

type LookupInResult struct {
	Cas Cas
	Ops []SubDocResult
}

type GetOptions struct {
	Key            []byte
	CollectionName string
	ScopeName      string
	CollectionID   uint32
	RetryStrategy  RetryStrategy
	Deadline       time.Time
	User           string
	TraceContext   RequestSpanContext
}

type GetResult struct {
	Value    []byte
	Flags    uint32
	Datatype uint8
	Cas      Cas
}

type SetOptions struct {
	Key                    []byte
	CollectionName         string
	ScopeName              string
	RetryStrategy          RetryStrategy
	Value                  []byte
	Flags                  uint32
	Datatype               uint8
	Expiry                 uint32
	DurabilityLevel        memd.DurabilityLevel
	DurabilityLevelTimeout time.Duration
	CollectionID           uint32
	Deadline               time.Time
	PreserveExpiry         bool
	User                   string
	TraceContext           RequestSpanContext
}

type StoreResult struct {
	Cas           Cas
	MutationToken MutationToken
}

type DeleteOptions struct {
	Key                    []byte
	CollectionName         string
	ScopeName              string
	RetryStrategy          RetryStrategy
	Cas                    Cas
	DurabilityLevel        memd.DurabilityLevel
	DurabilityLevelTimeout time.Duration
	CollectionID           uint32
	Deadline               time.Time
	User                   string
	TraceContext           RequestSpanContext
}

type DeleteResult struct {
	Cas           Cas
	MutationToken MutationToken
}

type ObserveVbOptions struct {
	VbID          uint16
	VbUUID        VbUUID
	ReplicaIdx    int
	RetryStrategy RetryStrategy
	Deadline      time.Time
	User          string
	TraceContext  RequestSpanContext
}

type ObserveVbResult struct {
	DidFailover  bool
	VbID         uint16
	VbUUID       VbUUID
	PersistSeqNo SeqNo
	CurrentSeqNo SeqNo
	OldVbUUID    VbUUID
	LastSeqNo    SeqNo
}

type GetCollectionIDOptions struct {
	RetryStrategy RetryStrategy
	TraceContext  RequestSpanContext
	Deadline      time.Time
	User          string
}

type GetCollectionIDResult struct {
	ManifestID   uint64
	CollectionID uint32
}

type ServiceType int

const (
	MemdService ServiceType = 1
	MgmtService ServiceType = 2
	CapiService ServiceType = 3
	N1qlService ServiceType = 4
	FtsService  ServiceType = 5
	CbasService ServiceType = 6
)

type PingState uint32

const (
	PingStateOK      PingState = 1
	PingStateTimeout PingState = 2
	PingStateError   PingState = 3
)

type EndpointPingResult struct {
	Endpoint string
	Error    error
	Latency  time.Duration
	ID       string
	Scope    string
	State    PingState
}

type PingOptions struct {
	TraceContext RequestSpanContext
	KVDeadline   time.Time
	CbasDeadline time.Time
	N1QLDeadline time.Time
	FtsDeadline  time.Time
	CapiDeadline time.Time
	MgmtDeadline time.Time
	ServiceTypes []ServiceType
	User         string
}

type PingResult struct {
	ConfigRev int64
	Services  map[ServiceType][]EndpointPingResult
}

type ClusterState uint32

type WaitUntilReadyOptions struct {
	DesiredState  ClusterState
	ServiceTypes  []ServiceType
	RetryStrategy RetryStrategy
}

type WaitUntilReadyResult struct{}

type WaitForConfigSnapshotOptions struct{}

type WaitForConfigSnapshotResult struct {
	Snapshot *ConfigSnapshot
}

type VbSeqNoEntry struct {
	VbID  uint16
	SeqNo SeqNo
}

type GetVbucketSeqnoFilterOptions struct {
	CollectionID uint32
}

type GetVbucketSeqnoOptions struct {
	FilterOptions *GetVbucketSeqnoFilterOptions
}

type OpenStreamFilterOptions struct {
	ScopeID       uint32
	CollectionIDs []uint32
}

type OpenStreamStreamOptions struct {
	StreamID uint16
}

type OpenStreamManifestOptions struct {
	ManifestUID uint64
}

type OpenStreamOptions struct {
	FilterOptions   *OpenStreamFilterOptions
	StreamOptions   *OpenStreamStreamOptions
	ManifestOptions *OpenStreamManifestOptions
}

type CloseStreamStreamOptions struct {
	StreamID uint16
}

type CloseStreamOptions struct {
	StreamOptions *CloseStreamStreamOptions
}

// callbacks
type (
	GetCallback                   func(*GetResult, error)
	StoreCallback                 func(*StoreResult, error)
	DeleteCallback                func(*DeleteResult, error)
	MutateInCallback              func(*MutateInResult, error)
	LookupInCallback              func(*LookupInResult, error)
	ObserveVbCallback             func(*ObserveVbResult, error)
	GetCollectionIDCallback       func(*GetCollectionIDResult, error)
	PingCallback                  func(*PingResult, error)
	WaitUntilReadyCallback        func(*WaitUntilReadyResult, error)
	WaitForConfigSnapshotCallback func(*WaitForConfigSnapshotResult, error)
	OpenStreamCallback            func([]FailoverEntry, error)
	CloseStreamCallback           func(error)
	GetFailoverLogCallback        func([]FailoverEntry, error)
	GetVBucketSeqnosCallback      func([]VbSeqNoEntry, error)
)

// ---- configuration ------------------------------------------------------------------------------

type SRVRecord struct {
	Proto, Scheme, Host string
}

type SeedConfig struct {
	HTTPAddrs []string
	MemdAddrs []string
	SRVRecord *SRVRecord
}

type AuthMechanism string

type UserPassPair struct {
	Username string
	Password string
}

type AuthCredsRequest struct {
	Service  ServiceType
	Endpoint string
}

type AuthCertRequest struct {
	Service  ServiceType
	Endpoint string
}

type AuthProvider interface {
	SupportsTLS() bool
	SupportsNonTLS() bool
	Certificate(req AuthCertRequest) (*tls.Certificate, error)
	Credentials(req AuthCredsRequest) ([]UserPassPair, error)
}

type PasswordAuthProvider struct {
	Username string
	Password string
}

func (auth PasswordAuthProvider) SupportsNonTLS() bool { return true }
func (auth PasswordAuthProvider) SupportsTLS() bool    { return true }
func (auth PasswordAuthProvider) Certificate(req AuthCertRequest) (*tls.Certificate, error) {
	return nil, nil
}
func (auth PasswordAuthProvider) Credentials(req AuthCredsRequest) ([]UserPassPair, error) {
	return []UserPassPair{{Username: auth.Username, Password: auth.Password}}, nil
}

type SecurityConfig struct {
	UseTLS            bool
	TLSRootCAProvider func() *x509.CertPool
	NoTLSSeedNode     bool
	Auth              AuthProvider
	AuthMechanisms    []AuthMechanism
}

type CompressionConfig struct {
	Enabled              bool
	DisableDecompression bool
	MinSize              int
	MinRatio             float64
}

type ConfigPollerConfig struct {
	HTTPRedialPeriod time.Duration
	HTTPRetryDelay   time.Duration
	HTTPMaxWait      time.Duration
	CccpMaxWait      time.Duration
	CccpPollPeriod   time.Duration
}

type IoConfig struct {
	NetworkType                 string
	UseMutationTokens           bool
	UseDurations                bool
	UseOutOfOrderResponses      bool
	DisableXErrorHello          bool
	DisableJSONHello            bool
	DisableSyncReplicationHello bool
	EnablePITRHello             bool
	UseCollections              bool
	UseClusterMapNotifications  bool
}

type KVConfig struct {
	ConnectTimeout       time.Duration
	ServerWaitBackoff    time.Duration
	PoolSize             int
	MaxQueueSize         int
	ConnectionBufferSize uint
}

type HTTPConfig struct {
	MaxIdleConns          int
	MaxIdleConnsPerHost   int
	ConnectTimeout        time.Duration
	IdleConnectionTimeout time.Duration
}

type CircuitBreakerConfig struct {
	Enabled bool
}
type OrphanReporterConfig struct {
	Enabled bool
}
type TracerConfig struct {
	NoRootTraceSpans bool
}
type MeterConfig struct{}
type InternalConfig struct {
	EnableResourceUnitsTrackingHello bool
}

type AgentConfig struct {
	BucketName           string
	UserAgent            string
	SeedConfig           SeedConfig
	SecurityConfig       SecurityConfig
	CompressionConfig    CompressionConfig
	ConfigPollerConfig   ConfigPollerConfig
	IoConfig             IoConfig
	KVConfig             KVConfig
	HTTPConfig           HTTPConfig
	DefaultRetryStrategy RetryStrategy
	CircuitBreakerConfig CircuitBreakerConfig
	OrphanReporterConfig OrphanReporterConfig
	TracerConfig         TracerConfig
	MeterConfig          MeterConfig
	InternalConfig       InternalConfig
}

type DcpAgentPriority uint8
type DCPBackfillOrder uint8

type DCPConfig struct {
	AgentPriority                DcpAgentPriority
	UseChangeStreams             bool
	UseExpiryOpcode              bool
	UseStreamID                  bool
	UseOSOBackfill               bool
	BackfillOrder                DCPBackfillOrder
	BufferSize                   int
	DisableBufferAcknowledgement bool
}

type DCPAgentConfig struct {
	UserAgent          string
	BucketName         string
	SeedConfig         SeedConfig
	SecurityConfig     SecurityConfig
	CompressionConfig  CompressionConfig
	ConfigPollerConfig ConfigPollerConfig
	EnableCCCPPoller   bool
	IoConfig           IoConfig
	KVConfig           KVConfig
	HTTPConfig         HTTPConfig
	DCPConfig          DCPConfig
}

// ---- logging ------------------------------------------------------------------------------------

type LogLevel int

const (
	LogError LogLevel = iota
	LogWarn
	LogInfo
	LogDebug
	LogTrace
	LogSched
	LogMaxVerbosity
)

type Logger interface {
	Log(level LogLevel, offset int, format string, v ...interface{}) error
}

func SetLogger(logger Logger) {}
