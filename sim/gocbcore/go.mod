module github.com/couchbase/gocbcore/v10

go 1.21
