package gocbcore

import (
	"errors"
	"math"
	"time"

	"github.com/couchbase/gocbcore/v10/memd"
	"verif/vrt"
)

// Agent is the KV agent of the simulated client.
type Agent struct {
	ag     *simAgent
	Config *AgentConfig
}

// DCPAgent is the DCP agent of the simulated client.
type DCPAgent struct {
	ag     *simAgent
	Config *DCPAgentConfig
	Name   string
}

func CreateAgent(config *AgentConfig) (*Agent, error) {
	c := simCur
	if c == nil {
		return nil, errors.New("sim: no cluster installed")
	}
	kind := "kv"
	if config.BucketName != c.StreamBucket && c.StreamBucket != "" {
		kind = "meta"
	}
	return &Agent{ag: c.newAgent(kind, config.BucketName), Config: config}, nil
}

func CreateDcpAgent(config *DCPAgentConfig, dcpStreamName string, openFlags memd.DcpOpenFlag) (*DCPAgent, error) {
	c := simCur
	if c == nil {
		return nil, errors.New("sim: no cluster installed")
	}
	c.DcpConfigs = append(c.DcpConfigs, config.DCPConfig)
	return &DCPAgent{ag: c.newAgent("dcp", config.BucketName), Config: config, Name: dcpStreamName}, nil
}

func (agent *Agent) Close() error {
	agent.ag.closed = true
	return nil
}

func (agent *Agent) keyNode(key []byte) (uint16, int) {
	c := agent.ag.c
	vb := c.VbOf(key)
	return vb, c.VbMap[vb][0]
}

func (agent *Agent) ConfigSnapshot() (*ConfigSnapshot, error) {
	if agent.ag.closed {
		return nil, ErrShutdown
	}
	return agent.ag.c.snapshot(agent.ag.bucket), nil
}

func (agent *Agent) WaitUntilReady(deadline time.Time, opts WaitUntilReadyOptions, cb WaitUntilReadyCallback) (PendingOp, error) {
	r := &SimRequest{Kind: "waitready", Node: 0, Deadline: deadlineNanos(deadline)}
	r.exec = func() (any, error) { return &WaitUntilReadyResult{}, nil }
	r.finish = func(res any, err error) {
		if err != nil {
			cb(nil, err)
			return
		}
		cb(res.(*WaitUntilReadyResult), nil)
	}
	return agent.ag.dispatch(r)
}

func (agent *Agent) WaitForConfigSnapshot(deadline time.Time, opts WaitForConfigSnapshotOptions, cb WaitForConfigSnapshotCallback) (PendingOp, error) {
	r := &SimRequest{Kind: "waitconfig", Node: 0, Deadline: deadlineNanos(deadline)}
	r.exec = func() (any, error) {
		return &WaitForConfigSnapshotResult{Snapshot: agent.ag.c.snapshot(agent.ag.bucket)}, nil
	}
	r.finish = func(res any, err error) {
		if err != nil {
			cb(nil, err)
			return
		}
		cb(res.(*WaitForConfigSnapshotResult), nil)
	}
	return agent.ag.dispatch(r)
}

func (agent *Agent) Get(opts GetOptions, cb GetCallback) (PendingOp, error) {
	vb, node := agent.keyNode(opts.Key)
	key := string(opts.Key)
	r := &SimRequest{Kind: "get", Key: key, Vb: vb, Node: node, Deadline: deadlineNanos(opts.Deadline)}
	r.exec = func() (any, error) {
		key := string(opts.Key) // the key bytes go onto the wire only now: gocbcore holds the caller's slice by reference until then
		d := agent.ag.c.Bucket(agent.ag.bucket).get(key)
		if d == nil {
			return nil, kvErr(ErrDocumentNotFound, memd.StatusKeyNotFound, key)
		}
		return &GetResult{Value: append([]byte{}, d.value...), Flags: d.flags, Cas: Cas(d.cas)}, nil
	}
	r.finish = func(res any, err error) {
		if err != nil {
			cb(nil, err)
			return
		}
		cb(res.(*GetResult), nil)
	}
	return agent.ag.dispatch(r)
}

func (agent *Agent) Set(opts SetOptions, cb StoreCallback) (PendingOp, error) {
	vb, node := agent.keyNode(opts.Key)
	key := string(opts.Key)
	r := &SimRequest{Kind: "set", Key: key, Vb: vb, Node: node, Deadline: deadlineNanos(opts.Deadline)}
	r.exec = func() (any, error) {
		key := string(opts.Key) // the key bytes go onto the wire only now: gocbcore holds the caller's slice by reference until then
		b := agent.ag.c.Bucket(agent.ag.bucket)
		d := b.get(key)
		if d == nil {
			d = &simDoc{xattrs: map[string][]byte{}}
			b.docs[key] = d
		}
		b.casSeq++
		d.cas = b.casSeq
		d.value = append([]byte{}, opts.Value...)
		d.flags = opts.Flags
		d.expireAt = expiryAt(opts.Expiry)
		agent.ag.c.recordWrite(r, b.Name, key, "set", "", opts.Value)
		return &StoreResult{Cas: Cas(d.cas)}, nil
	}
	r.finish = func(res any, err error) {
		if err != nil {
			cb(nil, err)
			return
		}
		cb(res.(*StoreResult), nil)
	}
	return agent.ag.dispatch(r)
}

func (agent *Agent) Delete(opts DeleteOptions, cb DeleteCallback) (PendingOp, error) {
	vb, node := agent.keyNode(opts.Key)
	key := string(opts.Key)
	r := &SimRequest{Kind: "delete", Key: key, Vb: vb, Node: node, Deadline: deadlineNanos(opts.Deadline)}
	r.exec = func() (any, error) {
		key := string(opts.Key) // the key bytes go onto the wire only now: gocbcore holds the caller's slice by reference until then
		b := agent.ag.c.Bucket(agent.ag.bucket)
		d := b.get(key)
		if d == nil {
			return nil, kvErr(ErrDocumentNotFound, memd.StatusKeyNotFound, key)
		}
		if opts.Cas != 0 && uint64(opts.Cas) != d.cas {
			return nil, kvErr(ErrCasMismatch, memd.StatusKeyExists, key)
		}
		delete(b.docs, key)
		b.casSeq++
		agent.ag.c.recordWrite(r, b.Name, key, "delete", "", nil)
		return &DeleteResult{Cas: Cas(b.casSeq)}, nil
	}
	r.finish = func(res any, err error) {
		if err != nil {
			cb(nil, err)
			return
		}
		cb(res.(*DeleteResult), nil)
	}
	return agent.ag.dispatch(r)
}

func (agent *Agent) MutateIn(opts MutateInOptions, cb MutateInCallback) (PendingOp, error) {
	vb, node := agent.keyNode(opts.Key)
	key := string(opts.Key)
	r := &SimRequest{Kind: "mutatein", Key: key, Vb: vb, Node: node, Deadline: deadlineNanos(opts.Deadline)}
	r.exec = func() (any, error) {
		key := string(opts.Key) // the key bytes go onto the wire only now: gocbcore holds the caller's slice by reference until then
		b := agent.ag.c.Bucket(agent.ag.bucket)
		d := b.get(key)
		mk := opts.Flags&memd.SubdocDocFlagMkDoc != 0
		if d == nil {
			if !mk {
				return nil, kvErr(ErrDocumentNotFound, memd.StatusKeyNotFound, key)
			}
			d = &simDoc{xattrs: map[string][]byte{}}
		} else if opts.Cas != 0 && uint64(opts.Cas) != d.cas {
			return nil, kvErr(ErrCasMismatch, memd.StatusKeyExists, key)
		}
		// validate and apply all ops atomically
		nv := d.value
		nx := map[string][]byte{}
		for k, v := range d.xattrs {
			nx[k] = v
		}
		type w struct {
			op, path string
			val      []byte
		}
		var ws []w
		for _, op := range opts.Ops {
			switch op.Op {
			case memd.SubDocOpSetDoc:
				nv = append([]byte{}, op.Value...)
				ws = append(ws, w{"setdoc", "", op.Value})
			case memd.SubDocOpDictSet:
				if op.Flags&memd.SubdocFlagXattrPath != 0 {
					nx[op.Path] = append([]byte{}, op.Value...)
					ws = append(ws, w{"xattr", op.Path, op.Value})
				} else {
					body, err := dictSet(nv, op.Path, op.Value)
					if err != nil {
						return nil, kvErr(errors.New("document not json"), memd.StatusSubDocNotJSON, key)
					}
					nv = body
					ws = append(ws, w{"dictset", op.Path, op.Value})
				}
			default:
				return nil, kvErr(errors.New("unsupported subdoc op"), memd.StatusSubDocBadCombo, key)
			}
		}
		b.docs[key] = d
		b.casSeq++
		d.cas = b.casSeq
		d.value, d.xattrs = nv, nx
		if opts.Expiry != 0 {
			d.expireAt = expiryAt(opts.Expiry)
		}
		for _, x := range ws {
			agent.ag.c.recordWrite(r, b.Name, key, x.op, x.path, x.val)
		}
		return &MutateInResult{Cas: Cas(d.cas), Ops: make([]SubDocResult, len(opts.Ops))}, nil
	}
	r.finish = func(res any, err error) {
		if err != nil {
			cb(nil, err)
			return
		}
		cb(res.(*MutateInResult), nil)
	}
	return agent.ag.dispatch(r)
}

func (agent *Agent) LookupIn(opts LookupInOptions, cb LookupInCallback) (PendingOp, error) {
	vb, node := agent.keyNode(opts.Key)
	key := string(opts.Key)
	r := &SimRequest{Kind: "lookupin", Key: key, Vb: vb, Node: node, Deadline: deadlineNanos(opts.Deadline)}
	r.exec = func() (any, error) {
		key := string(opts.Key) // the key bytes go onto the wire only now: gocbcore holds the caller's slice by reference until then
		d := agent.ag.c.Bucket(agent.ag.bucket).get(key)
		if d == nil {
			return nil, kvErr(ErrDocumentNotFound, memd.StatusKeyNotFound, key)
		}
		res := &LookupInResult{Cas: Cas(d.cas)}
		for _, op := range opts.Ops {
			if op.Op == memd.SubDocOpGet && op.Flags&memd.SubdocFlagXattrPath != 0 {
				if v, ok := d.xattrs[op.Path]; ok {
					res.Ops = append(res.Ops, SubDocResult{Value: append([]byte{}, v...)})
				} else {
					res.Ops = append(res.Ops, SubDocResult{Err: kvErr(ErrPathNotFound, memd.StatusSubDocPathNotFound, key)})
				}
			} else {
				res.Ops = append(res.Ops, SubDocResult{Err: errors.New("unsupported lookup")})
			}
		}
		return res, nil
	}
	r.finish = func(res any, err error) {
		if err != nil {
			cb(nil, err)
			return
		}
		cb(res.(*LookupInResult), nil)
	}
	return agent.ag.dispatch(r)
}

func (agent *Agent) ObserveVb(opts ObserveVbOptions, cb ObserveVbCallback) (PendingOp, error) {
	c := agent.ag.c
	node := -1
	if int(opts.VbID) < len(c.VbMap) && opts.ReplicaIdx >= 0 && opts.ReplicaIdx < len(c.VbMap[opts.VbID]) {
		node = c.VbMap[opts.VbID][opts.ReplicaIdx]
	}
	r := &SimRequest{Kind: "observevb", Vb: opts.VbID, Replica: opts.ReplicaIdx, Node: node, Deadline: deadlineNanos(opts.Deadline), Args: []uint64{uint64(opts.VbUUID)}}
	r.exec = func() (any, error) {
		vb := c.Vb[opts.VbID]
		q := vb.Persist[opts.ReplicaIdx]
		var st SimPersist
		if len(q) == 0 {
			st = SimPersist{VbUUID: vb.Failover[0].VbUUID, Persist: SeqNo(vb.High), Current: SeqNo(vb.High)}
		} else {
			st = q[0]
			if len(q) > 1 {
				vb.Persist[opts.ReplicaIdx] = q[1:]
			}
		}
		if st.Err != nil {
			return nil, st.Err
		}
		return &ObserveVbResult{VbID: opts.VbID, VbUUID: st.VbUUID, PersistSeqNo: st.Persist, CurrentSeqNo: st.Current, DidFailover: st.VbUUID != opts.VbUUID}, nil
	}
	r.finish = func(res any, err error) {
		if err != nil {
			cb(nil, err)
			return
		}
		cb(res.(*ObserveVbResult), nil)
	}
	return agent.ag.dispatch(r)
}

func (agent *Agent) GetCollectionID(scopeName string, collectionName string, opts GetCollectionIDOptions, cb GetCollectionIDCallback) (PendingOp, error) {
	r := &SimRequest{Kind: "getcollectionid", Key: scopeName + "." + collectionName, Node: 0, Deadline: deadlineNanos(opts.Deadline)}
	r.exec = func() (any, error) {
		id, ok := agent.ag.c.Collections[scopeName+"."+collectionName]
		if !ok {
			return nil, ErrCollectionNotFound
		}
		return &GetCollectionIDResult{CollectionID: id, ManifestID: 1}, nil
	}
	r.finish = func(res any, err error) {
		if err != nil {
			cb(nil, err)
			return
		}
		cb(res.(*GetCollectionIDResult), nil)
	}
	return agent.ag.dispatch(r)
}

func (agent *Agent) Ping(opts PingOptions, cb PingCallback) (PendingOp, error) {
	c := agent.ag.c
	r := &SimRequest{Kind: "ping", Node: 0, Deadline: deadlineNanos(opts.KVDeadline)}
	r.exec = func() (any, error) {
		if c.PingErr != nil {
			if err := c.PingErr(); err != nil {
				return nil, err
			}
		}
		if c.PingShape != nil {
			return &PingResult{ConfigRev: c.RevID, Services: c.PingShape()}, nil
		}
		return &PingResult{ConfigRev: c.RevID, Services: map[ServiceType][]EndpointPingResult{
			MemdService: {{Endpoint: "127.0.0.1:11210", State: PingStateOK}},
			MgmtService: {{Endpoint: c.MgmtEndpoint, State: PingStateOK}},
		}}, nil
	}
	r.finish = func(res any, err error) {
		if err != nil {
			cb(nil, err)
			return
		}
		cb(res.(*PingResult), nil)
	}
	return agent.ag.dispatch(r)
}

// ---- DCP agent ------------------------------------------------------------------------------------

func (agent *DCPAgent) Close() error {
	agent.ag.closed = true
	for _, vb := range agent.ag.c.Vb {
		if vb.stream != nil && vb.stream.ag == agent.ag {
			vb.stream.open = false
		}
	}
	// gocbcore closes the connection and then waits for the DCP goroutine to finish the packet it is
	// processing (memdclient: close(dcpBufferQ); <-dcpProcDoneCh) before the client is released
	if vrt.Active() {
		vrt.Block("dcp agent close: wait for the DCP thread", func() bool { return agent.ag.delivering == 0 })
	}
	return nil
}

func (agent *DCPAgent) HasCollectionsSupport() bool { return agent.ag.c.CollectionsSupported }

func (agent *DCPAgent) ConfigSnapshot() (*ConfigSnapshot, error) {
	if agent.ag.closed {
		return nil, ErrShutdown
	}
	return agent.ag.c.snapshot(agent.ag.bucket), nil
}

func (agent *DCPAgent) WaitUntilReady(deadline time.Time, opts WaitUntilReadyOptions, cb WaitUntilReadyCallback) (PendingOp, error) {
	r := &SimRequest{Kind: "waitready", Node: 0, Deadline: deadlineNanos(deadline)}
	r.exec = func() (any, error) { return &WaitUntilReadyResult{}, nil }
	r.finish = func(res any, err error) {
		if err != nil {
			cb(nil, err)
			return
		}
		cb(res.(*WaitUntilReadyResult), nil)
	}
	return agent.ag.dispatch(r)
}

func (agent *DCPAgent) OpenStream(vbID uint16, flags memd.DcpStreamAddFlag, vbUUID VbUUID, startSeqNo,
	endSeqNo, snapStartSeqNo, snapEndSeqNo SeqNo, evtHandler StreamObserver, opts OpenStreamOptions,
	cb OpenStreamCallback) (PendingOp, error) {
	c := agent.ag.c
	node := -1
	if int(vbID) < len(c.VbMap) {
		node = c.VbMap[vbID][0]
	}
	r := &SimRequest{Kind: "openstream", Vb: vbID, Node: node,
		Args: []uint64{uint64(flags), uint64(vbUUID), uint64(startSeqNo), uint64(endSeqNo), uint64(snapStartSeqNo), uint64(snapEndSeqNo)}}
	if opts.FilterOptions != nil {
		for _, id := range opts.FilterOptions.CollectionIDs {
			r.Args = append(r.Args, uint64(id))
		}
	}
	r.exec = func() (any, error) {
		vb := c.Vb[vbID]
		ans := SimOpen{Kind: "ok"}
		if len(vb.Opens) > 0 {
			ans = vb.Opens[0]
			vb.Opens = vb.Opens[1:]
		}
		if ans.SwapLog != nil {
			vb.Log = ans.SwapLog
			vb.High = 0
			for _, p := range vb.Log {
				if p.Kind != "marker" && p.Seq > vb.High {
					vb.High = p.Seq
				}
			}
		}
		if ans.SwapFailover != nil {
			vb.Failover = ans.SwapFailover
		}
		switch ans.Kind {
		case "rollback":
			return nil, DCPRollbackError{InnerError: ErrMemdRollback, SeqNo: SeqNo(ans.Rollback)}
		case "err":
			return nil, ans.Err
		case "drop":
			return nil, errDropped
		}
		if vb.stream != nil && vb.stream.open {
			return nil, kvErr(ErrDocumentExists, memd.StatusKeyExists, "")
		}
		// the protocol requires snap_start <= start <= snap_end (a producer answers anything else with ERANGE)
		if uint64(startSeqNo) < uint64(snapStartSeqNo) || uint64(startSeqNo) > uint64(snapEndSeqNo) {
			return nil, kvErr(errors.New("range error: start seqno outside its snapshot"), memd.StatusRangeError, "")
		}
		// a start position the server has not reached cannot be served
		if uint64(startSeqNo) > vb.High && uint64(startSeqNo) != 0 {
			return nil, kvErr(errors.New("range error"), memd.StatusRangeError, "")
		}
		st := &simStream{vb: vb, obs: evtHandler, start: uint64(startSeqNo), end: uint64(endSeqNo), open: true, node: node, ag: agent.ag}
		vb.stream = st
		return append([]FailoverEntry{}, vb.Failover...), nil
	}
	r.finish = func(res any, err error) {
		if err != nil {
			cb(nil, err)
			return
		}
		cb(res.([]FailoverEntry), nil)
		// the reader thread hands the stream's packets to the DCP thread only after the callback
		c.pump(c.Vb[vbID])
	}
	return agent.ag.dispatch(r)
}

var errDropped = errors.New("sim: dropped")

func (agent *DCPAgent) CloseStream(vbID uint16, opts CloseStreamOptions, cb CloseStreamCallback) (PendingOp, error) {
	c := agent.ag.c
	node := -1
	if int(vbID) < len(c.VbMap) {
		node = c.VbMap[vbID][0]
	}
	r := &SimRequest{Kind: "closestream", Vb: vbID, Node: node}
	r.exec = func() (any, error) {
		vb := c.Vb[vbID]
		st := vb.stream
		if st == nil || !st.open || st.ag != agent.ag {
			return nil, kvErr(ErrDocumentNotFound, memd.StatusKeyNotFound, "")
		}
		st.open = false
		// the stream-end(closed) notification follows the response (sent by the server from 5.5 on,
		// synthesised by the client library below that)
		st.ag.pushEvent(st.node, &simEvent{pkt: SimPacket{Kind: "end", Vb: vbID, EndErr: ErrDCPStreamClosed}, st: st})
		return nil, nil
	}
	r.finish = func(_ any, err error) { cb(err) }
	return agent.ag.dispatch(r)
}

func (agent *DCPAgent) GetFailoverLog(vbID uint16, cb GetFailoverLogCallback) (PendingOp, error) {
	c := agent.ag.c
	node := -1
	if int(vbID) < len(c.VbMap) {
		node = c.VbMap[vbID][0]
	}
	r := &SimRequest{Kind: "failoverlog", Vb: vbID, Node: node}
	r.exec = func() (any, error) { return append([]FailoverEntry{}, c.Vb[vbID].Failover...), nil }
	r.finish = func(res any, err error) {
		if err != nil {
			cb(nil, err)
			return
		}
		cb(res.([]FailoverEntry), nil)
	}
	return agent.ag.dispatch(r)
}

func (agent *DCPAgent) GetVbucketSeqnos(serverIdx int, state memd.VbucketState, opts GetVbucketSeqnoOptions,
	cb GetVBucketSeqnosCallback) (PendingOp, error) {
	c := agent.ag.c
	node := serverIdx - 1 // gocbcore: ReplicaIdx = -serverIdx, routed to server -ReplicaIdx-1
	r := &SimRequest{Kind: "vbseqnos", Node: node}
	r.exec = func() (any, error) {
		var out []VbSeqNoEntry
		for v, row := range c.VbMap {
			if row[0] == node {
				high := c.Vb[v].High
				if opts.FilterOptions != nil && opts.FilterOptions.CollectionID != 0 {
					// the high seqno OF THAT COLLECTION (what a collection-filtered query answers): items of other
					// collections - which a filtered stream sees as seqno-advanced - do not count
					high = 0
					for _, p := range c.Vb[v].Log {
						if p.CollectionID == opts.FilterOptions.CollectionID && p.Kind != "marker" && p.Kind != "seqadv" && p.Seq > high {
							high = p.Seq
						}
					}
				}
				out = append(out, VbSeqNoEntry{VbID: uint16(v), SeqNo: SeqNo(high)})
			}
		}
		return out, nil
	}
	r.finish = func(res any, err error) {
		if err != nil {
			cb(nil, err)
			return
		}
		cb(res.([]VbSeqNoEntry), nil)
	}
	return agent.ag.dispatch(r)
}

// MaxSeq is the "unbounded" stream end.
const MaxSeq = math.MaxUint64

var _ = vrt.Active
