package gocbcore

import (
	"encoding/json"
	"fmt"
	"hash/crc32"
	"math"
	"sort"
	"time"

	"github.com/couchbase/gocbcore/v10/memd"
	"verif/vrt"
)

// ---- cluster state ------------------------------------------------------------------------------

// SimPacket is one DCP wire packet of a vBucket log.
type SimPacket struct {
	Kind string // marker mutation deletion expiration seqadv oso collcreate colldelete collflush collmodify scopecreate scopedelete end
	Seq  uint64
	// marker
	SnapStart, SnapEnd uint64
	// documents
	Key, Value    []byte
	Cas, RevNo    uint64
	Flags, Expiry uint32
	DeleteTime    uint32 // tombstone creation time of a deletion / expiration (seconds), as the server supplies it
	Datatype      uint8
	CollectionID  uint32
	// end
	EndErr error
	// Raw packets are sent regardless of the start position of the stream
	Raw bool
	// bookkeeping
	Vb uint16
}

// SimOpen is a scripted answer to a stream request.
type SimOpen struct {
	Kind     string // ok rollback err drop
	Rollback uint64
	Err      error
	// SwapLog replaces the vBucket log when this answer is given (new history branch after rollback)
	SwapLog      []SimPacket
	SwapFailover []FailoverEntry
}

// SimPersist is the persistence state one copy of a vBucket reports to OBSERVE_SEQNO.
type SimPersist struct {
	VbUUID  VbUUID
	Persist SeqNo
	Current SeqNo
	Err     error // reply with this error instead
}

type SimVb struct {
	ID       uint16
	Failover []FailoverEntry
	High     uint64
	Log      []SimPacket
	Opens    []SimOpen
	// Persist[copy] = queue of states; the head is reported, and popped when more than one is left
	Persist [][]SimPersist
	// FiniteEndErr: the cause the NEXT end of a bounded stream of this vBucket carries when it has reached its
	// end seqno (nil = clean end)
	FiniteEndErr error
	stream       *simStream
}

type simDoc struct {
	value    []byte
	xattrs   map[string][]byte
	flags    uint32
	cas      uint64
	expireAt int64
}

type SimBucket struct {
	Name   string
	docs   map[string]*simDoc
	casSeq uint64
}

// SimWrite is one applied KV write (the "durable device" log).
type SimWrite struct {
	Seq    int
	ReqID  int
	Bucket string
	Key    string
	Op     string // set delete xattr setdoc dictset
	Path   string
	Value  []byte
	Time   int64
}

// SimRequest is one request as seen by the simulated server.
type SimRequest struct {
	ID                         int
	Agent                      string // kv meta dcp
	Kind                       string
	Key                        string
	Vb                         uint16
	Replica                    int
	Node                       int
	Deadline                   int64
	Issued                     int64
	Args                       []uint64 // OpenStream positional arguments: flags vbuuid start end snapStart snapEnd
	Note                       any      // harness annotation (set by OnDispatch)
	Answer                     string   // what the server did with it
	Applied                    bool
	Err                        error
	Result                     any   // what the server answered (set when the request completes successfully)
	Finished                   int64 // virtual time at which the callback ran (0 = never)
	IssuedOrder, FinishedOrder int   // global event order stamps
	Cancelled                  bool

	done   bool
	exec   func() (any, error)
	finish func(any, error)
	tm     *vrt.Timer
	ag     *simAgent
}

// SimAnswer is the environment's decision for one request.
type SimAnswer struct {
	Kind  string // "" / ok, err, drop, applydrop, delay
	Err   error
	Delay time.Duration
}

type simStream struct {
	vb       *SimVb
	obs      StreamObserver
	start    uint64
	end      uint64
	next     int
	lastSent uint64
	open     bool
	node     int
	ag       *simAgent
}

type SimCluster struct {
	Nodes                int
	NumVbs               int
	Replicas             int
	VbMap                [][]int
	RevEpoch, RevID      int64
	BucketUUIDs          map[string]string
	CollectionsSupported bool
	Collections          map[string]uint32
	Buckets              map[string]*SimBucket
	Vb                   []*SimVb
	StreamBucket         string // bucket whose mutations are streamed
	MetaLoop             bool   // KV writes into StreamBucket become DCP mutations
	StreamEndSupported   bool
	MgmtEndpoint         string
	PingErr              func() error // scripted ping outcome (nil = healthy)
	// PingShape, when set, supplies the per-service endpoint reports of a ping that gocbcore itself completed
	// without error (multi-node clusters with some nodes down)
	PingShape func() map[ServiceType][]EndpointPingResult

	// Fault decides what the server does with a request when it picks it up (nil = serve it).
	Fault func(r *SimRequest) SimAnswer
	// DispatchFault makes the client library fail synchronously (nil = accept).
	DispatchFault func(r *SimRequest) error
	// OnDispatch is called when a request is handed to the client library.
	OnDispatch func(r *SimRequest)
	// OnDeliver is called on the DCP thread right before (after=false) and right after (after=true)
	// the observer callback of a packet.
	OnDeliver func(p *SimPacket, after bool)
	// OnComplete is called right before the callback of a request runs (r.Err / r.Result are set),
	// OnCompleted right after it returned.
	OnComplete  func(r *SimRequest)
	OnCompleted func(r *SimRequest)
	// OnApply is called right after a KV write has been applied.
	OnApply func(w *SimWrite)

	Requests   []*SimRequest
	Writes     []SimWrite
	reqSeq     int
	order      int
	agents     []*simAgent
	DcpConfigs []DCPConfig
}

var simCur *SimCluster

// SimInstall makes c the cluster every subsequently created agent connects to.
func SimInstall(c *SimCluster) { simCur = c }

// SimCurrent returns the installed cluster.
func SimCurrent() *SimCluster { return simCur }

// NewSimCluster builds a healthy cluster: vBuckets spread round-robin, replicas on the following nodes.
func NewSimCluster(nodes, vbs, replicas int) *SimCluster {
	c := &SimCluster{
		Nodes: nodes, NumVbs: vbs, Replicas: replicas, RevEpoch: 1, RevID: 1,
		BucketUUIDs: map[string]string{}, Collections: map[string]uint32{"_default._default": 0},
		Buckets: map[string]*SimBucket{}, CollectionsSupported: true, StreamEndSupported: true,
		MgmtEndpoint: "http://127.0.0.1:8091",
	}
	for v := 0; v < vbs; v++ {
		row := make([]int, replicas+1)
		for r := 0; r <= replicas; r++ {
			if r < nodes {
				row[r] = (v + r) % nodes
			} else {
				row[r] = -1
			}
		}
		c.VbMap = append(c.VbMap, row)
		vb := &SimVb{ID: uint16(v), Failover: []FailoverEntry{{VbUUID: VbUUID(1000 + v), SeqNo: 0}}}
		vb.Persist = make([][]SimPersist, replicas+1)
		c.Vb = append(c.Vb, vb)
	}
	return c
}

func (c *SimCluster) Bucket(name string) *SimBucket {
	b, ok := c.Buckets[name]
	if !ok {
		b = &SimBucket{Name: name, docs: map[string]*simDoc{}}
		c.Buckets[name] = b
		if _, ok := c.BucketUUIDs[name]; !ok {
			c.BucketUUIDs[name] = "uuid-" + name
		}
	}
	return b
}

// VbOf maps a key to its vBucket.
func (c *SimCluster) VbOf(key []byte) uint16 {
	return uint16(crc32.ChecksumIEEE(key) % uint32(c.NumVbs))
}

// ---- KV store -----------------------------------------------------------------------------------

func (b *SimBucket) get(key string) *simDoc {
	d, ok := b.docs[key]
	if !ok {
		return nil
	}
	if d.expireAt != 0 && vrt.NowNanos() >= d.expireAt {
		delete(b.docs, key)
		return nil
	}
	return d
}

// Doc returns value and xattrs of a document (nil if absent) for oracles.
func (b *SimBucket) Doc(key string) (value []byte, xattrs map[string][]byte, ok bool) {
	d := b.get(key)
	if d == nil {
		return nil, nil, false
	}
	return d.value, d.xattrs, true
}

// Keys lists all live document keys, sorted.
func (b *SimBucket) Keys() []string {
	var ks []string
	for k := range b.docs {
		if b.get(k) != nil {
			ks = append(ks, k)
		}
	}
	sort.Strings(ks)
	return ks
}

// PutXattr seeds a document with an xattr (for pre-existing checkpoints).
func (b *SimBucket) PutXattr(key, path string, val []byte) {
	d := b.get(key)
	if d == nil {
		d = &simDoc{xattrs: map[string][]byte{}}
		b.docs[key] = d
	}
	b.casSeq++
	d.cas = b.casSeq
	d.xattrs[path] = append([]byte{}, val...)
}

// PutDoc seeds a document body.
// DropXattrs removes every extended attribute of a document (it stays, bare).
func (b *SimBucket) DropXattrs(key string) {
	if d := b.docs[key]; d != nil {
		d.xattrs = map[string][]byte{}
	}
}

func (b *SimBucket) PutDoc(key string, val []byte) {
	d := b.get(key)
	if d == nil {
		d = &simDoc{xattrs: map[string][]byte{}}
		b.docs[key] = d
	}
	b.casSeq++
	d.cas = b.casSeq
	d.value = append([]byte{}, val...)
}

// Snapshot returns a deep copy of the store (crash-state reconstruction).
func (b *SimBucket) Snapshot() *SimBucket {
	nb := &SimBucket{Name: b.Name, docs: map[string]*simDoc{}, casSeq: b.casSeq}
	for k, d := range b.docs {
		nd := &simDoc{value: append([]byte{}, d.value...), xattrs: map[string][]byte{}, flags: d.flags, cas: d.cas, expireAt: d.expireAt}
		for p, v := range d.xattrs {
			nd.xattrs[p] = append([]byte{}, v...)
		}
		nb.docs[k] = nd
	}
	return nb
}

func kvErr(inner error, status memd.StatusCode, key string) error {
	return &KeyValueError{InnerError: inner, StatusCode: status, DocumentKey: key}
}

func (c *SimCluster) recordWrite(r *SimRequest, bucket, key, op, path string, val []byte) {
	w := SimWrite{Seq: len(c.Writes), ReqID: r.ID, Bucket: bucket, Key: key, Op: op, Path: path, Value: append([]byte{}, val...), Time: vrt.NowNanos()}
	c.Writes = append(c.Writes, w)
	r.Applied = true
	if c.OnApply != nil {
		c.OnApply(&c.Writes[len(c.Writes)-1])
	}
	if c.MetaLoop && bucket == c.StreamBucket {
		vbid := c.VbOf([]byte(key))
		vb := c.Vb[vbid]
		seq := vb.High + 1
		kind := "mutation"
		if op == "delete" {
			kind = "deletion"
		}
		c.Append(vbid,
			SimPacket{Kind: "marker", SnapStart: seq, SnapEnd: seq},
			SimPacket{Kind: kind, Seq: seq, Key: []byte(key), Value: val, Cas: uint64(vrt.NowNanos())})
	}
}

func expiryAt(exp uint32) int64 {
	if exp == 0 {
		return 0
	}
	return vrt.NowNanos() + int64(exp)*int64(time.Second)
}

// ---- DCP producer ---------------------------------------------------------------------------------

// Append adds packets to a vBucket log (advancing its high seqno) and pushes them to an open stream.
func (c *SimCluster) Append(vbid uint16, pkts ...SimPacket) {
	vb := c.Vb[vbid]
	for _, p := range pkts {
		p.Vb = vbid
		if p.Kind != "marker" && p.Seq > vb.High {
			vb.High = p.Seq
		}
		vb.Log = append(vb.Log, p)
	}
	c.pump(vb)
}

func (c *SimCluster) pump(vb *SimVb) {
	st := vb.stream
	if st == nil || !st.open {
		return
	}
	for st.next < len(vb.Log) {
		p := vb.Log[st.next]
		st.next++
		send := false
		switch {
		case p.Raw:
			send = true
		case p.Kind == "marker":
			send = p.SnapEnd > st.start && p.SnapStart <= st.end
		case p.Kind == "oso":
			send = true
		case p.Kind == "end":
			send = true
		default:
			send = p.Seq > st.start && p.Seq <= st.end
		}
		if !send {
			continue
		}
		if p.Kind != "marker" && p.Seq > st.lastSent {
			st.lastSent = p.Seq
		}
		st.ag.pushEvent(st.node, &simEvent{pkt: p, st: st})
		if p.Kind == "end" {
			st.open = false
			return
		}
	}
	if st.end != math.MaxUint64 {
		reached := st.start
		if st.lastSent > reached {
			reached = st.lastSent
		}
		if reached >= st.end {
			st.open = false
			ee := vb.FiniteEndErr // (once) the connection breaks right behind the last item: the end carries that cause
			vb.FiniteEndErr = nil
			st.ag.pushEvent(st.node, &simEvent{pkt: SimPacket{Kind: "end", Vb: vb.ID, EndErr: ee}, st: st})
		}
	}
}

// EndStream makes the server end the open stream of a vBucket with the given cause.
func (c *SimCluster) EndStream(vbid uint16, err error) bool {
	vb := c.Vb[vbid]
	st := vb.stream
	if st == nil || !st.open {
		return false
	}
	st.open = false
	st.ag.pushEvent(st.node, &simEvent{pkt: SimPacket{Kind: "end", Vb: vbid, EndErr: err}, st: st})
	return true
}

// KillStream drops the stream of a vBucket on the server side without any notification to the client.
func (c *SimCluster) KillStream(vbid uint16) {
	if st := c.Vb[vbid].stream; st != nil {
		st.open = false
	}
}

// StreamOpen reports whether the server currently has a stream for the vBucket.
func (c *SimCluster) StreamOpen(vbid uint16) bool {
	st := c.Vb[vbid].stream
	return st != nil && st.open
}

// SetPersist sets what one copy of a vBucket reports from now on.
func (c *SimCluster) SetPersist(vbid uint16, copyIdx int, states ...SimPersist) {
	c.Vb[vbid].Persist[copyIdx] = states
}

// SetMap installs a new vBucket map (cluster configuration change).
func (c *SimCluster) SetMap(m [][]int) {
	c.VbMap = m
	c.RevID++
}

// ---- configuration snapshot (laid out for go-dcp's reflection) -----------------------------------

type simRouteCfg struct {
	revEpoch int64
	revID    int64
}

type simList struct{ len int }
type simQueue struct{ items *simList }
type simPipeline struct {
	address  string
	queue    *simQueue
	maxItems int
}

type simState struct {
	routeCfg  simRouteCfg
	pipelines []*simPipeline
	vbMap     [][]int
	replicas  int
	servers   int
	uuid      string
}

type ConfigSnapshot struct {
	state *simState
}

func (c *SimCluster) snapshot(bucket string) *ConfigSnapshot {
	st := &simState{routeCfg: simRouteCfg{revEpoch: c.RevEpoch, revID: c.RevID}, replicas: c.Replicas, servers: c.Nodes, uuid: c.BucketUUIDs[bucket]}
	for _, row := range c.VbMap {
		st.vbMap = append(st.vbMap, append([]int{}, row...))
	}
	for i := 0; i < c.Nodes; i++ {
		st.pipelines = append(st.pipelines, &simPipeline{address: fmt.Sprintf("node%d:11210", i), queue: &simQueue{items: &simList{}}, maxItems: 2048})
	}
	return &ConfigSnapshot{state: st}
}

func (s *ConfigSnapshot) RevID() int64              { return s.state.routeCfg.revID }
func (s *ConfigSnapshot) BucketUUID() string        { return s.state.uuid }
func (s *ConfigSnapshot) NumVbuckets() (int, error) { return len(s.state.vbMap), nil }
func (s *ConfigSnapshot) NumReplicas() (int, error) { return s.state.replicas, nil }
func (s *ConfigSnapshot) NumServers() (int, error)  { return s.state.servers, nil }
func (s *ConfigSnapshot) VbucketToServer(vbID uint16, replicaIdx uint32) (int, error) {
	if int(vbID) >= len(s.state.vbMap) {
		return 0, ErrInvalidVBucket
	}
	row := s.state.vbMap[vbID]
	if int(replicaIdx) >= len(row) {
		return 0, ErrInvalidReplica
	}
	return row[replicaIdx], nil
}
func (s *ConfigSnapshot) VbucketsOnServer(index int) ([]uint16, error) {
	var out []uint16
	for v, row := range s.state.vbMap {
		if row[0] == index {
			out = append(out, uint16(v))
		}
	}
	return out, nil
}

// ---- agents and their threads ----------------------------------------------------------------------

type simEvent struct {
	pkt SimPacket
	st  *simStream
}

type simNodeConn struct {
	reqs   []*SimRequest
	events []*simEvent
}

type simAgent struct {
	c      *SimCluster
	kind   string // kv meta dcp
	bucket string
	nodes  []*simNodeConn
	closed bool
	// Delivering is true while the DCP thread is inside an observer callback
	delivering int
}

func (c *SimCluster) newAgent(kind, bucket string) *simAgent {
	ag := &simAgent{c: c, kind: kind, bucket: bucket}
	c.Bucket(bucket)
	for n := 0; n < c.Nodes; n++ {
		nc := &simNodeConn{}
		ag.nodes = append(ag.nodes, nc)
		node := n
		vrt.GoNamed(fmt.Sprintf("sim:%s:reader%d", kind, node), func() { ag.readerLoop(node) })
		if kind == "dcp" {
			vrt.GoNamed(fmt.Sprintf("sim:dcp:events%d", node), func() { ag.eventLoop(node) })
		}
	}
	c.agents = append(c.agents, ag)
	return ag
}

func (ag *simAgent) pushEvent(node int, ev *simEvent) {
	ag.nodes[node].events = append(ag.nodes[node].events, ev)
}

func (ag *simAgent) readerLoop(node int) {
	nc := ag.nodes[node]
	for {
		vrt.Block("sim reader idle", func() bool { return len(nc.reqs) > 0 || ag.closed })
		if ag.closed {
			return
		}
		r := nc.reqs[0]
		nc.reqs = nc.reqs[1:]
		if r.done {
			continue
		}
		ans := SimAnswer{}
		if ag.c.Fault != nil {
			ans = ag.c.Fault(r)
		}
		switch ans.Kind {
		case "", "ok":
			r.Answer = "ok"
			res, err := r.exec()
			if err == errDropped {
				r.Answer = "drop"
				continue
			}
			r.complete(res, err)
		case "err":
			r.Answer = "err"
			r.complete(nil, ans.Err)
		case "drop":
			r.Answer = "drop"
		case "applydrop":
			r.Answer = "applydrop"
			_, _ = r.exec()
		case "delayerr":
			// the server answers with an error, late
			r.Answer = "err"
			rr, e := r, ans.Err
			vrt.AfterFunc(ans.Delay, func() { rr.complete(nil, e) })
		case "latedelay":
			// the server gets to the request only after the delay (executes it then, and answers)
			r.Answer = "delay"
			rr := r
			vrt.AfterFunc(ans.Delay, func() {
				if rr.done {
					return
				}
				res, err := rr.exec()
				rr.complete(res, err)
			})
		case "delay":
			r.Answer = "delay"
			res, err := r.exec()
			rr := r
			vrt.AfterFunc(ans.Delay, func() { rr.complete(res, err) })
		default:
			panic("sim: unknown answer " + ans.Kind)
		}
	}
}

// Done reports whether the client library has marked the request completed (its callback may still be about
// to run): it can no longer reach the server or be cancelled.
func (r *SimRequest) Done() bool { return r.done }

func (r *SimRequest) complete(res any, err error) {
	if r.done {
		return
	}
	r.done = true
	if r.tm != nil {
		r.tm.Stop()
	}
	// gocbcore marks a request completed (CAS) and then runs the callback: a Cancel() racing in between
	// finds it completed and returns without a callback, and the callback arrives late
	if !r.Cancelled {
		vrt.Yield(-4)
	}
	r.Err = err
	if err == nil {
		r.Result = res
	}
	if r.ag != nil && r.ag.c.OnComplete != nil {
		r.ag.c.OnComplete(r)
	}
	r.Finished = vrt.NowNanos()
	if r.ag != nil {
		r.ag.c.order++
		r.FinishedOrder = r.ag.c.order
	}
	r.finish(res, err)
	if r.ag != nil && r.ag.c.OnCompleted != nil {
		r.ag.c.OnCompleted(r)
	}
}

// Cancel implements PendingOp: exactly-once completion, callback synchronously in the caller.
func (r *SimRequest) Cancel() {
	if r.done {
		return
	}
	r.Cancelled = true
	r.complete(nil, ErrRequestCanceled)
}

func (ag *simAgent) dispatch(r *SimRequest) (PendingOp, error) {
	c := ag.c
	c.reqSeq++
	r.ID = c.reqSeq
	r.Agent = ag.kind
	r.Issued = vrt.NowNanos()
	c.order++
	r.IssuedOrder = c.order
	r.ag = ag
	c.Requests = append(c.Requests, r)
	if c.OnDispatch != nil {
		c.OnDispatch(r)
	}
	if ag.closed {
		r.Answer = "shutdown"
		return nil, ErrShutdown
	}
	if c.DispatchFault != nil {
		if err := c.DispatchFault(r); err != nil {
			r.Answer = "dispatch-error"
			r.done = true
			return nil, err
		}
	}
	if r.Node < 0 || r.Node >= len(ag.nodes) {
		r.Answer = "no-server"
		r.done = true
		return nil, ErrInvalidReplica
	}
	if r.Deadline != 0 {
		d := time.Duration(r.Deadline - vrt.NowNanos())
		r.tm = vrt.AfterFunc(d, func() {
			if !r.done {
				e := ErrUnambiguousTimeout
				if r.Applied {
					e = ErrAmbiguousTimeout
				}
				r.complete(nil, &TimeoutError{InnerError: e, OperationID: r.Kind})
			}
		})
	}
	ag.nodes[r.Node].reqs = append(ag.nodes[r.Node].reqs, r)
	return r, nil
}

func deadlineNanos(t time.Time) int64 {
	if t.IsZero() {
		return 0
	}
	return t.UnixNano()
}

func (ag *simAgent) eventLoop(node int) {
	nc := ag.nodes[node]
	for {
		vrt.Block("sim dcp idle", func() bool { return len(nc.events) > 0 || ag.closed })
		if ag.closed {
			return
		}
		ev := nc.events[0]
		nc.events = nc.events[1:]
		ag.delivering++
		if ag.c.OnDeliver != nil {
			ag.c.OnDeliver(&ev.pkt, false)
		}
		deliver(ev)
		if ag.c.OnDeliver != nil {
			ag.c.OnDeliver(&ev.pkt, true)
		}
		ag.delivering--
	}
}

func deliver(ev *simEvent) {
	p := ev.pkt
	o := ev.st.obs
	switch p.Kind {
	case "marker":
		st := SnapshotState(1) // memory
		if p.Flags != 0 {
			st = SnapshotState(p.Flags) // (marker packets: Flags = snapshot type, e.g. 2 = disk / backfill)
		}
		o.SnapshotMarker(DcpSnapshotMarker{StartSeqNo: p.SnapStart, EndSeqNo: p.SnapEnd, VbID: p.Vb, SnapshotType: st})
	case "mutation":
		o.Mutation(DcpMutation{SeqNo: p.Seq, RevNo: p.RevNo, Cas: p.Cas, Flags: p.Flags, Expiry: p.Expiry, CollectionID: p.CollectionID, VbID: p.Vb, Datatype: p.Datatype, Key: p.Key, Value: p.Value})
	case "deletion":
		o.Deletion(DcpDeletion{SeqNo: p.Seq, RevNo: p.RevNo, Cas: p.Cas, DeleteTime: p.DeleteTime, CollectionID: p.CollectionID, VbID: p.Vb, Datatype: p.Datatype, Key: p.Key, Value: p.Value})
	case "expiration":
		o.Expiration(DcpExpiration{SeqNo: p.Seq, RevNo: p.RevNo, Cas: p.Cas, DeleteTime: p.DeleteTime, CollectionID: p.CollectionID, VbID: p.Vb, Key: p.Key})
	case "seqadv":
		o.SeqNoAdvanced(DcpSeqNoAdvanced{SeqNo: p.Seq, VbID: p.Vb})
	case "oso":
		o.OSOSnapshot(DcpOSOSnapshot{SnapshotType: uint32(p.Flags), VbID: p.Vb})
	case "collcreate":
		o.CreateCollection(DcpCollectionCreation{SeqNo: p.Seq, VbID: p.Vb, CollectionID: p.CollectionID, Key: p.Key})
	case "colldelete":
		o.DeleteCollection(DcpCollectionDeletion{SeqNo: p.Seq, VbID: p.Vb, CollectionID: p.CollectionID})
	case "collflush":
		o.FlushCollection(DcpCollectionFlush{SeqNo: p.Seq, VbID: p.Vb, CollectionID: p.CollectionID})
	case "collmodify":
		o.ModifyCollection(DcpCollectionModification{SeqNo: p.Seq, VbID: p.Vb, CollectionID: p.CollectionID})
	case "scopecreate":
		o.CreateScope(DcpScopeCreation{SeqNo: p.Seq, VbID: p.Vb, Key: p.Key})
	case "scopedelete":
		o.DeleteScope(DcpScopeDeletion{SeqNo: p.Seq, VbID: p.Vb})
	case "end":
		o.End(DcpStreamEnd{VbID: p.Vb}, p.EndErr)
	default:
		panic("sim: unknown packet kind " + p.Kind)
	}
}

// Idle reports whether every agent's queues are empty and no DCP callback is in progress.
func (c *SimCluster) Idle() bool {
	for _, ag := range c.agents {
		if ag.closed {
			continue
		}
		if ag.delivering > 0 {
			return false
		}
		for _, nc := range ag.nodes {
			if len(nc.reqs) > 0 || len(nc.events) > 0 {
				return false
			}
		}
	}
	return true
}

// WaitIdle parks the caller until the cluster has nothing left to deliver.
func (c *SimCluster) WaitIdle() {
	vrt.Block("wait sim idle", c.Idle)
}

// PendingEvents returns how many DCP packets are queued for delivery.
func (c *SimCluster) PendingEvents() int {
	n := 0
	for _, ag := range c.agents {
		for _, nc := range ag.nodes {
			n += len(nc.events)
		}
	}
	return n
}

// OpenAgents lists the agents (connections of the client library) that have not been closed.
func (c *SimCluster) OpenAgents() []string {
	var out []string
	for _, ag := range c.agents {
		if !ag.closed {
			out = append(out, ag.kind+":"+ag.bucket)
		}
	}
	return out
}

// KillAgents simulates the death of the client process: every agent stops, nothing more is delivered.
func (c *SimCluster) KillAgents() {
	for _, ag := range c.agents {
		ag.closed = true
	}
	for _, vb := range c.Vb {
		vb.stream = nil
	}
	c.agents = nil
}

// DropConnection closes the DCP connection to a node: every stream on it ends with ErrSocketClosed.
func (c *SimCluster) DropConnection(node int) {
	for _, vb := range c.Vb {
		if st := vb.stream; st != nil && st.open && st.node == node {
			c.EndStream(vb.ID, ErrSocketClosed)
		}
	}
}

// RequestsOf filters the request log.
func (c *SimCluster) RequestsOf(kind string) []*SimRequest {
	var out []*SimRequest
	for _, r := range c.Requests {
		if r.Kind == kind {
			out = append(out, r)
		}
	}
	return out
}

// JSON helper for dict-set on document bodies.
func dictSet(body []byte, path string, val []byte) ([]byte, error) {
	m := map[string]json.RawMessage{}
	if len(body) > 0 {
		if err := json.Unmarshal(body, &m); err != nil {
			return nil, err
		}
	}
	m[path] = append(json.RawMessage{}, val...)
	return json.Marshal(m)
}
