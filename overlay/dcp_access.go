// Added to package dcp in harness builds only (build overlay).
package dcp

import (
	"github.com/asaskevich/EventBus"

	"github.com/Trendyol/go-dcp/config"
	"github.com/Trendyol/go-dcp/stream"
)

// VerifStream exposes the stream of a started client.
func VerifStream(d Dcp) stream.Stream { return d.(*dcp).stream }

// VerifNewDcpConfig runs the real config-file loader (placeholder substitution).
func VerifNewDcpConfig(path string) (config.Dcp, error) { return newDcpConfig(path) }

// VerifDiscovery exposes the vBucket discovery of a started client.
func VerifDiscovery(d Dcp) stream.VBucketDiscovery { return d.(*dcp).vBucketDiscovery }

// VerifBus exposes the event bus of a client.
func VerifBus(d Dcp) EventBus.Bus { return d.(*dcp).bus }
