// Deterministic stand-in for wrapper.ConcurrentSwissMap used in scheduled builds only: same API,
// sorted iteration (the real sharded map iterates in hash order, which would make thread creation
// order differ between a run and its replay), every method one atomic step preceded by a
// scheduling point.
package wrapper

import (
	"fmt"
	"sort"

	"github.com/bytedance/sonic"
	"verif/vrt"
)

type ConcurrentSwissMap[K comparable, V any] struct {
	m map[K]V
}

func CreateConcurrentSwissMap[K comparable, V any](size uint64) *ConcurrentSwissMap[K, V] {
	return &ConcurrentSwissMap[K, V]{m: map[K]V{}}
}

func (m *ConcurrentSwissMap[K, V]) Delete(key K) {
	vrt.Yield(-3)
	delete(m.m, key)
}

func (m *ConcurrentSwissMap[K, V]) Load(key K) (value V, ok bool) {
	vrt.Yield(-3)
	value, ok = m.m[key]
	return
}

func (m *ConcurrentSwissMap[K, V]) keys() []K {
	ks := make([]K, 0, len(m.m))
	for k := range m.m {
		ks = append(ks, k)
	}
	sort.Slice(ks, func(i, j int) bool { return less(ks[i], ks[j]) })
	return ks
}

func less(a, b any) bool {
	switch x := a.(type) {
	case uint16:
		return x < b.(uint16)
	case int:
		return x < b.(int)
	case string:
		return x < b.(string)
	case uint32:
		return x < b.(uint32)
	}
	return fmt.Sprint(a) < fmt.Sprint(b)
}

func (m *ConcurrentSwissMap[K, V]) Range(f func(key K, value V) bool) {
	vrt.Yield(-3)
	for _, k := range m.keys() {
		v, ok := m.m[k]
		if !ok {
			continue
		}
		if !f(k, v) {
			return
		}
	}
}

func (m *ConcurrentSwissMap[K, V]) Store(key K, value V) {
	vrt.Yield(-3)
	m.m[key] = value
}

// VerifOnStoreIf lets a harness observe conditional stores (which map object, which key).
var VerifOnStoreIf func(m any, key any)

func (m *ConcurrentSwissMap[K, V]) StoreIf(key K, conditionFn func(previousVale V, previousFound bool) (value V, set bool)) {
	if VerifOnStoreIf != nil {
		VerifOnStoreIf(m, key) // at method entry: the receiver has just been evaluated by the caller
	}
	vrt.Yield(-3)
	p, f := m.m[key]
	if v, set := conditionFn(p, f); set {
		m.m[key] = v
	}
}

func (m *ConcurrentSwissMap[K, V]) Count() int {
	vrt.Yield(-3)
	return len(m.m)
}

func (m *ConcurrentSwissMap[K, V]) ToMap() map[K]V {
	result := make(map[K]V)
	m.Range(func(key K, value V) bool {
		result[key] = value
		return true
	})
	return result
}

func (m *ConcurrentSwissMap[K, V]) MarshalJSON() ([]byte, error) {
	return sonic.Marshal(m.ToMap())
}

func (m *ConcurrentSwissMap[K, V]) UnmarshalJSON(data []byte) error {
	var result map[K]V
	if err := sonic.Unmarshal(data, &result); err != nil {
		return err
	}
	for k, v := range result {
		m.Store(k, v)
	}
	return nil
}
