package servicediscovery

import "github.com/Trendyol/go-dcp/models"

// VerifNewHandler builds the RPC handler of an instance (what NewServer().Listen() would register).
func VerifNewHandler(port int, myIdentity *models.Identity, sd ServiceDiscovery) *Handler {
	return &Handler{port: port, myIdentity: myIdentity, serviceDiscovery: sd}
}
