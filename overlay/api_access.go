// Added to package api in harness builds only (build overlay): direct invocation of the real handlers on
// an acquired fiber context, in the calling goroutine (no listener, no fasthttp worker).
package api

import (
	"github.com/valyala/fasthttp"
)

func verifCall(a API, method string, body []byte, h func(ap *api) func() error) (int, string, error) {
	ap := a.(*api)
	rc := &fasthttp.RequestCtx{}
	rc.Request.Header.SetMethod(method)
	if body != nil {
		rc.Request.Header.SetContentType("application/json")
		rc.Request.SetBody(body)
	}
	ctx := ap.app.AcquireCtx(rc)
	defer ap.app.ReleaseCtx(ctx)
	var err error
	switch method {
	case "PUT":
		err = ap.info(ctx)
	case "REBALANCE":
		err = ap.rebalance(ctx)
	case "OFFSET":
		err = ap.offset(ctx)
	}
	return rc.Response.StatusCode(), string(rc.Response.Body()), err
}

// VerifPutInfo runs the real PUT /membership/info handler.
func VerifPutInfo(a API, body []byte) (int, string, error) { return verifCall(a, "PUT", body, nil) }

// VerifRebalance runs the real GET /rebalance handler.
func VerifRebalance(a API) (int, string, error) { return verifCall(a, "REBALANCE", nil, nil) }

// VerifOffset runs the real GET /states/offset handler.
func VerifOffset(a API) (int, string, error) { return verifCall(a, "OFFSET", nil, nil) }
