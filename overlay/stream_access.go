// Added to package stream in harness builds only (build overlay).
package stream

// VerifSerialClose reports whether the stream closes its vBucket streams one at a time
// (the mode chosen for servers below 5.5.0).
func VerifSerialClose(s Stream) bool { return s.(*stream).streamEndNotSupportedData != nil }
