// Added to package stream in harness builds only (build overlay).
package stream

import (
	"github.com/asaskevich/EventBus"

	"github.com/Trendyol/go-dcp/config"
	"github.com/Trendyol/go-dcp/leaderelector"
	"github.com/Trendyol/go-dcp/models"
	"github.com/Trendyol/go-dcp/servicediscovery"
)

// VerifSerialClose reports whether the stream closes its vBucket streams one at a time
// (the mode chosen for servers below 5.5.0).
func VerifSerialClose(s Stream) bool { return s.(*stream).streamEndNotSupportedData != nil }

// VerifLeaderHandler returns the election callbacks (OnBecomeLeader / OnResignLeader / OnBecomeFollower) of an
// instance whose identity is already known (what Start() sets up before it runs the elector).
func VerifLeaderHandler(cfg *config.Dcp, sd servicediscovery.ServiceDiscovery, bus EventBus.Bus, me *models.Identity) leaderelector.Handler {
	l := NewLeaderElection(cfg, sd, bus).(*leaderElection)
	l.myIdentity = me
	return l
}
