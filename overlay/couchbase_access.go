// Added to package couchbase in harness builds only (through the build overlay): accessors to
// unexported pure kernels, so that they can be enumerated exhaustively.
package couchbase

import (
	"github.com/Trendyol/go-dcp/wrapper"
	"github.com/couchbase/gocbcore/v10"
)

func VerifParseVersion(s string) (*Version, error) { return nodeVersionFromString(s) }

type VerifReplica struct {
	VbUUID uint64
	SeqNo  uint64
	Absent bool
}

// VerifMinSeqNo runs the real getMinSeqNo over a supplied replica table.
func VerifMinSeqNo(reps []VerifReplica) uint64 {
	r := &rollbackMitigation{persistedSeqNos: wrapper.CreateConcurrentSwissMap[uint16, []*vbUUIDAndSeqNo](8)}
	arr := make([]*vbUUIDAndSeqNo, len(reps))
	for i, x := range reps {
		arr[i] = &vbUUIDAndSeqNo{vbUUID: gocbcore.VbUUID(x.VbUUID), seqNo: gocbcore.SeqNo(x.SeqNo), absent: x.Absent}
	}
	r.persistedSeqNos.Store(7, arr)
	return uint64(r.getMinSeqNo(7))
}

func VerifCheckpointID(vbID uint16, group string) []byte { return getCheckpointID(vbID, group) }

// ---- couchbase heart-beat membership: explicit round control for the harness ----

func VerifCBMonitor(m interface{ Close() })   { m.(*cbMembership).monitor() }
func VerifCBHeartbeat(m interface{ Close() }) { m.(*cbMembership).heartbeat() }
func VerifCBID(m interface{ Close() }) string { return string(m.(*cbMembership).id) }
